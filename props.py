"""Registry: which monitors, flavours, configurations and budgets decide each property."""

REGION_MON = {"mon_region": {"sources": ["mon_region.c", "vf.c"]}}


def region_runs(q_plain, q_asan, t_plain, t_asan, exhaustive=True):
    runs = [
        dict(name="programs-plain", monitor="mon_region", flavour="plain", cases={"quick": q_plain, "thorough": t_plain}),
        dict(name="programs-asan", monitor="mon_region", flavour="asan", cases={"quick": q_asan, "thorough": t_asan}),
    ]
    if exhaustive:
        runs.append(dict(name="grid4x3-exhaustive", monitor="mon_region", flavour="plain", config="exhaustive",
                         cases={"quick": 4096, "thorough": 4096}, tiers=("thorough",)))
    return runs


PROPS = {
    "C05": dict(
        level="exploration", monitors=REGION_MON,
        runs=region_runs(16000, 3000, 800000, 60000),
        rule="random 40-operation programs over pools of 6 16-bit and 6 32-bit regions shadowed by 48x48 bitmaps "
             "(windows at the origin, straddling 0, flush against the 16- and 32-bit limits, random); after every operation "
             "all 2304 window points + a ring outside are queried with contains_point and compared with the bitmap; "
             "evaluations = point queries; a cell = (operation, width, aliasing pattern, resulting non-empty point set) counted by hash; "
             "thorough adds ALL 4096 regions on a 4x3 grid x all ordered pairs x {union,intersect,subtract} x 3 aliasing patterns and inverse in all 60 boxes",
        floors={"any": {"ops": 1000, "labels:ops_seen": 40}},
        exhaustive={"thorough": True},
        exhaustive_note="exhaustive only for the 4x3-grid sub-run (config 'exhaustive'); the random programs are a sample",
        assumptions=["bitmap model written from the set-algebra definitions", "contains_point is the observation channel (its own correctness is C07; list-level agreement is checked by C06)",
                     "no allocation failure occurs (failures are C15)"],
    ),
    "C06": dict(
        level="exploration", monitors=REGION_MON,
        runs=region_runs(16000, 3000, 800000, 60000),
        rule="same programs as C05; after every operation the rectangle list is compared list-exact with the canonical y-x banded list "
             "computed independently from the model bitmap (maximal runs per row, identical consecutive rows merged), extents with the tight box, "
             "single/empty storage form and selfcheck; equal() is evaluated on all 36 pool pairs every 8 operations (including empty regions made by different routes); "
             "history cases rebuild one point set along 4 operation orders; translate that clips at the coordinate limit and init_from_image results are compared with the canonical list too; "
             "a cell = (operation, distinct canonical list with >= 2 rectangles) by hash",
        floors={"any": {"ops": 1000, "equal_true_pairs_empty": 10, "equal_true_pairs_nonempty": 10, "history_cases": 10}},
        exhaustive={"thorough": True},
        exhaustive_note="exhaustive only for the 4x3-grid sub-run",
        assumptions=["canonical form computed from the bitmap by the definition in the statement"],
    ),
    "C07": dict(
        level="exploration", monitors=REGION_MON,
        runs=region_runs(12000, 2500, 500000, 50000, exhaustive=False) + [
            dict(name="translate-ubsan", monitor="mon_region", flavour="ubsan", cases={"quick": 1500, "thorough": 30000})],
        ubsan_attr=[r"pixman-region\.c:pixman_region(32)?_translate"],
        rule="on pool regions of the C05 programs: contains_point(+box) on all window points (box must hold the point and be a member rectangle), "
             "contains_rectangle on query boxes biased to the region's own edges +-1 against IN/OUT/PART from the bitmap, not_empty/n_rects/extents against the set, "
             "translate of a copy by amounts that push it partly/wholly past the 16-/32-bit limits against a 64-bit model, init_from_image on a1 images "
             "(width 1..130, padded strides with set padding bits, coalescing row patterns); signed-overflow reports inside *_translate are attributed here; "
             "a cell = (query shape class, expected answer, #rects class) / (translate kind, clipped?, kept?) / (width mod 32, pattern)",
        floors={"any": {"ops": 1000, "translate_partly_clipped": 20, "translate_wholly_clipped": 20, "from_image_cases": 50}},
        assumptions=["bitmap / 64-bit models written from the statement"],
    ),
}
