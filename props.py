"""Registry: which monitors, flavours, configurations and budgets decide each property."""

REGION_MON = {"mon_region": {"sources": ["mon_region.c", "vf.c"]}}


def region_runs(q_plain, q_asan, t_plain, t_asan, exhaustive=True):
    runs = [
        dict(name="programs-plain", monitor="mon_region", flavour="plain", cases={"quick": q_plain, "thorough": t_plain}),
        dict(name="programs-asan", monitor="mon_region", flavour="asan", cases={"quick": q_asan, "thorough": t_asan}),
    ]
    if exhaustive:
        runs.append(dict(name="grid4x3-exhaustive", monitor="mon_region", flavour="plain", config="exhaustive",
                         cases={"quick": 4096, "thorough": 4096}, tiers=("thorough",), noscale=True))
        runs.append(dict(name="grid3x3-exhaustive", monitor="mon_region", flavour="plain", config="exhaustive3x3",
                         cases={"quick": 512, "thorough": 512}, tiers=("quick",), noscale=True))
    return runs


MATRIX_MON = {"mon_matrix": {"sources": ["mon_matrix.c", "vf.c"]}}

FILTER_MON = {"mon_filter": {"sources": ["mon_filter.c", "vf.c"]}}

C01_MON = {"mon_c01": {"sources": ["mon_c01.c", "vf_recipes.c", "vf_req.c", "ref_pixel.c", "ref_ops.c", "vf.c"]}}
GENERAL_ONLY = {"PIXMAN_DISABLE": "fast mmx sse2 ssse3"}

CHAIN_MON = {"mon_chain": {"sources": ["mon_chain.c", "vf_recipes.c", "vf_req.c", "ref_pixel.c", "vf.c"]}}
CHAINS_QUICK = [("default", ""), ("no-ssse3", "ssse3"), ("mmx-top", "sse2 ssse3"), ("c-only", "mmx sse2 ssse3"), ("general-only", "fast mmx sse2 ssse3"),
                ("wholeops", "wholeops"), ("wholeops-general", "wholeops fast mmx sse2 ssse3")]


def all_chains():
    out = []
    names = ["fast", "mmx", "sse2", "ssse3"]
    for w in (0, 1):
        for m in range(16):
            dis = [n for i, n in enumerate(names) if m >> i & 1] + (["wholeops"] if w else [])
            nm = "all-enabled" if not dis else "no-" + "-".join(dis)
            if dis == names:
                nm = "general-only"
            out.append((nm, " ".join(dis)))
    return out


def chain_runs(monitor, qcases, tcases, flavour="plain", extra=None):
    runs = []
    quick_names = set(n for n, _ in CHAINS_QUICK)
    seen = set()
    for nm, dis in CHAINS_QUICK + all_chains():
        key = " ".join(sorted(dis.split()))
        if key in seen:
            continue
        seen.add(key)
        r = dict(name=nm, monitor=monitor, flavour=flavour, config=nm, env={"PIXMAN_DISABLE": dis} if dis else {}, cases={"quick": qcases, "thorough": tcases})
        if nm not in quick_names:
            r["tiers"] = ("thorough",)
        if extra:
            r.update(extra)
        runs.append(r)
    return runs


PROPS = {
    "C05": dict(
        level="exploration", monitors=REGION_MON,
        runs=region_runs(16000, 3000, 800000, 60000),
        rule="random 40-operation programs over pools of 6 16-bit and 6 32-bit regions shadowed by 48x48 bitmaps "
             "(windows at the origin, straddling 0, flush against the 16- and 32-bit limits, random); after every operation "
             "all 2304 window points + a ring outside are queried with contains_point and compared with the bitmap; "
             "evaluations = point queries; a cell = (operation, width, aliasing pattern, resulting non-empty point set) counted by hash; "
             "plus an exhaustive small scope: ALL regions on a grid (quick: the 512 regions of a 3x3 grid, thorough: the 4096 of a 4x3 grid) x all ordered pairs x {union,intersect,subtract} x 3 aliasing patterns, 32- and 16-bit, and inverse in every box of the grid",
        floors={"any": {"ops": 1000, "labels:ops_seen": 40, "exhaustive_A_regions": 512}},
        exhaustive={"quick": True, "thorough": True},
        exhaustive_note="exhaustive only for the grid sub-run (3x3 in the quick tier, 4x3 in the thorough tier); the random programs are a sample",
        assumptions=["bitmap model written from the set-algebra definitions", "contains_point is the observation channel (its own correctness is C07; list-level agreement is checked by C06)",
                     "no allocation failure occurs (failures are C15)"],
    ),
    "C06": dict(
        level="exploration", monitors=REGION_MON,
        runs=region_runs(16000, 3000, 800000, 60000),
        rule="same programs as C05; after every operation the rectangle list is compared list-exact with the canonical y-x banded list "
             "computed independently from the model bitmap (maximal runs per row, identical consecutive rows merged), extents with the tight box, "
             "single/empty storage form and selfcheck; equal() is evaluated on all 36 pool pairs every 8 operations (including empty regions made by different routes); "
             "history cases rebuild one point set along 4 operation orders; translate that clips at the coordinate limit and init_from_image results are compared with the canonical list too; "
             "a cell = (operation, distinct canonical list with >= 2 rectangles) by hash",
        floors={"any": {"ops": 1000, "equal_true_pairs_empty": 10, "equal_true_pairs_nonempty": 10, "history_cases": 10}},
        exhaustive={"thorough": True},
        exhaustive_note="exhaustive only for the 4x3-grid sub-run",
        assumptions=["canonical form computed from the bitmap by the definition in the statement"],
    ),
    "C07": dict(
        level="exploration", monitors=REGION_MON,
        runs=region_runs(12000, 2500, 500000, 50000, exhaustive=False) + [
            dict(name="translate-ubsan", monitor="mon_region", flavour="ubsan", cases={"quick": 1500, "thorough": 30000})],
        ubsan_attr=[r"pixman-region\.c:pixman_region(32)?_translate"],
        rule="on pool regions of the C05 programs: contains_point(+box) on all window points (box must hold the point and be a member rectangle), "
             "contains_rectangle on query boxes biased to the region's own edges +-1 against IN/OUT/PART from the bitmap, not_empty/n_rects/extents against the set, "
             "translate of a copy by amounts that push it partly/wholly past the 16-/32-bit limits against a 64-bit model, init_from_image on a1 images "
             "(width 1..130, padded strides with set padding bits, coalescing row patterns); signed-overflow reports inside *_translate are attributed here; "
             "a cell = (query shape class, expected answer, #rects class) / (translate kind, clipped?, kept?) / (width mod 32, pattern)",
        floors={"any": {"ops": 1000, "translate_partly_clipped": 20, "translate_wholly_clipped": 20, "from_image_cases": 50}},
        assumptions=["bitmap / 64-bit models written from the statement"],
    ),
    "C11": dict(
        level="exploration", monitors=MATRIX_MON,
        runs=[dict(name="calls-plain", monitor="mon_matrix", flavour="plain", cases={"quick": 20000, "thorough": 2000000}),
              dict(name="calls-ubsan", monitor="mon_matrix", flavour="ubsan", cases={"quick": 2000, "thorough": 100000})],
        ubsan_attr=[r"pixman-matrix\.c:"],
        rule="each case = 200 calls drawn from transform_point, point_3d, multiply (all aliasing patterns), scale/rotate/translate (forward and/or reverse), bounds, invert, "
             "fixed<->double conversions; entries and vectors from {0, +-e, +-1, +-2^k, +-2^k+-e, INT32_MIN/MAX, random of several magnitudes}, homogeneous divisors engineered to 0, +-2^k, exactly -2^32 (16.16) "
             "and around 65536, affine results engineered within a few units of +-2^31; every result is compared with exact __int128 rational arithmetic "
             "(nearest, either neighbour on an exact tie; +-1 unit when |w| >= 65536; multiply 1.5 units; invert 1 unit for |entries| <= 2^8 and |det| >= 2^-8); an abort kills the monitor and is attributed to the in-flight call; "
             "signed-overflow / float-cast reports inside pixman-matrix.c are attributed here; a cell = (function, matrix class, vector class, w class, representable?, tie?)",
        floors={"any": {"point_calls": 10000, "point_exact_ties": 20, "invert_singular_inputs": 50, "invert_well_conditioned": 50, "bounds_box_overflows_int16": 5, "directed_cases": 9}},
        assumptions=["__int128 rational reference written from the statement", "gcc arithmetic right shift of negative values (as pixman itself assumes)"],
    ),
    "C18": dict(
        level="exploration", monitors=FILTER_MON,
        runs=[dict(name="grid-asan", monitor="mon_filter", flavour="asan", config="grid", cases={"quick": 12096, "thorough": 12096}),
              dict(name="grid-ubsan", monitor="mon_filter", flavour="ubsan", config="grid", cases={"quick": 12096, "thorough": 12096}, tiers=("thorough",)),
              dict(name="random-asan", monitor="mon_filter", flavour="asan", cases={"quick": 3000, "thorough": 150000}),
              dict(name="random-ubsan", monitor="mon_filter", flavour="ubsan", cases={"quick": 1500, "thorough": 50000})],
        ubsan_attr=[r"pixman-filter\.c:"],
        rule="per axis the full grid {8 reconstruction} x {8 sampling kernels} x {21 scales 1/256..64 incl. 1+-e and non-dyadic} x {subsample bits 0..8} (12096 points, every one visited; the other axis walks the same grid with a different stride) "
             "plus random 16.16 scales (1/65536..64, +-e around 1, powers of two, negative); for each block: header vs announced length, every phase summed in 64 bits must be 65536, "
             "set_filter must accept it, a constant a8r8g8b8 image composited through it (PAD/NORMAL) must stay constant; the block is the library's own exact-size heap block so ASan sees any write outside it; "
             "float-cast/overflow reports inside pixman-filter.c are attributed here; evaluations = phases summed + structural checks + pixels compared; a cell = (kernel pair, bits, width, scale)",
        floors={"any": {"phases": 100000, "constant_image_draws": 500, "grid_points": 12096}},
        exhaustive={"quick": True, "thorough": True},
        exhaustive_note="exhaustive over the enumerated per-axis grid only (config 'grid'); scales are a finite sample of the 2^31 positive 16.16 values",
        assumptions=["phase sums recomputed in 64-bit integers from the returned block"],
    ),
    "C01": dict(
        level="exploration", monitors=C01_MON,
        runs=[dict(name="default-plain", monitor="mon_c01", flavour="plain", cases={"quick": 60000, "thorough": 3000000}),
              dict(name="general-only-plain", monitor="mon_c01", flavour="plain", config="general-only", env=GENERAL_ONLY, cases={"quick": 40000, "thorough": 2000000}),
              dict(name="c-only-plain", monitor="mon_c01", flavour="plain", config="c-only", env={"PIXMAN_DISABLE": "mmx sse2 ssse3"}, cases={"quick": 20000, "thorough": 1000000}),
              dict(name="mmx-top-plain", monitor="mon_c01", flavour="plain", config="mmx-top", env={"PIXMAN_DISABLE": "sse2 ssse3"}, cases={"quick": 20000, "thorough": 1000000}),
              dict(name="default-asan", monitor="mon_c01", flavour="asan", cases={"quick": 8000, "thorough": 200000}),
              dict(name="alpha-sweep", monitor="mon_c01", flavour="plain", config="alpha-sweep", cases={"quick": 10752, "thorough": 344064}),
              dict(name="alpha-sweep-general", monitor="mon_c01", flavour="plain", config="alpha-sweep", env=GENERAL_ONLY, cases={"quick": 10752, "thorough": 344064}, tiers=("thorough",))],
        rule="one case = one composite32 of a 1..67-pixel row: operator = case index mod 53, mask mode (none/unified/component) = next digit, source/mask/destination formats drawn from every direct-colour format the library "
             "supports (narrow, 10-bit, sRGB, float), operands as bits images, solid fills or 1x1 repeating images; channel values from {0,1,2,0x7f,0x80,0xfe,0xff} x random with alpha 0/255 forced in 25% each; "
             "every destination pixel is decoded and compared: exact integer rule (Porter-Duff+ADD, all-narrow formats: bit-exact on defined bits), real-valued Render/PDF equations +-1 destination step (float-evaluated operators or wide formats), "
             "+-1.5 8-bit steps (integer-evaluated PDF blend modes); the alpha-sweep config walks all 256x256 (source alpha, destination alpha) pairs for the 14 exact operators x 3 mask modes; "
             "evaluations = pixels compared; a cell = (operator, mask mode, src/mask/dst formats, operand kinds, alpha edge class) by hash",
        floors={"any": {"labels:op_mode_oracle": 150, "pixels_exact": 200000, "pixels_float": 200000, "pixels_int_blend": 20000}},
        assumptions=["reference equations in harness/ref_ops.c written from the Render/PDF specifications", "HSL operators with a component-alpha mask and dithered destinations are not claimed",
                     "indexed, gray and YUV formats are exercised by C10, not here"],
    ),
    "C02": dict(
        level="exploration", monitors=CHAIN_MON, digest_compare=True,
        runs=chain_runs("mon_chain", 60000, 900000),
        rule="one request stream (2/3 synthesised from every entry of every implementation's fast-path and iterator tables: operator, format triple and the image properties its flag word promises; 1/3 free random requests) "
             "with random widths 1..70, heights 1..5, strides, start alignments, clips, is executed by one process per implementation chain (PIXMAN_DISABLE): quick 7 chains "
             "{all, no ssse3, mmx top, C only, general only, wholeops, wholeops+general only}, thorough all 32 subsets; each case logs a 64-bit digest of the defined destination bits (+ row padding and alpha map) and an offline checker "
             "requires every chain to agree on every case; evaluations = executed requests; a cell = (op, operand kinds/formats, transform class, filter, repeat, clip/cover/CA/accessor flags) by hash; "
             "labels 'fastpath'/'iter' list the routines that were actually selected (trace hook, coverage only); every 25th case is a raw pixman_fill / pixman_blt call (filler with junk above the pixel size) whose digest is the buffer when the chain serves the call and a byte model when it refuses, so chains agree exactly when every served call equals the model; source and mask may be two views of one buffer at different offsets",
        floors={"any": {"cases_compared_across_chains": 5000, "labels:recipes_used": 560, "labels:fastpath": 140}},
        assumptions=["the oracle is agreement between chains, not an absolute reference (absolute correctness: C01, C08, C10)", "ARM/MIPS/VMX implementations are not compiled on this host"],
    ),
    "C04": dict(
        level="exploration", monitors={"mon_chain": CHAIN_MON["mon_chain"], "mon_trap": {"sources": ["mon_trap.c", "vf_req.c", "ref_pixel.c", "ref_ops.c", "vf.c"]},
                                       "mon_blt": {"sources": ["mon_blt.c", "vf_req.c", "ref_pixel.c", "ref_ops.c", "vf.c"]},
                                       "mon_c08": {"sources": ["mon_c08.c", "vf_req.c", "ref_pixel.c", "vf.c"]}},
        runs=[dict(name="asan-default-hostile", monitor="mon_chain", flavour="asan", config="hostile-default", cases={"quick": 24000, "thorough": 600000}),
              dict(name="asan-c-only-hostile", monitor="mon_chain", flavour="asan", config="hostile-c-only", env={"PIXMAN_DISABLE": "mmx sse2 ssse3"}, cases={"quick": 12000, "thorough": 300000}),
              dict(name="asan-general-hostile", monitor="mon_chain", flavour="asan", config="hostile-general", env={"PIXMAN_DISABLE": "fast mmx sse2 ssse3"}, cases={"quick": 12000, "thorough": 300000}),
              dict(name="asan-wholeops-hostile", monitor="mon_chain", flavour="asan", config="hostile-wholeops", env={"PIXMAN_DISABLE": "wholeops"}, cases={"quick": 12000, "thorough": 300000}),
              dict(name="asan-mmx-top", monitor="mon_chain", flavour="asan", config="hostile-mmx", env={"PIXMAN_DISABLE": "sse2 ssse3"}, cases={"quick": 8000, "thorough": 300000}),
              dict(name="asan-no-ssse3", monitor="mon_chain", flavour="asan", config="hostile-no-ssse3", env={"PIXMAN_DISABLE": "ssse3"}, cases={"quick": 8000, "thorough": 300000}),
              dict(name="sampling-asan", monitor="mon_c08", flavour="asan", cases={"quick": 6000, "thorough": 200000}),
              dict(name="sampling-guards", monitor="mon_c08", flavour="plain", cases={"quick": 20000, "thorough": 600000}),
              dict(name="sampling-guards-c-only", monitor="mon_c08", flavour="plain", config="c-only", env={"PIXMAN_DISABLE": "mmx sse2 ssse3"}, cases={"quick": 8000, "thorough": 300000}),
              dict(name="fills-asan", monitor="mon_blt", flavour="asan", config="default", cases={"quick": 3000, "thorough": 100000}),
              dict(name="fills-guards", monitor="mon_blt", flavour="plain", config="default", cases={"quick": 6000, "thorough": 200000}),
              dict(name="traps-asan", monitor="mon_trap", flavour="asan", config="hostile", cases={"quick": 4000, "thorough": 200000}),
              dict(name="traps-guards", monitor="mon_trap", flavour="plain", config="hostile", cases={"quick": 8000, "thorough": 400000}),
              dict(name="guards-default-hostile", monitor="mon_chain", flavour="plain", config="hostile-default", cases={"quick": 60000, "thorough": 1500000}),
              dict(name="guards-wholeops-hostile", monitor="mon_chain", flavour="plain", config="hostile-wholeops", env={"PIXMAN_DISABLE": "wholeops"}, cases={"quick": 30000, "thorough": 800000})],
        rule="the C02 request stream (every fast-path / iterator table entry + random requests) with every source, mask, destination and alpha map in exact-size storage: guard pages directly after (2/3) or before (1/3) the storage in the plain flavour, "
             "exact-size malloc blocks (red zones) or guard pages under ASan; 1/3 of the requests use the hostile-geometry profile (offsets up to +-2^31, rectangles up to 140000 wide, scales 1/4000..4000, translations to +-32767, "
             "projective rows with w crossing 0, very wide (12000..32767) sources, negative strides); the oracle is the absence of an ASan report, a guard-page fault or a bounds/null report, attributed to the in-flight request; "
             "further runs: trapezoid entry points, pixman_fill/blt/fill_boxes (clips larger than the image, far-edge rectangles) and the transformed-sampling monitor (tight quarter turns about grid and half-grid centres, wrap-around exactly at the source width, translations one unit off the quarter grid) with their behavioural oracles switched off; evaluations = executed requests; a cell = request class hash; labels list the routines executed",
        floors={"any": {"hostile_mode_cases": 50000, "labels:fastpath": 140, "labels:iter": 50}},
        assumptions=["storage the caller described = rows up to the end of the last 32-bit word holding a pixel (+ inter-row padding of a padded stride)",
                     "red-zone/guard-page detection misses non-adjacent overflows into other live heap blocks and intra-object overflows"],
    ),
    "C19": dict(
        level="exploration", monitors={"mon_blt": {"sources": ["mon_blt.c", "vf_req.c", "ref_pixel.c", "ref_ops.c", "vf.c"]}},
        runs=[dict(name=nm, monitor="mon_blt", flavour="plain", config=nm, env={"PIXMAN_DISABLE": dis} if dis else {}, cases={"quick": 4000, "thorough": 200000})
              for nm, dis in [("default", ""), ("mmx-top", "sse2 ssse3"), ("c-only", "mmx sse2 ssse3"), ("general-only", "fast mmx sse2 ssse3")]] +
             [dict(name="default-asan", monitor="mon_blt", flavour="asan", config="default", cases={"quick": 1500, "thorough": 60000}),
              dict(name="mmx-asan", monitor="mon_blt", flavour="asan", config="mmx-top", env={"PIXMAN_DISABLE": "sse2 ssse3"}, cases={"quick": 1000, "thorough": 40000})],
        rule="one case = 20 calls: pixman_fill on bpp {1,4,8,16,24,32,64,128} buffers (x/width at all alignments, padded and negative strides, zero sizes, fillers with bits above the depth) judged against a byte model on guard-paged exact-size storage "
             "(TRUE => exactly the rectangle holds the low bpp bits of the filler, FALSE => nothing changed); pixman_blt likewise incl. mismatching depths; fill_boxes / fill_rectangles with 0..10 (overlapping, partly outside, clipped) boxes, all 53 operators, "
             "colours incl. alpha 0xff00..0xffff, every direct destination format, clips, alpha maps and accessors, compared with compositing a solid image box by box; run under 4 implementation chains; "
             "evaluations = calls judged; a cell = (call, bpp/op/format, result, alignment/clip class)",
        floors={"any": {"fill_calls": 20000, "blt_calls": 10000, "fill_boxes_calls": 20000, "labels:boxes_op_fmt": 300}},
        assumptions=["byte model written from the statement; the filler is taken modulo 2^bpp"],
    ),
    "C03": dict(
        level="exploration", monitors={"mon_c03": {"sources": ["mon_c03.c", "vf_recipes.c", "vf_req.c", "ref_pixel.c", "vf.c"]}},
        runs=[dict(name="plain-guards", monitor="mon_c03", flavour="plain", cases={"quick": 12000, "thorough": 600000}),
              dict(name="general-only", monitor="mon_c03", flavour="plain", config="general-only", env=GENERAL_ONLY, cases={"quick": 5000, "thorough": 250000}),
              dict(name="asan", monitor="mon_c03", flavour="asan", cases={"quick": 3000, "thorough": 100000})],
        rule="one case = 8 requests: composite32/composite with request rectangles at negative origins, partly/wholly outside, zero and up to 32767-wide sizes, 1..8-rectangle clips on destination, source and mask, "
             "source clipping / client-clip flags on and off, alpha maps with their own clips on all three images; fill_boxes/fill_rectangles; composite_trapezoids/triangles, composite_glyphs(_no_mask) and the direct rasterisers; "
             "destination formats of every depth (1,4,8,16,24,32,96,128 bpp). Oracles: compute_composite_region must equal the model intersection point by point (bitmap model) and return FALSE exactly when it is empty; "
             "after every drawing call each bit of destination storage, row padding and alpha map outside the model region must be unchanged (bit-level snapshot diff on guard-paged storage); "
             "marking requests (OP_SRC of an opaque solid) must leave the colour in every pixel of the region; evaluations = pixels + queries compared; a cell = (entry point, depth, clip classes, which clips active, position class)",
        floors={"any": {"region_queries": 20000, "marking_cases": 5000, "cases_with_3plus_clip_rects": 3000, "cases_with_pixels_written": 10000, "labels:entry_bpp": 40,
                        "cases_mask_alphamap_clip_active": 5, "cases_src_alphamap_clip_active": 20}},
        assumptions=["the model intersection in harness/mon_c03.c is written from the statement", "for trapezoid/glyph entry points only 'nothing outside bounds and destination clip' is asserted"],
    ),
    "C10": dict(
        level="exploration", monitors={"mon_c10": {"sources": ["mon_c10.c", "vf_req.c", "ref_pixel.c", "vf.c"]}},
        runs=[dict(name="plain", monitor="mon_c10", flavour="plain", cases={"quick": 6272, "thorough": 47040}),
              dict(name="general-only", monitor="mon_c10", flavour="plain", config="general-only", env=GENERAL_ONLY, cases={"quick": 6272, "thorough": 47040}),
              dict(name="asan", monitor="mon_c10", flavour="asan", cases={"quick": 6272, "thorough": 15680})],
        rule="case = (format, kind, chunk): for every format accepted as a source (and float formats) ALL 2^bpp pixel values for bpp <= 16 (16 chunks of 4096) and per-byte-lane sweeps + random words for 24/32 bpp, placed at x offsets 0..9; "
             "kinds: decode to a8r8g8b8 against the reference widening (bit replication; palettes for indexed formats; wide formats: 0->0, max->max, most significant bits), decode to rgba_float against v/(2^n-1), "
             "encode from a8r8g8b8 against truncation (indexed: ent[] with the 15-bit key), round trips F->a8r8g8b8->F and F->float->F, store footprint at bit level for 1..3-pixel stores, "
             "copies of rows made of runs (neighbours that agree in all fields but one): F->F (indexed: between two palettes), the round trips again, and F->G for other narrow formats against encode(decode(v)), "
             "scanline reader vs single-pixel reader (forced by a homogeneous-scale identity transform), and every read/write repeated on an accessor image whose bits pointer is an unmapped fake address "
             "(a direct dereference faults; callbacks are bounds-checked); evaluations = pixel values compared; a cell = (kind, format, chunk, x offset)",
        floors={"any": {"labels:format_kind": 180, "accessor_reads": 100000, "accessor_writes": 100000, "roundtrip_pixels": 500000, "footprint_bits": 100000}},
        exhaustive={"quick": True, "thorough": True},
        exhaustive_note="exhaustive over all pixel values of every format with bpp <= 16; 24/32-bpp and float formats are sampled (byte-lane sweeps + random)",
        assumptions=["reference codec harness/ref_pixel.c written from the format macros of pixman.h", "YUV formats (sources only): decode against the 8-bit reader in float, scanline vs single-pixel reader from every start column, and accessor image vs directly addressed image"],
    ),
    "C08": dict(
        level="exploration", monitors={"mon_c08": {"sources": ["mon_c08.c", "vf_req.c", "ref_pixel.c", "vf.c"]}},
        runs=[dict(name="default", monitor="mon_c08", flavour="plain", cases={"quick": 40000, "thorough": 3000000}),
              dict(name="general-only", monitor="mon_c08", flavour="plain", config="general-only", env=GENERAL_ONLY, cases={"quick": 30000, "thorough": 2000000}),
              dict(name="c-only", monitor="mon_c08", flavour="plain", config="c-only", env={"PIXMAN_DISABLE": "mmx sse2 ssse3"}, cases={"quick": 15000, "thorough": 1000000}),
              dict(name="wholeops", monitor="mon_c08", flavour="plain", config="wholeops", env={"PIXMAN_DISABLE": "wholeops"}, cases={"quick": 15000, "thorough": 1000000}),
              dict(name="asan", monitor="mon_c08", flavour="asan", cases={"quick": 6000, "thorough": 200000})],
        rule="one case = OP_SRC from a transformed source (12 narrow formats, sizes 1..24 incl. 1- and 2-pixel, some 60..130 wide) into a8r8g8b8, destination optionally clipped into several runs; transforms: integer/fractional translations "
             "(incl. exactly .5 and +-e), positive/negative scales on a 1/4 grid, 90/180/270 rotations, general affine, projective; filters NEAREST, BILINEAR, CONVOLUTION, SEPARABLE_CONVOLUTION; all four repeats. "
             "Reference: destination pixel centre through the matrix in 128-bit integers; affine: rounded half-up to 16.16 then nearest=floor(x-e) / bilinear with 7-bit weights compared BIT-EXACTLY, convolution kernels aligned per rounding.txt +-1 code value; "
             "projective: the exact quotient, any position within the propagated rounding error of the 16.16 numerators is admissible; repeat maps from their definitions; run under 4 chains so specialised and generic fetchers are held to the same reference; "
             "evaluations = pixels compared; a cell = (source format, filter, repeat, transform class, tiny-source flags, clipped?)",
        floors={"any": {"labels:filter_repeat_transform": 150, "pixels_affine_exact": 1000000, "pixels_projective": 100000, "pixels_affine_convolution": 200000, "samples_on_a_boundary": 20000}},
        assumptions=["reference sampler harness/mon_c08.c written from the statement and rounding.txt", "wide (10-bit/float) sources are not sampled here (C10 covers their codecs)"],
    ),
    "C09": dict(
        level="exploration", monitors={"mon_c09": {"sources": ["mon_c09.c", "vf_req.c", "ref_pixel.c", "ref_ops.c", "vf.c"]}},
        runs=[dict(name="default", monitor="mon_c09", flavour="plain", cases={"quick": 48000, "thorough": 3000000}),
              dict(name="general-only", monitor="mon_c09", flavour="plain", config="general-only", env=GENERAL_ONLY, cases={"quick": 16000, "thorough": 1000000}),
              dict(name="wholeops", monitor="mon_c09", flavour="plain", config="wholeops", env={"PIXMAN_DISABLE": "wholeops"}, cases={"quick": 16000, "thorough": 1000000}),
              dict(name="c-only", monitor="mon_c09", flavour="plain", config="c-only", env={"PIXMAN_DISABLE": "mmx sse2 ssse3"}, cases={"quick": 16000, "thorough": 1000000}),
              dict(name="mmx-top", monitor="mon_c09", flavour="plain", config="mmx-top", env={"PIXMAN_DISABLE": "sse2 ssse3"}, cases={"quick": 8000, "thorough": 500000}),
              dict(name="asan", monitor="mon_c09", flavour="asan", cases={"quick": 5000, "thorough": 150000})],
        rule="case = (operator = index mod 53, role = source/mask/destination) on a random narrow-format request (transforms incl. projective, NEAREST/BILINEAR, all repeats, clips, offsets that put part of the request outside a REPEAT_NONE source); "
             "the image in that role is rebuilt with the same opaque content in 2..3 presentations: {x8r8g8b8 with noisy x bits, a8r8g8b8 with alpha 255}, {r5g6b5, x8r8g8b8 holding the replicated values, a8r8g8b8(255)}, "
             "{solid fill, 1x1 repeating x8r8g8b8, 1x1 repeating a8r8g8b8(255)}; all presentations must give the same defined destination bits (RGB only for the destination role); "
             "bit-exact for operators evaluated in the integer pipeline, +-1 code value for operators of the floating-point class (an opaque-recognised presentation may be strength-reduced to an integer operator); "
             "evaluations = destination pixels compared; a cell = (operator, role, presentation group, transform/filter/repeat, cover, destination format)",
        floors={"any": {"labels:op_role_group": 300, "groups": 50000}},
        assumptions=["metamorphic oracle: agreement between presentations, not an absolute reference (C01/C08 give those)"],
    ),
    "C12": dict(
        level="exploration", monitors={"mon_trap": {"sources": ["mon_trap.c", "vf_req.c", "ref_pixel.c", "ref_ops.c", "vf.c"]}},
        runs=[dict(name="plain", monitor="mon_trap", flavour="plain", cases={"quick": 16000, "thorough": 1500000}),
              dict(name="general-only", monitor="mon_trap", flavour="plain", config="general-only", env=GENERAL_ONLY, cases={"quick": 5000, "thorough": 300000}),
              dict(name="asan", monitor="mon_trap", flavour="asan", cases={"quick": 3000, "thorough": 150000})],
        rule="one case = 10 shapes: (a) rasterize_trapezoid into a1/a4/a8 images (1..40 x 1..12, empty or prefilled for saturation, pixel offsets) judged per pixel against a sample-counting reference: rows of the depth's grid with top <= y < bottom, "
             "edge abscissae as exact rationals, a sample is inside iff left <= s < right, samples within 2/65536 of an edge are ambiguous (coverage interval), saturation at 2^n-1; shapes whose exact edge leaves the 32-bit 16.16 range at a sampled row are set aside; "
             "(b) a trapezoid vs its two halves (horizontal cut; cut along a line between the edges), (c) pixel offset vs translated coordinates, (d) add_triangles vs the two-trapezoid decomposition, "
             "(e) composite_trapezoids/triangles (14 operators, a1/a4/a8 masks, clips, direct ADD route) vs rasterising into a mask built by the monitor and compositing it, (f) add_trapezoids vs a rasterize loop: all bit-exact; "
             "edges of every slope class (vertical, dy = e, slivers, very slanted bands, endpoints up to +-32000 px away); evaluations = pixels compared; a cell = (depth, size, shape) / (mode, image content)",
        floors={"any": {"pixels_covered": 100000, "metamorphic_cases": 20000, "composite_cases": 8000, "labels:meta_modes": 14, "labels:composite_op_mask": 60}},
        assumptions=["sample grid from the Render specification constants; edges as exact rationals in 128-bit integers", "the 2/65536 ambiguity band reflects the library's snapping of edges to 16.16"],
    ),
    "C13": dict(
        level="exploration", monitors={"mon_grad": {"sources": ["mon_grad.c", "ref_pixel.c", "vf.c"]}},
        runs=[dict(name="plain", monitor="mon_grad", flavour="plain", cases={"quick": 40000, "thorough": 3000000}),
              dict(name="asan", monitor="mon_grad", flavour="asan", cases={"quick": 8000, "thorough": 300000}),
              dict(name="degenerate-asan", monitor="mon_grad", flavour="asan", config="degenerate", cases={"quick": 12000, "thorough": 500000}),
              dict(name="degenerate-ubsan", monitor="mon_grad", flavour="ubsan", config="degenerate", cases={"quick": 4000, "thorough": 100000})],
        rule="one case = OP_SRC from a linear / radial / conical gradient (1..8 stops with non-decreasing, often repeated positions; all repeat modes; none / translate / affine / projective transform) into a8r8g8b8 (narrow) or rgba_float (wide), "
             "source offsets; reference: pixel centre through the transform in long double, t from the geometry (projection; larger admissible root of the two-circle equation with r(t) >= 0, 0<=t<=1 without repeat; angle), repeat applied to t, "
             "neighbouring stops interpolated non-premultiplied then premultiplied; hull of the colour over the uncertainty of t (position error of the 16.16 start + 4 units), one 8-bit step (2^-8 wide) tolerance, |t| <= 16; "
             "pixels whose admissible-root set is ill-conditioned are not judged; every 8th case and the 'degenerate' runs use coincident points, zero/negative/huge radii, equal circles, unsorted and out-of-range stops, singular and wild transforms "
             "under ASan/UBSan with a per-case CPU-time bound (safety only); evaluations = pixels judged; a cell = (kind, repeat, transform class, pipeline, stop list)",
        floors={"any": {"regular_gradients": 20000, "degenerate_gradients": 10000, "labels:kind_repeat_transform": 60}},
        assumptions=["reference in harness/mon_grad.c written from the statement (PDF type 3 rule for radial gradients)", "a hang is detected as a case exceeding 60 s of CPU time"],
    ),
    "C14": dict(
        level="exploration", monitors={"mon_hist": {"sources": ["mon_hist.c", "vf_req.c", "ref_pixel.c", "ref_ops.c", "vf.c"]}},
        runs=[dict(name="default", monitor="mon_hist", flavour="plain", cases={"quick": 12000, "thorough": 800000}),
              dict(name="general-only", monitor="mon_hist", flavour="plain", config="general-only", env=GENERAL_ONLY, cases={"quick": 4000, "thorough": 250000}),
              dict(name="asan", monitor="mon_hist", flavour="asan", cases={"quick": 2500, "thorough": 100000})],
        rule="one case = a 30-step program on long-lived source, mask and destination images (every format, solid and gradient sources): setters set_transform (new / NULL / identity / identical value), set_filter (incl. same-size kernels differing late), "
             "set_repeat, set_clip_region(32) (new / NULL / empty), set_has_client_clip, set_source_clipping, set_component_alpha, set_accessors, set_alpha_map (detach, re-attach with new origin), set_indexed, set_dither, set_dither_offset, "
             "set-then-set-back pairs; about every third step a composite (operator and geometry varied, consecutive composites reuse formats with different flags) is executed on the long-lived images and on fresh replicas built from the monitor's own record of the final properties "
             "and the current pixels; defined destination bits, padding and alpha map must be identical; evaluations = composites compared; a cell = (request class, history) by hash",
        floors={"any": {"composites_compared": 60000, "labels:setters": 40, "setter_calls": 200000}},
        assumptions=["differential oracle: long-lived image vs fresh replica; the record of final properties is kept by the monitor at the API boundary"],
    ),
    "C15": dict(
        level="fault_enumeration", monitors={"mon_alloc": {"sources": ["mon_alloc.c", "vf_alloc.c", "vf.c"], "link": ["-Wl,--wrap=malloc,--wrap=calloc,--wrap=realloc,--wrap=free"]}},
        runs=[dict(name="asan", monitor="mon_alloc", flavour="asan", cases={"quick": 42 * 3, "thorough": 42 * 40}),
              dict(name="plain", monitor="mon_alloc", flavour="plain", cases={"quick": 42 * 6, "thorough": 42 * 120})],
        rule="42 scenarios (region union/subtract/intersect/inverse/in-place/copy/init_rects with validation (overlapping grids; many two-box partial regions merged pairwise)/union_rect growth/16-bit, the same operations into a result that already owns a smaller or larger rectangle array (32- and 16-bit), init_from_image, image and gradient constructors, setters that copy and setters that REPLACE an owned clip / filter / transform / alpha map, filter creation, wide-pipeline gradients and separable filters, many overlapping triangles/trapezoids (drawn once or not at all), glyph-cache traffic with tombstones and long mixed-format runs, fills through many-box clips, five single-draw scenarios in which every destination pixel must be untouched or hold the failure-free result, a reused 16-bit result region in compute_composite_region, "
             "composites through the general path with scanline buffers beyond the stack buffer, alpha-map destination and transformed sources, glyph cache insert + composite_glyphs(_no_mask), composite_trapezoids/triangles + add_*, "
             "fill_rectangles/fill_boxes, compute_composite_region); each is run once to count its N allocations (malloc/calloc/realloc wrapped at link time), then for EVERY k in 1..N with allocation k failing once and with k and all later ones failing; "
             "oracles: no crash / ASan report, failures reported (NULL / FALSE), a failed region operation leaves the broken region which later operations propagate and fini accepts, calls that report success give the failure-free result, "
             "drawing calls leave everything outside their rectangle untouched, and no block allocated during the scenario is live at its end; evaluations = injected runs; a cell = (scenario, k, mode, did an allocation fail)",
        floors={"any": {"injected_runs": 400, "failures_reported": 100, "labels:failed_site": 15}},
        exhaustive={"quick": True, "thorough": True},
        exhaustive_note="exhaustive over (scenario, k, once/persistent) for the listed scenarios; the thorough tier repeats them with 40..120 size variants",
        assumptions=["allocation sites are those reached by the 42 scenarios (listed in the evidence labels)", "realloc failure leaves the old block valid, as the C library does"],
    ),
    "C20": dict(
        level="exploration", monitors={"mon_life": {"sources": ["mon_life.c", "vf_alloc.c", "vf.c"], "link": ["-Wl,--wrap=malloc,--wrap=calloc,--wrap=realloc,--wrap=free"]}},
        runs=[dict(name="asan", monitor="mon_life", flavour="asan", cases={"quick": 30000, "thorough": 3000000}),
              dict(name="asan-small-glyph-table", monitor="mon_life", flavour="asan", config="glyphs", defs=["-DPIXMAN_VERIF_GLYPH_HIGH_WATER=4"], cases={"quick": 8000, "thorough": 500000}),
              dict(name="plain", monitor="mon_life", flavour="plain", cases={"quick": 60000, "thorough": 6000000})],
        rule="one case = a random program (6..70 steps, then every held reference dropped in random order and the glyph cache destroyed) of create (bits with library or caller storage, solid, linear/radial/conical) / ref / unref / "
             "set_alpha_map (to a bits image, to itself, to an image that has or is a map, to a non-bits image, re-attach of the current map also after the program dropped its own reference on it, detach) / set_clip_region(32) / set_transform / set_filter (plain, convolution, separable) / set_destroy_function / "
             "composite using pool images / glyph-cache insert+remove of pool images; model: per image the references the program holds, its attachment edge and its holder count, predicting which images die in each call; "
             "oracles: unref returns TRUE exactly at a predicted death, the destroy callback runs exactly once inside that call with the registered data and an intact image, attachments are refused exactly when they would form a chain, "
             "after the last reference every image has died and no block allocated by the library during the program is live (malloc/calloc/realloc/free wrapped at link time), caller-owned storage is still the caller's (freed by the monitor or in the callback), "
             "AddressSanitizer reports (asan run); evaluations = unrefs + attachment calls + quiescent points judged; a cell = program shape by hash",
        floors={"any": {"histories": 20000, "deaths": 100000, "callbacks_expected": 30000, "cascaded_deaths_of_alpha_maps": 3000, "attaches": 20000, "attach_refusals_expected": 5000, "quiescent_points": 20000, "labels:attach": 7}},
        assumptions=["a program names an image it holds no reference on only to re-attach it as the alpha map it already is (the attachment keeps it alive)", "overlapping source/destination storage in a composite is outside the statement and not generated"],
    ),
    "C16": dict(
        level="exploration", monitors={"mon_thread": {"sources": ["mon_thread.c", "vf_req.c", "ref_pixel.c", "ref_ops.c", "vf.c"], "link": ["-lpthread"]}},
        runs=[dict(name="tsan", monitor="mon_thread", flavour="tsan", cases={"quick": 288, "thorough": 9600}, shards=8),
              dict(name="plain", monitor="mon_thread", flavour="plain", cases={"quick": 960, "thorough": 96000}, shards=8),
              dict(name="tsan-cold-start", monitor="mon_thread", flavour="tsan", config="cold", cases={"quick": 64, "thorough": 3200}, shards=8),
              dict(name="plain-cold-start", monitor="mon_thread", flavour="plain", config="cold", cases={"quick": 160, "thorough": 16000}, shards=8)],
        rule="one case = one round: the main thread builds 10 shared source/mask images (bits with transforms/filters/repeats/alpha maps/indexed palettes, solid, gradients) and 3 shared regions and uses each once, "
             "then T in {2,4,8,16} streams of 8..48 calls (composite with private images, composite/trapezoids/glyphs with a shared source or mask, scanlines longer than the general path's stack buffer in the 8-bit and the floating-point pipeline, "
             "fill_boxes, region algebra with a shared read-only operand, rasterize/composite_trapezoids, composite/add_triangles (few and many), private glyph caches, blt/fill, separable filter tables + matrix arithmetic + a filtered composite) on thread-private destinations are run alone on the main thread and then concurrently "
             "(barrier start, sched_yield/spins between calls in every other round); oracles: ThreadSanitizer data-race reports (library and monitor both instrumented) and the per-call result digests of the concurrent run "
             "against the serial run; cold-start rounds fork a fresh process whose first library calls are made by T threads at once (no shared images) and compare with a forked serial run; evaluations = calls issued concurrently and compared; a cell = (call kind, result digest)",
        floors={"any": {"rounds": 200, "cold_start_rounds": 100, "concurrent_calls": 40000, "composite-shared-source": 5000, "composite-long-scanline": 2000, "trapezoids-triangles": 2000, "filter-tables-matrix": 1000, "glyphs": 1000, "region-algebra": 2000, "labels:threads": 6}},
        assumptions=["only the interleavings that happened are judged", "shared images are used once by the main thread before the threads start (the statement's precondition)"],
    ),
    "C17": dict(
        level="exploration", monitors={"mon_glyph": {"sources": ["mon_glyph.c", "vf_req.c", "ref_pixel.c", "ref_ops.c", "vf.c"]}},
        runs=[dict(name="hw4", monitor="mon_glyph", flavour="plain", config="hw4", defs=["-DPIXMAN_VERIF_GLYPH_HIGH_WATER=4"], cases={"quick": 6000, "thorough": 600000}),
              dict(name="hw8", monitor="mon_glyph", flavour="plain", config="hw8", defs=["-DPIXMAN_VERIF_GLYPH_HIGH_WATER=8"], cases={"quick": 4000, "thorough": 400000}),
              dict(name="hw64", monitor="mon_glyph", flavour="plain", config="hw64", defs=["-DPIXMAN_VERIF_GLYPH_HIGH_WATER=64"], cases={"quick": 1500, "thorough": 100000}),
              dict(name="production-size", monitor="mon_glyph", flavour="plain", config="hw16384", cases={"quick": 640, "thorough": 20000}),
              dict(name="hw4-all-histories-of-5", monitor="mon_glyph", flavour="plain", config="hw4-exhaustive5", defs=["-DPIXMAN_VERIF_GLYPH_HIGH_WATER=4"], cases={"quick": 14 ** 5, "thorough": 14 ** 5}, tiers=("quick",)),
              dict(name="hw4-all-histories-of-7", monitor="mon_glyph", flavour="plain", config="hw4-exhaustive7", defs=["-DPIXMAN_VERIF_GLYPH_HIGH_WATER=4"], cases={"quick": 14 ** 7, "thorough": 14 ** 7}, tiers=("thorough",)),
              dict(name="hw4-asan", monitor="mon_glyph", flavour="asan", config="hw4", defs=["-DPIXMAN_VERIF_GLYPH_HIGH_WATER=4"], cases={"quick": 1500, "thorough": 100000}),
              dict(name="production-size-asan", monitor="mon_glyph", flavour="asan", config="hw16384", cases={"quick": 128, "thorough": 4000})],
        rule="one case = a 200-step history of freeze / thaw / lookup / insert (lookup first, as clients do) / remove / draw over a key pool about 3x the high-water mark, on library builds whose glyph table is shrunk "
             "(PIXMAN_VERIF hook: high water 4, 8, 64 -> 8, 16, 128 slots) so that the table fills completely, tombstones build up and probes wrap, plus the production size with table-filling histories (2*16384+8 inserts in one freeze, then lookups of absent keys); "
             "model: map key -> (handle, private copy of the inserted pixels, origin), freeze depth, recency; every lookup is compared with the model, refusals are judged against what the table can hold, after each thaw to depth 0 the survivors must be all entries or the most recently used low-water many "
             "(or none when more than high-water tombstones can exist); a probe sequence longer than the table is reported by the library hook; drawing: composite_glyphs_no_mask vs one composite32 per glyph from the monitor's copies, "
             "composite_glyphs vs ADD-accumulating the copies into a mask of the requested format and compositing it (14 operators, a1/a4/a8/8888/565 glyphs mixed, clips, positions partly outside); evaluations = lookups + pixels compared; a cell = history by hash / draw class",
        floors={"any": {"lookups": 200000, "inserts": 50000, "removes": 20000, "thaws_with_eviction": 500, "inserts_refused": 20, "draws_with_mask": 3000, "draws_no_mask": 3000, "labels:draw_op_maskfmt": 50}},
        exhaustive={"quick": True, "thorough": True},
        exhaustive_note="exhaustive only for the small scope: every history of exactly 5 (quick) / 7 (thorough) symbols over {freeze, thaw, use(k), remove(k); k in 6 colliding keys} on an 8-slot table (high water 4) that starts frozen; everything else is random exploration",
        assumptions=["the monitor cannot see tombstones: it uses the number of removals as their upper bound", "table-size override is the PIXMAN_VERIF hook H1 (add-only)"],
    ),
}

# ---------------------------------------------------------------- MANIFEST texts
MANIFEST_TEXT = {
    "C05": dict(
        technique="history-vs-model runtime monitor (bitmap point-set model) + ASan; exhaustive grid sub-scope (3x3 quick, 4x3 thorough)",
        level_text="Exploration: every region operation of random 40-step programs (both widths, every aliasing pattern, windows at the coordinate limits) is compared point by point with a bitmap model; "
                   "the thorough tier additionally enumerates all 4096 regions of a 4x3 grid pairwise. Held-on-observed, not a proof; right level because the quantifier (all region pairs) is unbounded and the code is pure sequential C.",
        level_note="trusted: the 60-line bitmap model and canonicaliser in harness/mon_region.c; contains_point as observation channel; gcc sanitizer runtimes"),
    "C06": dict(
        technique="history-vs-model runtime monitor (canonical list computed from a bitmap) + equal() on all pool pairs",
        level_text="Exploration: after every operation the rectangle list must be bit-identical to the canonical banded list derived independently from the model bitmap, with tight extents and correct storage form; "
                   "equal() is checked against set equality on all pool pairs including empties made by different routes; exhaustive on the 4x3 grid in the thorough tier.",
        level_note="trusted: canonical_generic() in harness/mon_region.c written from the statement; one known finding (translate clamping does not re-merge bands) is keyed narrowly"),
    "C07": dict(
        technique="model-based runtime monitor (bitmap / 64-bit translate model / a1 bitmap) + UBSan attribution inside *_translate",
        level_text="Exploration: contains_point (+member box), contains_rectangle on edge-biased query boxes, descriptors, translate past the 16/32-bit limits and init_from_image on adversarial a1 bitmaps are each compared with the point-set model.",
        level_note="trusted: bitmap model; signed-overflow reports are attributed by source function"),
    "C11": dict(
        technique="reference-model runtime monitor (exact __int128 rationals) + abort attribution + UBSan in pixman-matrix.c",
        level_text="Exploration: 10^6..10^8 calls with magnitude-extreme and engineered operands are compared with exact rational arithmetic (rounding, overflow reporting, no abort).",
        level_note="trusted: the __int128 reference in harness/mon_matrix.c; tolerances exactly those of the statement (exact for |w|<65536, 1 unit otherwise; multiply 1.5 units; invert 1 unit for well-conditioned input)"),
}

MANIFEST_TEXT["C18"] = dict(
    technique="structural runtime monitor on the returned block (length, header, 64-bit phase sums, block is a function of the arguments) + constant image through every fetcher + ASan (exact-size heap block) + UBSan attribution in pixman-filter.c",
    level_text="Exploration, exhaustive over an enumerated grid: all 64 kernel pairs x 21 scales x subsample bits 0..8 per axis plus random scales; each block is checked for length/header agreement, exact 64-bit phase sums, set_filter acceptance and constancy of a filtered constant image, under ASan.",
    level_note="trusted: 64-bit re-summation in harness/mon_filter.c; ASan red zones around the library's own malloc block")

MANIFEST_TEXT["C02"] = dict(
    technique="differential runtime monitoring: per-case destination digests logged by one process per PIXMAN_DISABLE chain, offline cross-chain checker; table-directed request generation",
    level_text="Exploration: every fast-path and iterator table entry of the fast/mmx/sse2/ssse3/noop/general implementations is turned into requests with varying width, alignment, stride and clips; the same stream runs under 7 (quick) or 32 (thorough) chains and the digests must agree.",
    level_note="trusted: digest over defined destination bits; table walking uses the private header for workload steering only")

MANIFEST_TEXT["C04"] = dict(
    technique="AddressSanitizer + bounds/null UBSan + mprotect guard pages around exact-size pixel storage, crash attribution to the in-flight request; table-directed and hostile-geometry composites under 6 implementation chains, plus trapezoid, fill/blt/fill_boxes and transformed-sampling workloads (tight quarter turns, wrap-around exactly at the source width) on guarded storage",
    level_text="Exploration: ~10^5 (quick) to ~5*10^6 (thorough) requests covering every fast-path/iterator table entry and hostile geometry, every image in exact-size guarded storage, under ASan and guard pages for several PIXMAN_DISABLE chains; a report or fault is a violation tied to the request.",
    level_note="trusted: ASan/guard pages as oracle; what counts as described storage is stated in the evidence assumptions")

MANIFEST_TEXT["C01"] = dict(
    technique="reference-model runtime monitor: exact 8-bit integer rule and real-valued Render/PDF equations evaluated on every destination pixel (default, general-only, C-only and MMX-on-top chains, plain + ASan)",
    level_text="Exploration: ~10^7 (quick) to ~10^9 (thorough) destination pixels over all 53 operators x 3 mask modes x every direct-colour format (narrow, 10-bit, sRGB, float) and operand kind, each compared with an independent oracle: bit-exact for Porter-Duff/ADD on narrow formats, one destination step for float evaluation; the thorough tier walks all 256x256 alpha pairs for the 14 exact operators.",
    level_note="trusted: harness/ref_ops.c (equations from the Render/PDF specifications) and ref_pixel.c (codec); HSL with component alpha, dithering and YUV operands are outside this check; palette operands are judged as their palette entries")

MANIFEST_TEXT["C19"] = dict(
    technique="model-based runtime monitor (byte model for fill/blt on guard-paged storage) + differential monitor (fill_boxes vs per-box compositing), 4 implementation chains, plain + ASan",
    level_text="Exploration: 10^5..10^7 calls over every depth, alignment, stride, operator, colour and destination format; fill/blt judged byte-for-byte against a model including everything outside the rectangle (also copies inside one buffer and mismatched depths), fill_boxes/fill_rectangles judged against compositing (also rectangles reaching beyond 32767 and clips larger than the image).",
    level_note="trusted: byte model in harness/mon_blt.c; digest of defined destination bits for the differential part")

MANIFEST_TEXT["C03"] = dict(
    technique="model-based runtime monitor: bitmap model of the composite region vs pixman_compute_composite_region; bit-level write-footprint snapshots on guard-paged storage; must-write marking requests; table-directed requests for every fast-path/iterator entry ending on word boundaries inside the destination",
    level_text="Exploration: 10^5..5*10^6 requests with multi-rectangle clips on every image and alpha map, every destination depth and all drawing entry points; the region query is compared point by point with a model and every bit outside the region must survive the call.",
    level_note="trusted: the intersection model (grid_and_*) in harness/mon_c03.c; snapshot diff at bit granularity")

MANIFEST_TEXT["C10"] = dict(
    technique="reference-codec runtime monitor, exhaustive over pixel values for bpp <= 16; translating accessors on an unmapped fake base (a bypass faults); bit-level store footprint; copies of run-structured rows between formats and palettes",
    level_text="Exploration, exhaustive in the pixel-value dimension for all formats up to 16 bpp: decode, encode, round trips, footprint, reader agreement (8-bit and float, scanline vs single pixel, YUV from every start column) and accessor equivalence (also for callbacks installed after first use, on one side only, and removed again) are each compared with an independent codec.",
    level_note="trusted: harness/ref_pixel.c; conversions go through OP_SRC composites (default and general-only chains)")

MANIFEST_TEXT["C08"] = dict(
    technique="reference-model runtime monitor: exact-arithmetic sampling positions, bit-exact nearest/bilinear reference, kernel-alignment reference for convolutions, under 4 implementation chains",
    level_text="Exploration: 10^6..10^8 destination pixels of transformed OP_SRC and OP_OVER composites (with a8 masks made of runs) compared with an independent sampler: bit-exact for affine nearest/bilinear, +-1 code value for convolutions, admissible-position window for projective transforms.",
    level_note="trusted: the sampler in harness/mon_c08.c; codec from ref_pixel.c")

MANIFEST_TEXT["C09"] = dict(
    technique="metamorphic runtime monitor: identical opaque content in different presentations (alpha-less / alpha=255 / 565 / solid / 1x1 repeat) as source, mask or destination must give the same picture; 5 implementation chains (default, general-only, wholeops disabled, C fast paths on top, MMX on top)",
    level_text="Exploration: 10^5..5*10^6 request groups over all 53 operators x 3 roles x presentation groups x transforms/filters/repeats, exercising every opacity-driven operator reduction and IS_OPAQUE/SAMPLES_OPAQUE promotion; pixel-exact comparison (two code values for float-class operators; a pair of an alpha-dividing operator that hook H2 shows to have been served at two different precisions is not judged, as the statement allows).",
    level_note="trusted: the content painter in harness/mon_c09.c; comparison on defined destination bits; hook H2 only tells which precision served a request")

MANIFEST_TEXT["C12"] = dict(
    technique="reference-model runtime monitor (sample counting with exact rational edges, one-unit (1/65536 pixel) ambiguity band) + exact metamorphic/differential oracles (abutting parts, pixel offsets, triangle decomposition, composite vs mask route), plain + ASan",
    level_text="Exploration: 10^5..10^7 shapes of every slope class on a1/a4/a8 targets; per-pixel coverage is compared with the count of grid samples inside the exact shape, and five bit-exact equalities between different library routes are checked.",
    level_note="trusted: sample-grid constants and rational edge evaluation in harness/mon_trap.c")

MANIFEST_TEXT["C13"] = dict(
    technique="reference-model runtime monitor (geometric parameter + stop interpolation with uncertainty hull) + ASan/UBSan safety sweep over degenerate gradients with a CPU-time bound per case",
    level_text="Exploration: 10^6..10^8 gradient pixels judged against an independent reference within one quantisation step (touching circles, long rows of sub-1/65536 advance and, many repetitions out, the hull of a whole period included), plus 10^4..10^6 degenerate gradients under sanitizers for the crash/hang/out-of-bounds clause.",
    level_note="trusted: the reference in harness/mon_grad.c; ill-conditioned pixels are skipped and counted")

MANIFEST_TEXT["C14"] = dict(
    technique="history-vs-fresh-replica differential runtime monitor over random setter/composite programs (record kept at the API boundary), default and general-only chains, plain + ASan",
    level_text="Exploration: 10^5..10^7 composites on images with 30-step setter histories, each compared bit-for-bit with fresh replicas given the same final properties and pixels; aimed at stale derived state (early-return comparisons, caches, dirty flags); accessors keep the storage XOR-ed so that ignored callbacks show, alpha maps get their own setters and may be another image of the request, a quarter of the programs scroll an interpolated source on and off the pixel grid.",
    level_note="trusted: the property record in harness/mon_hist.c and the replica builder in vf_req.c")

MANIFEST_TEXT["C15"] = dict(
    technique="fault injection by link-time wrapping of malloc/calloc/realloc/free with exhaustive enumeration of the failing allocation index per scenario, under ASan, with live-block accounting",
    level_text="Fault enumeration: for each of 42 API scenarios every allocation index k is failed once and persistently; crash, leak (live-block accounting), broken-region propagation, reporting and write confinement are checked after every injected run.",
    level_note="trusted: the wrappers in harness/vf_alloc.c; sites not reached by the scenarios are not covered")

MANIFEST_TEXT["C17"] = dict(
    technique="history-vs-model runtime monitor on shrunken hash tables (PIXMAN_VERIF hook) with a probe-overrun hook for termination; differential monitor for glyph drawing (through the cache vs per-glyph compositing from private copies)",
    level_text="Exploration: 10^4..10^6 histories of 200 cache operations on 8/16/128-slot tables and the production table (table-filling runs), every lookup checked against a map model, eviction checked for LRU order, termination as a logical-step verdict; exhaustive small scope: all histories of 5 (quick) / 7 (thorough) symbols over freeze/thaw/use/remove of 6 colliding keys on an 8-slot table; glyph drawing compared bit-for-bit with the two reference constructions of the statement.",
    level_note="trusted: the map model in harness/mon_glyph.c; hook H1 in pixman-glyph.c (guarded, add-only)")

MANIFEST_TEXT["C20"] = dict(
    technique="history-vs-ownership-model runtime monitor (unref return values, destroy-callback counts and timing, refusal of alpha-map chains) with link-time allocation accounting at quiescent points and AddressSanitizer for double free / use after free",
    level_text="Exploration: 10^5..10^7 random programs of create/ref/unref/set_alpha_map/setters/draw/glyph-cache calls over a pool of up to 12 images; every unref and attachment judged against the model, refused requests (impossible filter sizes, malformed creations) included, every program ends in a quiescent point where live library blocks must be zero",
    level_note="trusted: the ownership model in harness/mon_life.c; the malloc wrappers in harness/vf_alloc.c")

MANIFEST_TEXT["C16"] = dict(
    technique="ThreadSanitizer (gcc -fsanitize=thread, library and monitor instrumented) over concurrent streams on private destinations with shared read-only sources, plus a serial-vs-concurrent result-digest comparison per call",
    level_text="Exploration: 10^2..10^4 rounds of 2..16 threads x 8..48 calls; only executed interleavings are judged, rounds are repeated with and without injected yields and cold-start rounds make the threads' calls the first library use of a forked process; race reports are keyed by the innermost and outermost pixman function",
    level_note="trusted: gcc's ThreadSanitizer runtime; the stream generator in harness/mon_thread.c")

NOT_CLAIMED = {p: "monitor not built yet in this round (design in DESIGN.md section 6); no claim is made" for p in
               ["C%02d" % i for i in range(1, 21)]}

# ---- workload sizing (applied once, after the per-property tables above).
# The tables were sized while the monitors were being written; measured on 16 idle cores the quick tier then took 1-30 s and the
# thorough tier 20-130 s per property, so both are scaled up: quick stays a check one runs on every change (under a minute),
# thorough is the deep run (several minutes per property).  Enumerated scopes (grids, sweeps, exhaustive histories) are not scaled.
QUICK_SCALE = {"C01": 5, "C02": 3, "C03": 10, "C04": 3, "C05": 5, "C06": 8, "C07": 8, "C08": 10, "C09": 6, "C11": 5, "C12": 5, "C13": 2, "C14": 5,
               "C18": 6, "C19": 10, "C20": 5}
THOROUGH_SCALE = {"C01": 3, "C03": 4, "C04": 3, "C05": 3, "C06": 4, "C07": 6, "C08": 5, "C09": 4, "C11": 2, "C12": 3, "C13": 8, "C14": 3, "C18": 4, "C19": 6, "C20": 3}
_ENUMERATED = ("exhaustive", "grid", "alpha-sweep")
for _p, _spec in PROPS.items():
    for _r in _spec["runs"]:
        if any(k in _r.get("config", "") for k in _ENUMERATED) or _spec.get("level") == "fault_enumeration":
            continue
        _r["cases"] = dict(quick=_r["cases"]["quick"] * QUICK_SCALE.get(_p, 1), thorough=_r["cases"]["thorough"] * THOROUGH_SCALE.get(_p, 1))
