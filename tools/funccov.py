#!/usr/bin/env python3
"""Development aid (not a registered check): which functions and lines of /repo/pixman/*.c do the registered workloads execute?

Builds a gcov-instrumented libpixman (-O0 --coverage) under build/cov, links every monitor of props.py against it, runs every
run of every property's quick tier at a fraction of its case count (same configs / PIXMAN_DISABLE chains, TSan runs as plain
threads), and writes tools/funccov.json + prints per-file line coverage and the functions never entered.
usage: tools/funccov.py [--fraction 20] [Cnn ...]"""
import json, os, re, shutil, subprocess, sys, glob
from concurrent.futures import ThreadPoolExecutor
V = os.path.dirname(os.path.dirname(os.path.abspath(__file__)))
sys.path.insert(0, V)
import vfbuild
from props import PROPS

COV = os.path.join(vfbuild.BUILD, "cov")
REPO = vfbuild.REPO


def sh(cmd, **kw):
    return subprocess.run(cmd, stdout=subprocess.PIPE, stderr=subprocess.STDOUT, text=True, **kw)


def build_lib():
    shutil.rmtree(COV, ignore_errors=True)
    os.makedirs(os.path.join(COV, "inc"))
    shutil.copy(os.path.join(vfbuild.SUPPORT, "config.h"), os.path.join(COV, "inc", "config.h"))
    maj, mi, mic = vfbuild.project_version()
    vin = open(os.path.join(REPO, "pixman", "pixman-version.h.in")).read()
    vin = vin.replace("@PIXMAN_VERSION_MAJOR@", maj).replace("@PIXMAN_VERSION_MINOR@", mi).replace("@PIXMAN_VERSION_MICRO@", mic)
    open(os.path.join(COV, "inc", "pixman-version.h"), "w").write(vin)
    flags = vfbuild.COMMON + ["-O0", "--coverage", "-I" + os.path.join(COV, "inc"), "-I" + os.path.join(REPO, "pixman")]

    def cc(s):
        o = os.path.join(COV, s[:-2] + ".o")
        r = sh(["gcc"] + flags + vfbuild.SIMD.get(s, []) + ["-c", os.path.join(REPO, "pixman", s), "-o", o])
        assert r.returncode == 0, r.stdout[-2000:]
        return o
    with ThreadPoolExecutor(16) as ex:
        objs = list(ex.map(cc, vfbuild.source_list()))
    r = sh(["ar", "rcs", os.path.join(COV, "libpixman.a")] + objs)
    assert r.returncode == 0, r.stdout


def build_monitor(name, mon, defs=()):
    exe = os.path.join(COV, name + ("-" + "_".join(defs) if defs else "")).replace("=", "").replace("-D", "")
    if os.path.exists(exe):
        return exe
    if defs:
        return None      # variants that need another library build (glyph table sizes) are skipped
    cmd = (["gcc", "-g", "-O1", "-fno-strict-aliasing", "-pthread", "-no-pie", "-DHAVE_CONFIG_H", "-DPIXMAN_VERIF", "-DVF_FLAVOUR_PLAIN=1", "-w",
            "-I" + os.path.join(COV, "inc"), "-I" + os.path.join(REPO, "pixman"), "-I" + vfbuild.HARNESS]
           + [os.path.join(vfbuild.HARNESS, s) for s in mon["sources"]] + [os.path.join(COV, "libpixman.a")] + list(mon.get("link", ())) + ["-lgcov", "-lm", "-ldl", "-o", exe])
    # only the library is instrumented; the harness is compiled without --coverage and linked with -lgcov
    r = sh([c for c in cmd])
    assert r.returncode == 0, r.stdout[-3000:]
    return exe


def main():
    args = sys.argv[1:]
    frac = 20
    if "--fraction" in args:
        frac = int(args[args.index("--fraction") + 1]); del args[args.index("--fraction"):args.index("--fraction") + 2]
    props = args or sorted(PROPS)
    build_lib()
    work = os.path.join(COV, "work"); os.makedirs(work, exist_ok=True)
    jobs = []
    for p in props:
        spec = PROPS[p]
        for i, r in enumerate(spec["runs"]):
            if "quick" not in r.get("tiers", ("quick", "thorough")):
                continue
            exe = build_monitor(r["monitor"], spec["monitors"][r["monitor"]], tuple(r.get("defs", ())))
            if not exe:
                continue
            cases = max(40, r["cases"]["quick"] // frac)
            for s in range(4):
                out = os.path.join(work, "%s-%d-%d" % (p, i, s))
                cmd = [exe, "--seed", "1", "--shard", "%d/4" % s, "--cases", str(cases), "--tier", "quick", "--config", r.get("config", "default"),
                       "--out", out + ".out", "--inflight", out + ".infl", "--start", "0", "--prop", p] + list(r.get("args", []))
                env = dict(os.environ); env.pop("PIXMAN_DISABLE", None); env.update(r.get("env", {}))
                jobs.append((cmd, env, out))

    def run(j):
        cmd, env, out = j
        try:
            p = subprocess.run(cmd, env=env, stdout=open(out + ".log", "w"), stderr=subprocess.STDOUT, timeout=1800)
            return p.returncode
        except subprocess.TimeoutExpired:
            return "timeout"
    with ThreadPoolExecutor(16) as ex:
        rcs = list(ex.map(run, jobs))
    print("%d monitor processes, exit codes: %s" % (len(jobs), {str(k): rcs.count(k) for k in set(rcs)}))
    # gcov: per-function call counts and per-file line coverage
    res = {}
    for gcda in sorted(glob.glob(os.path.join(COV, "*.gcda"))):
        r = sh(["gcov", "-f", "-b", "-o", COV, gcda], cwd=work)
        cur = None
        for ln in r.stdout.split("\n"):
            m = re.match(r"Function '(.+)'", ln)
            m2 = re.match(r"File '(.+)'", ln)
            m3 = re.match(r"Lines executed:([\d.]+)% of (\d+)", ln)
            if m:
                cur = ("fn", m.group(1))
            elif m2:
                cur = ("file", m2.group(1))
            elif m3 and cur:
                res.setdefault(os.path.basename(gcda)[:-5], {}).setdefault(cur[0], {})[cur[1]] = (float(m3.group(1)), int(m3.group(2)))
                cur = None
    summary = {}
    for unit, d in sorted(res.items()):
        fl = {k: v for k, v in d.get("file", {}).items() if k.endswith(unit + ".c")}
        fns = d.get("fn", {})
        never = sorted(k for k, (pc, n) in fns.items() if pc == 0.0)
        tot = sum(n for pc, n in fns.values()); hit = sum(pc * n / 100.0 for pc, n in fns.values())
        summary[unit] = dict(functions=len(fns), never_entered=never, lines=tot, line_coverage=round(100.0 * hit / tot, 1) if tot else None)
        print("%-28s %4d functions, %4d never entered, %5.1f%% of %5d lines" % (unit, len(fns), len(never), summary[unit]["line_coverage"] or 0, tot))
    json.dump(summary, open(os.path.join(V, "tools", "funccov.json"), "w"), indent=1)
    shutil.rmtree(work, ignore_errors=True)


if __name__ == "__main__":
    main()
