/* Monitor for C05 (set algebra), C06 (canonical form, equal) and C07 (queries, translate,
 * bitmap import).  History-vs-model: every region of a pool is shadowed by a bitmap over a
 * WINxWIN window placed anywhere in coordinate space; after every operation the real region
 * is compared with the model.  --prop selects which property's oracles report. */
#include "vf.h"

#define WIN 48
#define NPOOL 6
#define MAXRECTS (200 * 100)
typedef struct { uint8_t b[WIN][WIN]; } bm_t;
typedef struct { uint8_t b[26][200]; } bm2_t;
typedef struct { int x1, y1, x2, y2; } rect_t;

static int64_t win_x, win_y;          /* window origin of the current program */
#define FOCUS(p) (!strcmp (vf.prop, p))

static void bm_union (bm_t *d, const bm_t *a, const bm_t *b) { bm_t t; for (int j = 0; j < WIN; j++) for (int i = 0; i < WIN; i++) t.b[j][i] = a->b[j][i] | b->b[j][i]; *d = t; }
static void bm_intersect (bm_t *d, const bm_t *a, const bm_t *b) { bm_t t; for (int j = 0; j < WIN; j++) for (int i = 0; i < WIN; i++) t.b[j][i] = a->b[j][i] & b->b[j][i]; *d = t; }
static void bm_subtract (bm_t *d, const bm_t *a, const bm_t *b) { bm_t t; for (int j = 0; j < WIN; j++) for (int i = 0; i < WIN; i++) t.b[j][i] = a->b[j][i] & !b->b[j][i]; *d = t; }
static void bm_rect (bm_t *d, const rect_t *r)
{ memset (d, 0, sizeof *d); for (int j = r->y1; j < r->y2; j++) for (int i = r->x1; i < r->x2; i++) d->b[j][i] = 1; }
static int bm_count (const bm_t *a) { int n = 0; for (int j = 0; j < WIN; j++) for (int i = 0; i < WIN; i++) n += a->b[j][i]; return n; }

/* canonical y-x banded list of a bit matrix: maximal runs per row, consecutive rows with
 * identical runs merged into one band.  Written from the definition in the statement. */
static int canonical_generic (const uint8_t *bits, int pitch, int w, int h, rect_t *out, rect_t *ext)
{
    int n = 0, band_start = -1, band_first = 0;
    ext->x1 = ext->y1 = 1 << 30; ext->x2 = ext->y2 = -(1 << 30);
    for (int y = 0; y <= h; y++) {
        int same = 0;
        if (y < h && y > 0 && band_start >= 0) same = !memcmp (bits + (size_t)y * pitch, bits + (size_t)(y - 1) * pitch, w);
        if (y < h && same) continue;
        /* close the running band at y */
        if (band_start >= 0) { for (int k = band_first; k < n; k++) out[k].y2 = y; }
        band_start = -1;
        if (y == h) break;
        /* open a band if the row is not blank */
        const uint8_t *row = bits + (size_t)y * pitch;
        band_first = n;
        for (int x = 0; x < w;) {
            if (!row[x]) { x++; continue; }
            int x0 = x; while (x < w && row[x]) x++;
            out[n].x1 = x0; out[n].x2 = x; out[n].y1 = y; out[n].y2 = y + 1; n++;
            if (x0 < ext->x1) ext->x1 = x0;
            if (x > ext->x2) ext->x2 = x;
        }
        if (n > band_first) { band_start = y; if (y < ext->y1) ext->y1 = y; }
    }
    for (int k = 0; k < n; k++) if (out[k].y2 > ext->y2) ext->y2 = out[k].y2;
    return n;
}
static int bm_canonical (const bm_t *m, int w, int h, rect_t *out, rect_t *ext) { return canonical_generic (&m->b[0][0], WIN, w, h, out, ext); }
static int bm2_canonical (const bm2_t *m, int w, int h, rect_t *out, rect_t *ext) { return canonical_generic (&m->b[0][0], 200, w, h, out, ext); }

/* internal conversion helpers (hidden symbols of the static archive) */
pixman_bool_t pixman_region32_copy_from_region16 (pixman_region32_t *dst, pixman_region16_t *src);
pixman_bool_t pixman_region16_copy_from_region32 (pixman_region16_t *dst, pixman_region32_t *src);

#define SUF 16
#define RP(n) pixman_region_##n
#define REG_T pixman_region16_t
#define BOX_T pixman_box16_t
#define CMIN ((int64_t)INT16_MIN)
#define CMAX ((int64_t)INT16_MAX)
#include "mon_region_impl.h"
#undef SUF
#undef RP
#undef REG_T
#undef BOX_T
#undef CMIN
#undef CMAX

#define SUF 32
#define RP(n) pixman_region32_##n
#define REG_T pixman_region32_t
#define BOX_T pixman_box32_t
#define CMIN ((int64_t)INT32_MIN)
#define CMAX ((int64_t)INT32_MAX)
#include "mon_region_impl.h"
#undef SUF
#undef RP
#undef REG_T
#undef BOX_T
#undef CMIN
#undef CMAX

static r16_ent p16[NPOOL];
static r32_ent p32[NPOOL];

static void conversions (vf_rng *rng)
{
    int d = (int)(vf_next (rng) % NPOOL), a = (int)(vf_next (rng) % NPOOL);
    int kind = (int)(vf_next (rng) % 3);
    pixman_bool_t ok = TRUE;
    const char *name;
    if (kind == 0) {
        name = "convert16to32";
        vf_inflight ("%s d=%d a=%d", name, d, a);
        ok = pixman_region32_copy_from_region16 (&p32[d].reg, &p16[a].reg);
        p32[d].m = p16[a].m;
        if (!ok && FOCUS ("C05")) vf_violation ("C05:reports-failure:convert16to32", "conversion returned FALSE");
        if (r32_verify (&p32[d].reg, &p32[d].m, name)) r32_resync (&p32[d].reg, &p32[d].m);
    } else if (kind == 1) {
        name = "convert32to16";
        vf_inflight ("%s d=%d a=%d", name, d, a);
        ok = pixman_region16_copy_from_region32 (&p16[d].reg, &p32[a].reg);
        p16[d].m = p32[a].m;
        if (!ok && FOCUS ("C05")) vf_violation ("C05:reports-failure:convert32to16", "conversion returned FALSE");
        if (r16_verify (&p16[d].reg, &p16[d].m, name)) r16_resync (&p16[d].reg, &p16[d].m);
    } else {
        /* public route: 16 -> image clip (32) -> compute_composite_region (16) */
        if (win_x < 0 || win_y < 0 || win_x > 30000 || win_y > 30000) return;
        name = "convert-public-roundtrip";
        int W = (int)win_x + WIN, H = (int)win_y + WIN;
        static uint32_t dummy[1];
        pixman_image_t *dst = pixman_image_create_bits (PIXMAN_a1, W, H, NULL, 0);
        pixman_color_t c = { 0, 0, 0, 0xffff };
        pixman_image_t *src = pixman_image_create_solid_fill (&c);
        (void)dummy;
        if (!dst || !src) { if (dst) pixman_image_unref (dst); if (src) pixman_image_unref (src); return; }
        vf_inflight ("%s d=%d a=%d", name, d, a);
        ok = pixman_image_set_clip_region (dst, &p16[a].reg);
        pixman_region16_t out; pixman_region_init (&out);
        pixman_bool_t nonempty = pixman_compute_composite_region (&out, src, NULL, dst, 0, 0, 0, 0, 0, 0, (uint16_t)W, (uint16_t)H);
        bm_t m = p16[a].m;
        if (FOCUS ("C05")) {
            if (!ok) vf_violation ("C05:reports-failure:set_clip_region", "set_clip_region returned FALSE");
            if ((nonempty != 0) != (bm_count (&m) != 0) && bm_count (&m) != 0)
                vf_violation ("C05:membership:convert-public-roundtrip", "compute_composite_region says empty for a non-empty clip");
        }
        if (nonempty) {
            pixman_region_copy (&p16[d].reg, &out);
            p16[d].m = m;
            if (r16_verify (&p16[d].reg, &p16[d].m, name)) r16_resync (&p16[d].reg, &p16[d].m);
        }
        pixman_region_fini (&out);
        pixman_image_unref (dst); pixman_image_unref (src);
    }
    vf_count ("ops", 1);
    vf_label ("ops_seen", "%s", name);
}

/* C06 history part: one point set reached along different operation orders */
static void history_case (vf_rng *rng)
{
    rect_t rs[24]; int n = (int)vf_range (rng, 2, 20);
    for (int i = 0; i < n; i++) r32_gen_rect (rng, &rs[i], 0);
    pixman_region32_t A, B, C, D, T;
    pixman_region32_init (&A); pixman_region32_init (&B); pixman_region32_init (&D);
    pixman_box32_t bx[25];
    for (int i = 0; i < n; i++) r32_box_from (&bx[i], &rs[i]);
    vf_inflight ("history n=%d", n);
    for (int i = 0; i < n; i++) pixman_region32_union_rect (&A, &A, bx[i].x1, bx[i].y1, bx[i].x2 - bx[i].x1, bx[i].y2 - bx[i].y1);
    int perm[24]; for (int i = 0; i < n; i++) perm[i] = i;
    for (int i = n - 1; i > 0; i--) { int j = (int)(vf_next (rng) % (i + 1)); int t = perm[i]; perm[i] = perm[j]; perm[j] = t; }
    for (int i = 0; i < n; i++) { pixman_box32_t *b = &bx[perm[i]]; pixman_region32_init_rect (&T, b->x1, b->y1, b->x2 - b->x1, b->y2 - b->y1); pixman_region32_union (&B, &T, &B); pixman_region32_fini (&T); }
    pixman_region32_init_rects (&C, bx, n);
    /* D: union everything plus an extra rectangle, then take the extra part away again and add back what it covered */
    rect_t extra; r32_gen_rect (rng, &extra, 0); pixman_box32_t eb; r32_box_from (&eb, &extra);
    pixman_region32_t E; pixman_region32_init_with_extents (&E, &eb);
    pixman_region32_union (&D, &C, &E);
    pixman_region32_subtract (&D, &D, &E);
    pixman_region32_t K; pixman_region32_init (&K); pixman_region32_intersect (&K, &A, &E);
    pixman_region32_union (&D, &D, &K);
    pixman_region32_t *all[4] = { &A, &B, &C, &D };
    static const char *how[4] = { "sequential union_rect", "shuffled union", "init_rects", "union+subtract+union" };
    vf_count ("evaluations", 6);
    vf_count ("history_cases", 1);
    for (int i = 1; i < 4; i++) {
        int na, nb; pixman_box32_t *ra = pixman_region32_rectangles (all[0], &na), *rb = pixman_region32_rectangles (all[i], &nb);
        int same = na == nb && !memcmp (ra, rb, na * sizeof *ra);
        if (!same || !pixman_region32_equal (all[0], all[i])) {
            char key[100]; snprintf (key, sizeof key, "C06:history-dependent-list:%d", i);
            vf_violation (key, "the same %d rectangles combined by '%s' and by '%s' give different lists (%d vs %d rects) or equal()=FALSE", n, how[0], how[i], na, nb);
        }
    }
    if (pixman_region32_n_rects (&A) > 1) vf_cell ("cells", vf_mix (77, vf_hash (pixman_region32_rectangles (&A, NULL), pixman_region32_n_rects (&A) * sizeof (pixman_box32_t), 1)));
    pixman_region32_fini (&A); pixman_region32_fini (&B); pixman_region32_fini (&C); pixman_region32_fini (&D); pixman_region32_fini (&E); pixman_region32_fini (&K);
}

/* ---------------- exhaustive small scope: all regions on a 4x3 grid ---------------- */
#define GWMAX 4
#define GHMAX 3
#define NGMAX (1 << (GWMAX * GHMAX))
static int GW = 4, GH = 3, NG = NGMAX;        /* 4x3 in the thorough tier, 3x3 (config 'exhaustive3x3') in the quick tier */
static pixman_region32_t g32[NGMAX];
static pixman_region16_t g16[NGMAX];
static struct { int n; rect_t r[GWMAX * GHMAX]; } gcanon[NGMAX];
static void grid_init (void)
{
    for (int m = 0; m < NG; m++) {
        uint8_t bits[GHMAX][GWMAX]; rect_t ext; memset (bits, 0, sizeof bits);
        for (int j = 0; j < GH; j++) for (int i = 0; i < GW; i++) bits[j][i] = (m >> (j * GW + i)) & 1;
        gcanon[m].n = canonical_generic (&bits[0][0], GWMAX, GW, GH, gcanon[m].r, &ext);
        pixman_box32_t b32[12]; pixman_box16_t b16[12];
        for (int k = 0; k < gcanon[m].n; k++) {
            rect_t *r = &gcanon[m].r[k];
            b32[k].x1 = win_x + r->x1; b32[k].x2 = win_x + r->x2; b32[k].y1 = win_y + r->y1; b32[k].y2 = win_y + r->y2;
            b16[k].x1 = win_x + r->x1; b16[k].x2 = win_x + r->x2; b16[k].y1 = win_y + r->y1; b16[k].y2 = win_y + r->y2;
        }
        pixman_region32_init_rects (&g32[m], b32, gcanon[m].n);
        pixman_region_init_rects (&g16[m], b16, gcanon[m].n);
    }
}
#define G32(n) pixman_region32_##n
#define G16(n) pixman_region_##n
#define GRID_CHECK(W, RP_, BOX_T_, reg, mask, opname, alias)                                             \
    do {                                                                                                 \
        int n_ = 0; BOX_T_ *r_ = RP_ (rectangles) (reg, &n_);                                             \
        if (FOCUS ("C06")) {                                                                             \
            int same_ = n_ == gcanon[mask].n;                                                            \
            for (int k_ = 0; same_ && k_ < n_; k_++) {                                                   \
                rect_t *c_ = &gcanon[mask].r[k_];                                                        \
                same_ = r_[k_].x1 == win_x + c_->x1 && r_[k_].x2 == win_x + c_->x2 && r_[k_].y1 == win_y + c_->y1 && r_[k_].y2 == win_y + c_->y2; \
            }                                                                                            \
            if (same_ && n_ == 1 && (reg)->data) same_ = 0;                                              \
            if (same_ && !RP_ (selfcheck) (reg)) same_ = 0;                                               \
            nev++;                                                                                       \
            if (!same_) { char key_[100]; snprintf (key_, sizeof key_, "C06:noncanonical:%s:%d:exhaustive", opname, W); \
                vf_violation (key_, "grid: %s(%s) A=%03x B=%03x result mask %03x: list is not canonical (%d rects, want %d)", opname, alias, a, b, mask, n_, gcanon[mask].n); } \
        }                                                                                                \
        if (FOCUS ("C05")) {                                                                             \
            for (int j_ = 0; j_ < GH; j_++) for (int i_ = 0; i_ < GW; i_++) {                            \
                int got_ = RP_ (contains_point) (reg, (int)win_x + i_, (int)win_y + j_, NULL) != 0; nev++; \
                if (got_ != ((mask >> (j_ * GW + i_)) & 1)) {                                            \
                    char key_[100]; snprintf (key_, sizeof key_, "C05:membership:%s:%d:exhaustive", opname, W); \
                    vf_violation (key_, "grid: %s(%s) A=%03x B=%03x: cell (%d,%d) membership wrong", opname, alias, a, b, i_, j_); \
                    j_ = GH; break; }                                                                    \
            }                                                                                            \
        }                                                                                                \
        vf_cell ("cells", vf_mix (vf_mix (mask, opname[0] + 256 * alias[2]), W));                        \
    } while (0)

static void exhaustive_case (long idx)
{
    int a = (int)idx; long nev = 0;
    if (a >= NG) return;
    vf_inflight ("exhaustive A=%03x", a);
    for (int b = 0; b < NG; b++) {
        int masks[3] = { a | b, a & b, a & ~b };
        static const char *on[3] = { "union", "intersect", "subtract" };
        for (int op = 0; op < 3; op++) {
            for (int al = 0; al < 3; al++) {
                static const char *aln[3] = { "d distinct", "d=a", "d=b" };
                {
                    pixman_region32_t D; pixman_bool_t ok;
                    pixman_region32_t *A = &g32[a], *B = &g32[b];
                    pixman_region32_init (&D);
                    if (al == 1) { pixman_region32_copy (&D, A); A = &D; }
                    if (al == 2) { pixman_region32_copy (&D, B); B = &D; }
                    ok = op == 0 ? pixman_region32_union (&D, A, B) : op == 1 ? pixman_region32_intersect (&D, A, B) : pixman_region32_subtract (&D, A, B);
                    if (!ok && FOCUS ("C05")) vf_violation ("C05:reports-failure:exhaustive", "%s returned FALSE", on[op]);
                    GRID_CHECK (32, G32, pixman_box32_t, &D, masks[op], on[op], aln[al]);
                    pixman_region32_fini (&D);
                }
                if ((a ^ b) & 1) {       /* the 16-bit instantiation on half of the pairs */
                    pixman_region16_t D; pixman_bool_t ok;
                    pixman_region16_t *A = &g16[a], *B = &g16[b];
                    pixman_region_init (&D);
                    if (al == 1) { pixman_region_copy (&D, A); A = &D; }
                    if (al == 2) { pixman_region_copy (&D, B); B = &D; }
                    ok = op == 0 ? pixman_region_union (&D, A, B) : op == 1 ? pixman_region_intersect (&D, A, B) : pixman_region_subtract (&D, A, B);
                    if (!ok && FOCUS ("C05")) vf_violation ("C05:reports-failure:exhaustive", "%s returned FALSE", on[op]);
                    GRID_CHECK (16, G16, pixman_box16_t, &D, masks[op], on[op], aln[al]);
                    pixman_region_fini (&D);
                }
            }
        }
    }
    /* inverse within every box of the grid */
    for (int x1 = 0; x1 < GW; x1++) for (int x2 = x1 + 1; x2 <= GW; x2++) for (int y1 = 0; y1 < GH; y1++) for (int y2 = y1 + 1; y2 <= GH; y2++) {
        int bm = 0, b = 0; for (int j = y1; j < y2; j++) for (int i = x1; i < x2; i++) bm |= 1 << (j * GW + i);
        int mask = bm & ~a; b = bm;
        pixman_box32_t bx = { (int)win_x + x1, (int)win_y + y1, (int)win_x + x2, (int)win_y + y2 };
        for (int al = 0; al < 2; al++) {
            static const char *aln[2] = { "d distinct", "d=a" };
            pixman_region32_t D; pixman_region32_init (&D); pixman_region32_t *A = &g32[a];
            if (al) { pixman_region32_copy (&D, A); A = &D; }
            if (!pixman_region32_inverse (&D, A, &bx) && FOCUS ("C05")) vf_violation ("C05:reports-failure:exhaustive", "inverse returned FALSE");
            GRID_CHECK (32, G32, pixman_box32_t, &D, mask, "inverse", aln[al]);
            pixman_region32_fini (&D);
        }
    }
    vf_count ("evaluations", nev);
    vf_count ("exhaustive_A_regions", 1);
}

/* ---------------- random programs ---------------- */
static void pick_window (vf_rng *rng, int mode)
{
    /* mode 0: 16-bit pool only, 1: 32-bit only, 2: both (window inside the 16-bit range) */
    int k = (int)(vf_next (rng) % 8);
    if (mode == 1 && vf_chance (rng, 1, 2)) {
        switch (k) {
        case 0: win_x = (int64_t)INT32_MAX - WIN; win_y = (int64_t)INT32_MAX - WIN; break;
        case 1: win_x = INT32_MIN; win_y = INT32_MIN; break;
        case 2: win_x = (int64_t)INT32_MAX - WIN; win_y = INT32_MIN; break;
        case 3: win_x = 1000000; win_y = -1000000; break;
        case 4: win_x = 40000; win_y = 70000; break;
        case 5: win_x = INT32_MIN; win_y = 5; break;
        default: win_x = vf_range (rng, INT32_MIN, (int64_t)INT32_MAX - WIN); win_y = vf_range (rng, INT32_MIN, (int64_t)INT32_MAX - WIN); break;
        }
        return;
    }
    switch (k) {
    case 0: win_x = 0; win_y = 0; break;
    case 1: win_x = -WIN / 2; win_y = -WIN / 2; break;
    case 2: win_x = INT16_MAX - WIN; win_y = INT16_MAX - WIN; break;
    case 3: win_x = INT16_MIN; win_y = INT16_MIN; break;
    case 4: win_x = INT16_MAX - WIN; win_y = INT16_MIN; break;
    case 5: win_x = 100; win_y = 20000; break;
    default: win_x = vf_range (rng, INT16_MIN, INT16_MAX - WIN); win_y = vf_range (rng, INT16_MIN, INT16_MAX - WIN); break;
    }
}

static int exhaustive_mode;

static void region_case (long idx, vf_rng *rng)
{
    if (exhaustive_mode) { exhaustive_case (idx); return; }
    int kind = (int)(vf_next (rng) % 16);
    if (kind == 0 && (FOCUS ("C07") || FOCUS ("C06"))) {
        for (int i = 0; i < 6; i++) { if (vf_chance (rng, 1, 2)) r32_from_image (rng); else r16_from_image (rng); }
        return;
    }
    if (kind == 1 && FOCUS ("C06")) { pick_window (rng, 1); for (int i = 0; i < 8; i++) history_case (rng); return; }
    int mode = (int)(vf_next (rng) % 3);
    pick_window (rng, mode);
    vf_case_desc ("program mode=%s window=(%lld,%lld)", mode == 0 ? "16" : mode == 1 ? "32" : "16+32", (long long)win_x, (long long)win_y);
    vf_label ("window_class", "%s", mode == 1 && (win_x > INT16_MAX || win_x < INT16_MIN || win_y > INT16_MAX || win_y < INT16_MIN) ? "beyond-16-bit" :
              (win_x == 0 && win_y == 0) ? "origin" : (win_x == INT16_MAX - WIN || win_x == INT16_MIN || win_y == INT16_MIN) ? "flush-16-bit-limit" : "other");
    for (int i = 0; i < NPOOL; i++) {
        pixman_region_init (&p16[i].reg); memset (&p16[i].m, 0, sizeof (bm_t));
        pixman_region32_init (&p32[i].reg); memset (&p32[i].m, 0, sizeof (bm_t));
    }
    int nops = 40;
    for (int s = 0; s < nops; s++) {
        int w = mode == 2 ? (int)(vf_next (rng) % 2) : mode;
        if (mode == 2 && vf_chance (rng, 1, 8)) { conversions (rng); continue; }
        if (w == 0) r16_step (p16, rng); else r32_step (p32, rng);
        if (FOCUS ("C06") && (s % 8) == 7) { if (mode != 1) r16_equal_pairs (p16); if (mode != 0) r32_equal_pairs (p32); }
        if (FOCUS ("C07") && (s % 5) == 4) {
            int i = (int)(vf_next (rng) % NPOOL);
            if (w == 0) r16_queries (&p16[i].reg, &p16[i].m, rng, 40); else r32_queries (&p32[i].reg, &p32[i].m, rng, 40);
        }
        if ((FOCUS ("C07") || FOCUS ("C06")) && (s % 10) == 9) {
            int i = (int)(vf_next (rng) % NPOOL);
            if (w == 0) r16_translate_out (&p16[i], rng); else r32_translate_out (&p32[i], rng);
        }
    }
    if (idx < 3) {
        int n; pixman_box32_t *r = pixman_region32_rectangles (&p32[0].reg, &n);
        int n16; pixman_region_rectangles (&p16[0].reg, &n16);
        vf_sample ("program %ld: mode=%s window=(%lld,%lld), 40 ops, pool[0] ends with %d (32-bit) / %d (16-bit) rectangles", idx,
                   mode == 0 ? "16" : mode == 1 ? "32" : "16+32", (long long)win_x, (long long)win_y, n, n16);
        (void)r;
    }
    for (int i = 0; i < NPOOL; i++) { pixman_region_fini (&p16[i].reg); pixman_region32_fini (&p32[i].reg); }
    vf_count ("programs", 1);
}

static void init (void)
{
    exhaustive_mode = !strncmp (vf.config, "exhaustive", 10);
    if (exhaustive_mode) { if (!strcmp (vf.config, "exhaustive3x3")) { GW = 3; GH = 3; NG = 1 << 9; } win_x = -2; win_y = 7; grid_init (); }
}

int main (int argc, char **argv) { return vf_main (argc, argv, "C05", init, region_case, NULL); }
