/* Monitor for C03: (a) pixman_compute_composite_region against the model intersection,
 * (b) bit-level write footprint of drawing calls: nothing outside the model region may change
 * (destination, its row padding, its alpha map), (c) marking requests must write every pixel inside. */
#include "vf_recipes.h"
#include "vf.h"
#include "vf_req.h"
#include "ref_pixel.h"

#define GW 96
#define GH 40
typedef struct { uint8_t in[GH][GW]; int w, h; } grid_t;

typedef struct { int n; pixman_box32_t b[RQ_MAX_CLIP]; int enabled; } clipset_t;

static void grid_full (grid_t *g, int w, int h) { g->w = w; g->h = h; for (int y = 0; y < h; y++) for (int x = 0; x < w; x++) g->in[y][x] = 1; }
static void grid_and_rect (grid_t *g, int64_t x1, int64_t y1, int64_t x2, int64_t y2)
{ for (int y = 0; y < g->h; y++) for (int x = 0; x < g->w; x++) if (!(x >= x1 && x < x2 && y >= y1 && y < y2)) g->in[y][x] = 0; }
/* intersect with a union of boxes translated by (tx,ty) */
static void grid_and_boxes (grid_t *g, const pixman_box32_t *b, int n, int64_t tx, int64_t ty)
{
    for (int y = 0; y < g->h; y++) for (int x = 0; x < g->w; x++) if (g->in[y][x]) {
        int hit = 0;
        for (int i = 0; i < n && !hit; i++) if (x >= b[i].x1 + tx && x < b[i].x2 + tx && y >= b[i].y1 + ty && y < b[i].y2 + ty) hit = 1;
        g->in[y][x] = (uint8_t)hit;
    }
}
static long grid_count (const grid_t *g) { long n = 0; for (int y = 0; y < g->h; y++) for (int x = 0; x < g->w; x++) n += g->in[y][x]; return n; }

/* optional clips on the alpha maps (the request generator does not produce them) */
typedef struct { clipset_t dst_am, src_am, mask_am; } amclips_t;

static void gen_boxes (vf_rng *r, clipset_t *c, int w, int h)
{
    c->n = (int)vf_range (r, 1, 4);
    for (int i = 0; i < c->n; i++) { int x1 = (int)vf_range (r, -1, w), y1 = (int)vf_range (r, -1, h); c->b[i].x1 = x1; c->b[i].y1 = y1; c->b[i].x2 = x1 + (int)vf_range (r, 1, w / 2 + 2); c->b[i].y2 = y1 + (int)vf_range (r, 1, h / 2 + 2); }
}
static void apply_amclip (pixman_image_t *amap, clipset_t *c, vf_rng *r, int is_dest)
{
    pixman_region32_t reg; pixman_region32_init_rects (&reg, c->b, c->n);
    pixman_image_set_clip_region32 (amap, &reg); pixman_region32_fini (&reg);
    if (is_dest) { c->enabled = 1; return; }
    int cs = vf_chance (r, 3, 4), cc = vf_chance (r, 3, 4);
    pixman_image_set_source_clipping (amap, cs); pixman_image_set_has_client_clip (amap, cc);
    c->enabled = cs && cc;
}

/* the model region of a composite request, over the destination's pixel grid */
static void model_region (const rq_request *q, const amclips_t *ac, grid_t *g)
{
    const rq_image *d = &q->dst;
    grid_full (g, d->w, d->h);
    grid_and_rect (g, q->dx, q->dy, (int64_t)q->dx + q->w, (int64_t)q->dy + q->h);
    if (d->n_clip) grid_and_boxes (g, d->clip, d->n_clip, 0, 0);
    if (d->alpha_map) {
        grid_and_rect (g, d->am_x, d->am_y, (int64_t)d->am_x + d->am_w, (int64_t)d->am_y + d->am_h);
        if (ac->dst_am.n) grid_and_boxes (g, ac->dst_am.b, ac->dst_am.n, d->am_x, d->am_y);
    }
    const rq_image *s = &q->src;
    if (s->n_clip && s->clip_sources && !s->has_client_clip_only) grid_and_boxes (g, s->clip, s->n_clip, (int64_t)q->dx - q->sx, (int64_t)q->dy - q->sy);
    if (s->alpha_map && s->kind == RQ_BITS && ac->src_am.n && ac->src_am.enabled) grid_and_boxes (g, ac->src_am.b, ac->src_am.n, (int64_t)q->dx - ((int64_t)q->sx - s->am_x), (int64_t)q->dy - ((int64_t)q->sy - s->am_y));
    if (q->has_mask) {
        const rq_image *m = &q->mask;
        if (m->n_clip && m->clip_sources && !m->has_client_clip_only) grid_and_boxes (g, m->clip, m->n_clip, (int64_t)q->dx - q->mx, (int64_t)q->dy - q->my);
        if (m->alpha_map && m->kind == RQ_BITS && ac->mask_am.n && ac->mask_am.enabled) grid_and_boxes (g, ac->mask_am.b, ac->mask_am.n, (int64_t)q->dx - ((int64_t)q->mx - m->am_x), (int64_t)q->dy - ((int64_t)q->my - m->am_y));
    }
}

/* compare destination (+alpha map) storage with its snapshot: any changed bit outside the region is a violation.
 * returns number of pixels changed inside (for marking). what: entry point name */
static void footprint (const rq_request *q, const grid_t *g, const char *what, int check_alpha_map_too)
{
    const vf_buf *b = &q->dst.buf; char key[128];
    long changed_in = 0, px = 0;
    for (int y = 0; y < b->h; y++) {
        const uint8_t *row = vf_buf_row (b, y), *old = vf_buf_snaprow (b, y);
        if (!memcmp (row, old, b->rowbytes)) { px += b->w; continue; }
        for (int x = 0; x < b->w; x++) {
            px++;
            int diff;
            if (b->bpp <= 32) diff = vf_get_px (row, b->bpp, x) != vf_get_px (old, b->bpp, x);
            else diff = memcmp (row + (size_t)x * b->bpp / 8, old + (size_t)x * b->bpp / 8, b->bpp / 8) != 0;
            if (!diff) continue;
            if (g->in[y][x]) { changed_in++; continue; }
            snprintf (key, sizeof key, "C03:write-outside-region:%s", what);
            vf_violation (key, "destination pixel (%d,%d) of a %s %dx%d image changed although it is outside the composite region (%ld pixels inside)", x, y, rp_name (b->fmt), b->w, b->h, grid_count (g));
            return;
        }
        /* row padding / bits beyond the last pixel */
        {
            size_t used_bits = (size_t)b->w * b->bpp, full = used_bits / 8; int bad = 0; size_t where = 0;
            if (used_bits % 8) { uint8_t m = (uint8_t)(0xff << (used_bits % 8)); if ((row[full] ^ old[full]) & m) { bad = 1; where = full; } full++; }
            for (size_t i = full; i < (size_t)b->rowbytes && !bad; i++) if (row[i] != old[i]) { bad = 1; where = i; }
            if (bad) {
                snprintf (key, sizeof key, "C03:write-to-row-padding:%s", what);
                vf_violation (key, "row %d: bits after the last pixel changed (byte %zu of the row, %s %dx%d)", y, where, rp_name (b->fmt), b->w, b->h);
                return;
            }
        }
    }
    /* inter-row padding of padded strides */
    int astride = b->stride < 0 ? -b->stride : b->stride;
    if (astride > b->rowbytes) for (int y = 0; y + 1 < b->h; y++) {
        const uint8_t *lowrow = b->stride > 0 ? vf_buf_row (b, y) : vf_buf_row (b, y + 1);
        size_t off = (size_t)(lowrow - b->base) + b->rowbytes;
        if (memcmp (b->base + off, b->snap + off, astride - b->rowbytes)) { snprintf (key, sizeof key, "C03:write-to-row-padding:%s", what); vf_violation (key, "stride padding after row %d changed", y); return; }
    }
    vf_count ("evaluations", px);
    if (check_alpha_map_too && q->dst.amap) {
        const vf_buf *a = &q->dst.abuf;
        for (int y = 0; y < a->h; y++) for (int x = 0; x < a->w; x++) {
            if (vf_get_px (vf_buf_row (a, y), 8, x) == vf_get_px (vf_buf_snaprow (a, y), 8, x)) continue;
            int X = x + q->dst.am_x, Y = y + q->dst.am_y;
            if (X >= 0 && X < g->w && Y >= 0 && Y < g->h && g->in[Y][X]) continue;
            snprintf (key, sizeof key, "C03:write-outside-region:%s:alpha-map", what);
            vf_violation (key, "alpha-map pixel (%d,%d) changed although destination pixel (%d,%d) is outside the composite region", x, y, X, Y);
            return;
        }
    }
    if (changed_in) vf_count ("cases_with_pixels_written", 1);
}

static void snapshot_dest (rq_request *q) { vf_buf_snapshot (&q->dst.buf); if (q->dst.amap) vf_buf_snapshot (&q->dst.abuf); }

/* ---------------- composite32 / composite ---------------- */
static void composite_case (vf_rng *r)
{
    rq_request q; amclips_t ac; memset (&ac, 0, sizeof ac);
    rq_generate (r, &q, RQP_CLIPPY | RQP_NO_INDEXED);
    /* geometry variety beyond the generator: negative origins, wholly outside, zero / huge sizes */
    switch (vf_next (r) % 6) {
    case 0: q.dx = (int)vf_range (r, -40, q.dst.w + 10); q.dy = (int)vf_range (r, -10, q.dst.h + 5); q.w = (int)vf_range (r, 0, 100); q.h = (int)vf_range (r, 0, 40); break;
    case 1: q.w = (int)vf_range (r, 0, 32767); q.h = (int)vf_range (r, 0, 32767); q.dx = (int)vf_range (r, -32768, 200); q.dy = (int)vf_range (r, -32768, 50); break;
    case 2: q.w = vf_chance (r, 1, 2) ? 0 : q.w; q.h = vf_chance (r, 1, 2) ? 0 : q.h; break;
    default: break;
    }
    int marking = vf_chance (r, 1, 3);
    if (marking) {
        /* OP_SRC of a solid colour, no mask: every pixel of the region must end up holding the colour */
        memset (&q.src, 0, sizeof q.src); q.src.kind = RQ_SOLID; q.has_mask = 0; q.op = PIXMAN_OP_SRC;
        q.src.solid.alpha = 0xffff; q.src.solid.red = (uint16_t)((vf_next (r) & 0xff) * 0x101); q.src.solid.green = (uint16_t)((vf_next (r) & 0xff) * 0x101); q.src.solid.blue = (uint16_t)((vf_next (r) & 0xff) * 0x101);
        while (rp_is_wide (q.dst.fmt) || !rp_is_direct (q.dst.fmt)) q.dst.fmt = rq_dst_formats[vf_next (r) % rq_n_dst_formats];
        q.dst.alpha_map = 0;
    }
    /* a solid colour through an a8 mask made of runs of 0xff onto a 24-bpp destination: the routines for this pairing store several pixels at a
     * time where the mask is fully opaque, right up to the edge of the region */
    int runs24 = !marking && vf_chance (r, 1, 12);
    if (runs24) { q.op = vf_chance (r, 3, 4) ? PIXMAN_OP_OVER : PIXMAN_OP_SRC; memset (&q.src, 0, sizeof q.src); q.src.kind = RQ_SOLID; q.src.solid.alpha = vf_chance (r, 3, 4) ? 0xffff : (uint16_t)vf_next (r); q.src.solid.red = (uint16_t)(vf_next (r) % (q.src.solid.alpha + 1u)); q.src.solid.green = q.src.solid.red / 3; q.src.solid.blue = (uint16_t)(vf_next (r) % (q.src.solid.alpha + 1u));
        q.dst.fmt = vf_chance (r, 1, 2) ? PIXMAN_r8g8b8 : PIXMAN_b8g8r8; q.dst.alpha_map = 0; q.dst.accessors = 0;
        q.has_mask = 1; memset (&q.mask, 0, sizeof q.mask); q.mask.kind = RQ_BITS; q.mask.fmt = PIXMAN_a8; q.mask.w = q.dst.w + 8; q.mask.h = q.dst.h + 2; q.mask.filter = PIXMAN_FILTER_NEAREST; pixman_transform_init_identity (&q.mask.tr); q.mask.pixseed = vf_next (r);
        q.mx = (int)vf_range (r, 0, 4); q.my = (int)vf_range (r, 0, 1); vf_count ("solid_through_a8_runs_onto_24bpp", 1); }
    if (q.dst.w > GW || q.dst.h > GH) return;
    if (!rq_build (&q, r)) return;
    if (runs24) { for (int y = 0; y < q.mask.h; y++) { uint8_t *row = vf_buf_row (&q.mask.buf, y); int x = 0; while (x < q.mask.w) { int len = (int)vf_range (r, 2, 14), full = vf_chance (r, 2, 3); for (int i = 0; i < len && x < q.mask.w; i++, x++) row[x] = full ? 0xff : (uint8_t)vf_next (r); } } }
    /* the destination's alpha map attached a second time at another origin (same map object): the bounds that count are the new ones */
    if (q.dst.amap && q.dst.alpha_map && vf_chance (r, 1, 2)) { q.dst.am_x = (int)vf_range (r, -4, 5); q.dst.am_y = (int)vf_range (r, -3, 4);
        pixman_image_set_alpha_map (q.dst.img, q.dst.amap, (int16_t)q.dst.am_x, (int16_t)q.dst.am_y); vf_count ("destination_alpha_map_moved", 1); }
    /* clips on alpha maps */
    /* no clip is put on the destination's alpha map: the statement names only its bounds (see DESIGN.md, C03) */
    if (q.src.amap && vf_chance (r, 2, 3)) { gen_boxes (r, &ac.src_am, q.src.am_w, q.src.am_h); apply_amclip (q.src.amap, &ac.src_am, r, 0); }
    if (q.has_mask && q.mask.amap && vf_chance (r, 2, 3)) { gen_boxes (r, &ac.mask_am, q.mask.am_w, q.mask.am_h); apply_amclip (q.mask.amap, &ac.mask_am, r, 0); }
    /* a mask alpha-map clip that is enabled for sources while the mask itself has no clip region: the statement does not say
     * whether it takes part (the library applies it only when the mask has a clip of its own) - not judged */
    if (q.has_mask && ac.mask_am.n && ac.mask_am.enabled && q.mask.n_clip == 0) { vf_count ("ambiguous_alphamap_clip_skipped", 1); rq_free (&q); return; }
    static grid_t g; model_region (&q, &ac, &g);
    long npix = grid_count (&g);
    static char desc[1800]; rq_describe (&q, desc, sizeof desc);
    vf_case_desc ("%s%s%s%s%s", marking ? "[marking] " : "", desc, ac.dst_am.n ? " dst-alphamap-clip" : "", ac.src_am.n ? (ac.src_am.enabled ? " src-alphamap-clip(on)" : " src-alphamap-clip(off)") : "",
                  ac.mask_am.n ? (ac.mask_am.enabled ? " mask-alphamap-clip(on)" : " mask-alphamap-clip(off)") : "");
    vf_cell ("cells", vf_mix (vf_mix (10 + marking, PIXMAN_FORMAT_BPP (q.dst.fmt)), vf_mix ((q.dst.n_clip > 2) * 2 + (q.dst.n_clip > 0), (q.src.n_clip > 0) * 64 + (q.has_mask && q.mask.n_clip > 0) * 32 + (ac.src_am.n > 0) * 16 + (ac.mask_am.n > 0) * 8 + (ac.dst_am.n > 0) * 4 + (npix == 0) * 2 + (q.dx < 0 || q.dy < 0))));
    if (q.dst.n_clip >= 3) vf_count ("cases_with_3plus_clip_rects", 1);
    if (ac.mask_am.n && ac.mask_am.enabled && q.mask.n_clip) vf_count ("cases_mask_alphamap_clip_active", 1);
    if (ac.src_am.n && ac.src_am.enabled) vf_count ("cases_src_alphamap_clip_active", 1);
    /* (a) the region query (16-bit API: only when the arguments fit) */
    if (q.sx >= -32768 && q.sx <= 32767 && q.sy >= -32768 && q.sy <= 32767 && q.mx >= -32768 && q.mx <= 32767 && q.my >= -32768 && q.my <= 32767 &&
        q.dx >= -32768 && q.dx <= 32767 && q.dy >= -32768 && q.dy <= 32767 && q.w >= 0 && q.w <= 65535 && q.h >= 0 && q.h <= 65535) {
        pixman_region16_t reg; pixman_region_init (&reg);
        vf_inflight ("compute_composite_region: %s", desc);
        pixman_bool_t ok = pixman_compute_composite_region (&reg, q.src.img, q.has_mask ? q.mask.img : NULL, q.dst.img, (int16_t)q.sx, (int16_t)q.sy, (int16_t)q.mx, (int16_t)q.my, (int16_t)q.dx, (int16_t)q.dy, (uint16_t)q.w, (uint16_t)q.h);
        vf_count ("evaluations", 1); vf_count ("region_queries", 1);
        if ((ok != 0) != (npix > 0))
            vf_violation (ok ? "C03:region-true-but-empty" : "C03:region-false-but-nonempty", "compute_composite_region returned %s but the model intersection has %ld pixels", ok ? "TRUE" : "FALSE", npix);
        else if (ok) {
            int bad = 0, bx = 0, by = 0;
            for (int y = -1; y <= q.dst.h && !bad; y++) for (int x = -1; x <= q.dst.w; x++) {
                int want = (x >= 0 && x < q.dst.w && y >= 0 && y < q.dst.h) ? g.in[y][x] : 0;
                if ((pixman_region_contains_point (&reg, x, y, NULL) != 0) != want) { bad = 1; bx = x; by = y; break; }
            }
            if (bad) vf_violation ("C03:region-differs-from-intersection", "compute_composite_region and the model intersection differ at (%d,%d)", bx, by);
        }
        pixman_region_fini (&reg);
    }
    /* (b) the drawing */
    snapshot_dest (&q);
    int use16 = vf_chance (r, 1, 4) && q.sx >= -32768 && q.sx <= 32767 && q.sy >= -32768 && q.sy <= 32767 && q.mx >= -32768 && q.mx <= 32767 && q.my >= -32768 && q.my <= 32767 &&
                q.dx >= -32768 && q.dx <= 32767 && q.dy >= -32768 && q.dy <= 32767 && q.w <= 65535 && q.h <= 65535;
    vf_inflight ("%s: %s", use16 ? "composite" : "composite32", desc);
    if (use16) pixman_image_composite (q.op, q.src.img, q.has_mask ? q.mask.img : NULL, q.dst.img, (int16_t)q.sx, (int16_t)q.sy, (int16_t)q.mx, (int16_t)q.my, (int16_t)q.dx, (int16_t)q.dy, (uint16_t)q.w, (uint16_t)q.h);
    else rq_run (&q);
    vf_count (use16 ? "composite16_calls" : "composite32_calls", 1);
    vf_label ("entry_bpp", "%s/bpp%d", use16 ? "composite" : "composite32", q.dst.buf.bpp);
    footprint (&q, &g, use16 ? "composite" : "composite32", 1);
    /* (c) marking */
    if (marking && abs (q.sx) < 16384 && abs (q.sy) < 16384 && abs (q.dx) < 16384 && abs (q.dy) < 16384) {
        uint8_t c8[4] = { 0xff, (uint8_t)(q.src.solid.red >> 8), (uint8_t)(q.src.solid.green >> 8), (uint8_t)(q.src.solid.blue >> 8) };
        uint32_t want = rp_encode8 (q.dst.fmt, c8), dm = rp_defined_mask (q.dst.fmt);
        vf_count ("marking_cases", 1);
        for (int y = 0; y < q.dst.h; y++) for (int x = 0; x < q.dst.w; x++) if (g.in[y][x]) {
            uint32_t got = vf_get_px (vf_buf_row (&q.dst.buf, y), q.dst.buf.bpp, x);
            if ((got ^ want) & dm) { vf_violation ("C03:pixel-inside-region-not-written", "pixel (%d,%d) is inside the composite region but holds %x, the marking colour is %x (%s)", x, y, got & dm, want & dm, rp_name (q.dst.fmt)); y = q.dst.h; break; }
        }
    }
    rq_free (&q);
}

/* ---------------- table-directed composites: every fast-path / iterator entry with a request that ends inside the destination ---------------- */
static void directed_case (vf_rng *r)
{
    if (!n_recipes) return;
    const recipe_t *rc = &recipes[vf_next (r) % n_recipes];
    rq_request q; memset (&q, 0, sizeof q); amclips_t ac; memset (&ac, 0, sizeof ac);
    recipe_request (r, rc, &q);
    if (rp_is_indexed (q.dst.fmt) || rp_is_indexed (q.src.fmt) || (q.has_mask && rp_is_indexed (q.mask.fmt))) return;
    /* wide rows so that routines working in groups of 2..32 pixels have whole groups to handle inside the request and neighbours outside it */
    q.dst.w = (int)vf_range (r, 1, GW); q.dst.h = (int)vf_range (r, 1, 5);
    rq_gen_geometry (r, &q, 0);
    int bpp = PIXMAN_FORMAT_BPP (q.dst.fmt), per_word = bpp && bpp <= 32 ? 32 / bpp : 1;
    /* the request is a proper part of the row; half of the time it starts and/or ends on a 32-bit word boundary of the destination (and the source is read from one) */
    q.dx = (int)vf_range (r, 0, q.dst.w - 1); q.w = (int)vf_range (r, 1, q.dst.w - q.dx); q.dy = (int)vf_range (r, 0, q.dst.h - 1); q.h = (int)vf_range (r, 1, q.dst.h - q.dy);
    if (per_word > 1 && vf_chance (r, 1, 2)) {
        q.dx -= q.dx % per_word; if (vf_chance (r, 1, 2) && q.dst.w - q.dx > per_word) { q.w = (int)vf_range (r, per_word, q.dst.w - q.dx); if (vf_chance (r, 1, 2)) q.w -= q.w % per_word; if (q.w < 1) q.w = 1; }
        if (q.src.kind == RQ_BITS && q.src.tr_class == TR_NONE) { int sb = PIXMAN_FORMAT_BPP (q.src.fmt), spw = sb && sb <= 32 ? 32 / sb : 1; q.sx = (int)vf_range (r, 0, 2) * spw; }
        if (q.has_mask && q.mask.kind == RQ_BITS && q.mask.tr_class == TR_NONE) { int mb = PIXMAN_FORMAT_BPP (q.mask.fmt), mpw = mb && mb <= 32 ? 32 / mb : 1; q.mx = (int)vf_range (r, 0, 2) * mpw; }
    }
    /* untransformed bits operands cover what they are read at (so that table entries that need it are taken), with something to the right of it */
    if (q.src.kind == RQ_BITS && q.src.tr_class == TR_NONE && !(q.src.w == 1 && q.src.h == 1)) { if (q.sx < 0) q.sx = 0; if (q.sy < 0) q.sy = 0; q.src.w = q.sx + q.w + (int)vf_range (r, 0, 40); q.src.h = q.sy + q.h + (int)vf_range (r, 0, 2); }
    if (q.has_mask && q.mask.kind == RQ_BITS && q.mask.tr_class == TR_NONE && !(q.mask.w == 1 && q.mask.h == 1)) { if (q.mx < 0) q.mx = 0; if (q.my < 0) q.my = 0; q.mask.w = q.mx + q.w + (int)vf_range (r, 0, 40); q.mask.h = q.my + q.h + (int)vf_range (r, 0, 2); }
    if (q.pixbuf) { q.mx = q.sx; q.my = q.sy; q.mask.w = q.src.w; q.mask.h = q.src.h; }
    /* whole-image copies between images of the same size and stride (a frame blitted to its back buffer): every row in full, row padding must survive */
    int whole = 0;
    if (!q.pixbuf && q.src.kind == RQ_BITS && q.src.tr_class == TR_NONE && !(q.src.w == 1 && q.src.h == 1) && vf_chance (r, 1, 6)) {
        whole = 1; q.dx = q.dy = q.sx = q.sy = 0; q.w = q.dst.w; q.h = q.dst.h; q.src.w = q.dst.w; q.src.h = q.dst.h; q.src.pad = q.dst.pad = (int)vf_range (r, 0, 2); q.src.neg = q.dst.neg = 0;
        if (q.has_mask && q.mask.kind == RQ_BITS && q.mask.tr_class == TR_NONE && !(q.mask.w == 1 && q.mask.h == 1)) { q.mx = q.my = 0; q.mask.w = q.dst.w; q.mask.h = q.dst.h; }
        vf_count ("whole_image_requests", 1); }
    if (!whole && vf_chance (r, 1, 3)) { q.dst.n_clip = (int)vf_range (r, 1, 3); for (int i = 0; i < q.dst.n_clip; i++) { int x1 = (int)vf_range (r, 0, q.dst.w - 1), y1 = (int)vf_range (r, 0, q.dst.h - 1); q.dst.clip[i].x1 = x1; q.dst.clip[i].y1 = y1; q.dst.clip[i].x2 = x1 + (int)vf_range (r, 1, q.dst.w); q.dst.clip[i].y2 = y1 + (int)vf_range (r, 1, q.dst.h); } }
    else q.dst.n_clip = 0;
    if (q.dst.w > GW || q.dst.h > GH) return;
    if (!rq_build (&q, r)) return;
    /* opaque stretches in the pixels: several routines store whole groups directly where source / mask are opaque */
    static grid_t g; model_region (&q, &ac, &g);
    static char desc[1800]; rq_describe (&q, desc, sizeof desc);
    vf_case_desc ("[table-directed %s%s#%d] %s", imp_names[rc->imp], rc->is_iter ? "-iter" : "", rc->index, desc);
    vf_cell ("cells", vf_mix (vf_mix (40, (uint64_t)(rc - recipes)), (q.dx % per_word == 0) * 2 + ((q.dx + q.w) % per_word == 0)));
    vf_label ("directed_recipes", "%s%s#%d", imp_names[rc->imp], rc->is_iter ? "-iter" : "", rc->index);
    snapshot_dest (&q);
    vf_inflight ("composite32 (table-directed): %s", desc);
    rq_run (&q);
    vf_count ("directed_composites", 1);
    vf_label ("entry_bpp", "composite32/bpp%d", q.dst.buf.bpp);
    footprint (&q, &g, "composite32", 1);
    rq_free (&q);
}

/* ---------------- fill_boxes / fill_rectangles ---------------- */
static void boxes_case (vf_rng *r)
{
    rq_request q; memset (&q, 0, sizeof q);
    rq_gen_image (r, &q.dst, 2, RQP_CLIPPY | RQP_NO_INDEXED);
    q.src.kind = RQ_SOLID; q.src.solid.alpha = 0xffff; q.src.solid.red = (uint16_t)((vf_next (r) & 0xff) * 0x101); q.src.solid.green = (uint16_t)((vf_next (r) & 0xff) * 0x101); q.src.solid.blue = (uint16_t)((vf_next (r) & 0xff) * 0x101);
    int marking = vf_chance (r, 1, 2);
    if (marking) { while (rp_is_wide (q.dst.fmt) || !rp_is_direct (q.dst.fmt)) q.dst.fmt = rq_dst_formats[vf_next (r) % rq_n_dst_formats]; q.dst.alpha_map = 0; }
    else if (vf_chance (r, 1, 2)) q.src.solid.alpha = (uint16_t)vf_next (r);
    if (q.dst.w > GW || q.dst.h > GH) return;
    if (!rq_build (&q, r)) return;
    int n = (int)vf_range (r, 0, 8); pixman_box32_t bx[8]; pixman_rectangle16_t rc[8];
    for (int i = 0; i < n; i++) { int x1 = (int)vf_range (r, -20, q.dst.w + 5), y1 = (int)vf_range (r, -6, q.dst.h + 2), w = (int)vf_range (r, 0, q.dst.w + 30), h = (int)vf_range (r, 0, q.dst.h + 8);
        bx[i].x1 = x1; bx[i].y1 = y1; bx[i].x2 = x1 + w; bx[i].y2 = y1 + h; rc[i].x = (int16_t)x1; rc[i].y = (int16_t)y1; rc[i].width = (uint16_t)w; rc[i].height = (uint16_t)h; }
    static grid_t g, t; grid_full (&g, q.dst.w, q.dst.h);
    grid_and_boxes (&g, bx, n, 0, 0);
    if (q.dst.n_clip) grid_and_boxes (&g, q.dst.clip, q.dst.n_clip, 0, 0);
    if (q.dst.alpha_map) grid_and_rect (&g, q.dst.am_x, q.dst.am_y, (int64_t)q.dst.am_x + q.dst.am_w, (int64_t)q.dst.am_y + q.dst.am_h);
    (void)t;
    pixman_op_t op = marking ? (vf_chance (r, 1, 2) ? PIXMAN_OP_SRC : PIXMAN_OP_OVER) : (pixman_op_t)(vf_next (r) % 14);
    int use_rects = vf_chance (r, 1, 3);
    static char desc[700]; int k = snprintf (desc, sizeof desc, "%s%s op=%d dst=%s %dx%d clip=%d%s boxes=", marking ? "[marking] " : "", use_rects ? "fill_rectangles" : "fill_boxes", (int)op, rp_name (q.dst.fmt), q.dst.w, q.dst.h, q.dst.n_clip, q.dst.alpha_map ? " alphamap" : "");
    for (int i = 0; i < n && k < 600; i++) k += snprintf (desc + k, sizeof desc - k, "[%d,%d %dx%d]", bx[i].x1, bx[i].y1, bx[i].x2 - bx[i].x1, bx[i].y2 - bx[i].y1);
    vf_case_desc ("%s", desc); vf_inflight ("%s", desc);
    snapshot_dest (&q);
    if (use_rects) pixman_image_fill_rectangles (op, q.dst.img, &q.src.solid, n, rc); else pixman_image_fill_boxes (op, q.dst.img, &q.src.solid, n, bx);
    vf_count ("fill_boxes_calls", 1);
    vf_label ("entry_bpp", "%s/bpp%d", use_rects ? "fill_rectangles" : "fill_boxes", q.dst.buf.bpp);
    vf_cell ("cells", vf_mix (vf_mix (20 + marking, PIXMAN_FORMAT_BPP (q.dst.fmt)), vf_mix (q.dst.n_clip, op * 4 + use_rects * 2 + (n > 3))));
    footprint (&q, &g, use_rects ? "fill_rectangles" : "fill_boxes", 1);
    if (marking) {
        uint8_t c8[4] = { 0xff, (uint8_t)(q.src.solid.red >> 8), (uint8_t)(q.src.solid.green >> 8), (uint8_t)(q.src.solid.blue >> 8) };
        uint32_t want = rp_encode8 (q.dst.fmt, c8), dm = rp_defined_mask (q.dst.fmt);
        vf_count ("marking_cases", 1);
        for (int y = 0; y < q.dst.h; y++) for (int x = 0; x < q.dst.w; x++) if (g.in[y][x]) {
            uint32_t got = vf_get_px (vf_buf_row (&q.dst.buf, y), q.dst.buf.bpp, x);
            if ((got ^ want) & dm) { vf_violation ("C03:pixel-inside-region-not-written:fill_boxes", "pixel (%d,%d) is inside a box and the clip but holds %x, colour is %x", x, y, got & dm, want & dm); y = q.dst.h; break; }
        }
    }
    rq_free (&q);
}

/* ---------------- trapezoids, triangles, glyphs: nothing outside bounds / clips ---------------- */
static pixman_fixed_t fx (vf_rng *r, int lo, int hi) { return (pixman_fixed_t)vf_range (r, (int64_t)lo * 65536, (int64_t)hi * 65536); }
static void gen_trap (vf_rng *r, pixman_trapezoid_t *t, int w, int h)
{
    t->top = fx (r, -4, h); t->bottom = t->top + (pixman_fixed_t)vf_range (r, 0, (int64_t)(h + 6) * 65536);
    t->left.p1.x = fx (r, -8, w + 4); t->left.p1.y = t->top - (pixman_fixed_t)vf_range (r, 0, 3 * 65536); t->left.p2.x = fx (r, -8, w + 4); t->left.p2.y = t->bottom + (pixman_fixed_t)vf_range (r, 1, 3 * 65536);
    t->right.p1.x = t->left.p1.x + (pixman_fixed_t)vf_range (r, 0, (int64_t)(w + 6) * 65536); t->right.p1.y = t->left.p1.y; t->right.p2.x = t->left.p2.x + (pixman_fixed_t)vf_range (r, 0, (int64_t)(w + 6) * 65536); t->right.p2.y = t->left.p2.y;
}

static void shapes_case (vf_rng *r)
{
    rq_request q; memset (&q, 0, sizeof q);
    int kind = (int)(vf_next (r) % 7);    /* 0 composite_trapezoids 1 composite_triangles 2 rasterize_trapezoid 3 add_traps 4 add_trapezoids 5 add_triangles 6 glyphs */
    int direct = kind >= 2 && kind <= 5;
    rq_gen_image (r, &q.dst, 2, (direct ? RQP_SIMPLE_DEST : RQP_CLIPPY) | RQP_NO_INDEXED | RQP_NO_ALPHAMAP);
    if (direct) { static const pixman_format_code_t af[] = { PIXMAN_a8, PIXMAN_a4, PIXMAN_a1, PIXMAN_a8, PIXMAN_a8r8g8b8 }; q.dst.fmt = VF_PICK (r, af); if (kind == 3 || kind == 4 || kind == 5) { if (q.dst.fmt == PIXMAN_a8r8g8b8) q.dst.fmt = PIXMAN_a8; } }
    else if (rp_is_wide (q.dst.fmt) && vf_chance (r, 1, 2)) q.dst.fmt = PIXMAN_a8r8g8b8;
    if (direct && vf_chance (r, 1, 3)) { q.dst.accessors = 1; vf_count ("direct_rasterisation_into_accessor_images", 1); }     /* the rasterisers are compiled a second time for images with accessors */
    rq_gen_image (r, &q.src, 0, RQP_NO_INDEXED | RQP_NO_ALPHAMAP | RQP_CLIPPY);
    if (q.dst.w > GW || q.dst.h > GH) return;
    int xs = (int)vf_range (r, -3, 6), ys = (int)vf_range (r, -3, 3), xd = (int)vf_range (r, -4, 4), yd = (int)vf_range (r, -3, 3);
    static const pixman_format_code_t mf[] = { PIXMAN_a8, PIXMAN_a1, PIXMAN_a4, PIXMAN_a8 };
    pixman_format_code_t maskf = VF_PICK (r, mf);
    pixman_op_t op = vf_chance (r, 1, 2) ? PIXMAN_OP_OVER : vf_chance (r, 1, 2) ? PIXMAN_OP_ADD : (pixman_op_t)(vf_next (r) % 14);
    static const char *kn[] = { "composite_trapezoids", "composite_triangles", "rasterize_trapezoid", "add_traps", "add_trapezoids", "add_triangles", "composite_glyphs" };
    const char *what = kn[kind];
    int n = (int)vf_range (r, 1, 4);
    pixman_trapezoid_t tr[4]; pixman_triangle_t tri[4]; pixman_trap_t tp[4];
    for (int i = 0; i < n; i++) {
        gen_trap (r, &tr[i], q.dst.w, q.dst.h);
        tri[i].p1.x = fx (r, -8, q.dst.w + 8); tri[i].p1.y = fx (r, -4, q.dst.h + 4); tri[i].p2.x = fx (r, -8, q.dst.w + 8); tri[i].p2.y = fx (r, -4, q.dst.h + 4); tri[i].p3.x = fx (r, -8, q.dst.w + 8); tri[i].p3.y = fx (r, -4, q.dst.h + 4);
        tp[i].top.y = fx (r, -3, q.dst.h); tp[i].bot.y = tp[i].top.y + (pixman_fixed_t)vf_range (r, 0, (int64_t)(q.dst.h + 4) * 65536);
        tp[i].top.l = fx (r, -6, q.dst.w); tp[i].top.r = tp[i].top.l + (pixman_fixed_t)vf_range (r, 0, (int64_t)(q.dst.w + 8) * 65536); tp[i].bot.l = fx (r, -6, q.dst.w); tp[i].bot.r = tp[i].bot.l + (pixman_fixed_t)vf_range (r, 0, (int64_t)(q.dst.w + 8) * 65536);
    }
    /* the library may rasterise straight into the destination (ADD, opaque source, destination of the mask's format): steer a third of the
     * composite_* calls there, with a destination clip that just contains the shapes where they are given - not where the offset puts them */
    if (kind <= 1 && vf_chance (r, 1, 3)) {
        op = PIXMAN_OP_ADD; q.dst.fmt = maskf; q.dst.accessors = 0;
        memset (&q.src, 0, sizeof q.src); q.src.kind = RQ_SOLID; q.src.solid.alpha = 0xffff; q.src.solid.red = (uint16_t)vf_next (r); pixman_transform_init_identity (&q.src.tr);
        if (vf_chance (r, 2, 3)) {
            int64_t x1 = INT32_MAX, y1 = INT32_MAX, x2 = INT32_MIN, y2 = INT32_MIN;
            for (int i = 0; i < n; i++) {
                int64_t xv[4], yv[4]; int nv;
                if (kind == 0) { xv[0] = tr[i].left.p1.x; xv[1] = tr[i].left.p2.x; xv[2] = tr[i].right.p1.x; xv[3] = tr[i].right.p2.x; yv[0] = tr[i].top; yv[1] = tr[i].bottom; yv[2] = tr[i].top; yv[3] = tr[i].bottom; nv = 4; }
                else { xv[0] = tri[i].p1.x; xv[1] = tri[i].p2.x; xv[2] = tri[i].p3.x; yv[0] = tri[i].p1.y; yv[1] = tri[i].p2.y; yv[2] = tri[i].p3.y; nv = 3; }
                for (int k = 0; k < nv; k++) { if (xv[k] < x1) x1 = xv[k]; if (xv[k] > x2) x2 = xv[k]; if (yv[k] < y1) y1 = yv[k]; if (yv[k] > y2) y2 = yv[k]; }
            }
            q.dst.n_clip = 1; q.dst.clip[0].x1 = (int)(x1 >> 16) - (int)vf_range (r, 0, 2); q.dst.clip[0].y1 = (int)(y1 >> 16) - (int)vf_range (r, 0, 2);
            q.dst.clip[0].x2 = (int)((x2 + 0xffff) >> 16) + (int)vf_range (r, 0, 2); q.dst.clip[0].y2 = (int)((y2 + 0xffff) >> 16) + (int)vf_range (r, 0, 2);
            if (xd == 0 && yd == 0) xd = vf_chance (r, 1, 2) ? 3 : -2;
            vf_count ("direct_route_candidates_with_containing_clip", 1);
        }
    }
    if (!rq_build (&q, r)) return;
    static grid_t g; grid_full (&g, q.dst.w, q.dst.h);
    if (q.dst.n_clip) grid_and_boxes (&g, q.dst.clip, q.dst.n_clip, 0, 0);
    static char desc[900]; rq_describe (&q, desc, 600);
    vf_case_desc ("%s n=%d op=%d mask_format=%s offsets src(%d,%d) dst(%d,%d) first-trap top=%x bottom=%x | %s", what, n, (int)op, rp_name (maskf), xs, ys, xd, yd, (unsigned)tr[0].top, (unsigned)tr[0].bottom, desc);
    vf_inflight ("%s n=%d on %s %dx%d", what, n, rp_name (q.dst.fmt), q.dst.w, q.dst.h);
    /* source clip enabled for sources also confines composite_* calls, but where exactly depends on the offsets the library derives
       from the shapes: only bounds and the destination clip are asserted here */
    snapshot_dest (&q);
    pixman_glyph_cache_t *cache = NULL;
    switch (kind) {
    case 0: pixman_composite_trapezoids (op, q.src.img, q.dst.img, maskf, xs, ys, xd, yd, n, tr); break;
    case 1: pixman_composite_triangles (op, q.src.img, q.dst.img, maskf, xs, ys, xd, yd, n, tri); break;
    case 2: pixman_rasterize_trapezoid (q.dst.img, &tr[0], xd, yd); break;
    case 3: pixman_add_traps (q.dst.img, (int16_t)xd, (int16_t)yd, n, tp); break;
    case 4: pixman_add_trapezoids (q.dst.img, (int16_t)xd, yd, n, tr); break;
    case 5: pixman_add_triangles (q.dst.img, xd, yd, n, tri); break;
    default: {
        cache = pixman_glyph_cache_create (); if (!cache) break;
        pixman_glyph_t gl[4]; pixman_glyph_cache_freeze (cache);
        int ng = 0;
        for (int i = 0; i < n; i++) {
            static const pixman_format_code_t gf[] = { PIXMAN_a8, PIXMAN_a1, PIXMAN_a4, PIXMAN_a8r8g8b8 };
            int gw = (int)vf_range (r, 1, 12), gh = (int)vf_range (r, 1, 8);
            pixman_image_t *gi = pixman_image_create_bits (VF_PICK (r, gf), gw, gh, NULL, 0); if (!gi) continue;
            uint32_t *bits = pixman_image_get_data (gi); int st = pixman_image_get_stride (gi); for (int b = 0; b < st * gh / 4; b++) bits[b] = vf_u32 (r);
            const void *g1 = pixman_glyph_cache_insert (cache, (void *)(uintptr_t)(i + 1), (void *)(uintptr_t)77, (int)vf_range (r, -3, 3), (int)vf_range (r, -3, 3), gi);
            pixman_image_unref (gi);
            if (!g1) continue;
            gl[ng].x = (int)vf_range (r, -6, q.dst.w + 4); gl[ng].y = (int)vf_range (r, -4, q.dst.h + 3); gl[ng].glyph = g1; ng++;
        }
        if (vf_chance (r, 1, 2)) pixman_composite_glyphs_no_mask (op, q.src.img, q.dst.img, xs, ys, xd, yd, cache, ng, gl);
        else { int mx = (int)vf_range (r, -3, q.dst.w), my = (int)vf_range (r, -2, q.dst.h), mw = (int)vf_range (r, 0, q.dst.w + 6), mh = (int)vf_range (r, 0, q.dst.h + 4);
               pixman_composite_glyphs (op, q.src.img, q.dst.img, vf_chance (r, 1, 2) ? PIXMAN_a8 : PIXMAN_a8r8g8b8, xs, ys, mx, my, mx, my, mw, mh, cache, ng, gl); }
        pixman_glyph_cache_thaw (cache);
        break; }
    }
    vf_count ("shape_calls", 1);
    vf_label ("entry_bpp", "%s/bpp%d", what, q.dst.buf.bpp);
    vf_cell ("cells", vf_mix (vf_mix (30 + kind, PIXMAN_FORMAT_BPP (q.dst.fmt)), vf_mix (q.dst.n_clip, (uint32_t)maskf ^ op)));
    footprint (&q, &g, what, 0);
    if (cache) pixman_glyph_cache_destroy (cache);
    rq_free (&q);
}

static void c03_case (long idx, vf_rng *r)
{
    for (int k = 0; k < 8; k++) {
        switch (vf_next (r) % 10) { case 0: case 1: case 2: case 3: composite_case (r); break; case 4: case 5: boxes_case (r); break; case 6: case 7: directed_case (r); break; default: shapes_case (r); break; }
    }
    if (idx < 2) vf_sample ("case %ld: 8 requests over composite32/composite (region query + footprint + marking), fill_boxes/fill_rectangles, trapezoid/triangle/glyph entry points with multi-rectangle clips", idx);
}

static void init (void) { collect (); }
int main (int argc, char **argv) { return vf_main (argc, argv, "C03", init, c03_case, NULL); }
