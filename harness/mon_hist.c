/* Monitor for C14: history independence.  Long-lived source / mask / destination images go through
 * random sequences of property setters interleaved with composites; at every composite fresh replicas
 * are built from the monitor's own record of the final properties (and the current pixels) and must
 * render identically. */
#include "vf.h"
#include "vf_req.h"
#include "ref_pixel.h"
#include "ref_ops.h"

typedef struct { int dither, dox, doy; int amap_acc;        /* accessors installed on the image's own alpha-map object */
                 int other;           /* role whose image is attached as this image's alpha map (cross attachment), or -1 */
                 int holders;         /* how many images use this image as their alpha map */ } extra_t;
static rq_request L;                 /* live request (records + live images) */
static extra_t lx[3];                /* extra properties not in rq_image: src, mask, dst */
static pixman_indexed_t *pal_pool[3][2];

/* accessors that are NOT the identity on the storage (every byte is kept XOR 0x5a): an image that ignores its accessors, or keeps using
 * them after they were removed, reads and writes different pixels.  Byte-wise, so that mixed 8/16/32-bit accesses stay consistent. */
static uint32_t acc_read (const void *src, int size)
{ switch (size) { case 1: return *(const uint8_t *)src ^ 0x5au; case 2: { uint16_t v; memcpy (&v, src, 2); return v ^ 0x5a5au; } default: { uint32_t v; memcpy (&v, src, 4); return v ^ 0x5a5a5a5au; } } }
static void acc_write (void *dst, uint32_t value, int size)
{ switch (size) { case 1: *(uint8_t *)dst = (uint8_t)(value ^ 0x5a); break; case 2: { uint16_t v = (uint16_t)(value ^ 0x5a5a); memcpy (dst, &v, 2); break; } default: value ^= 0x5a5a5a5au; memcpy (dst, &value, 4); break; } }
static void apply_accessors (rq_request *q)
{   /* rq_build installs pass-through accessors: replace them by the XOR pair */
    rq_image *im[3] = { &q->src, &q->mask, &q->dst };
    for (int i = 0; i < 3; i++) if (im[i]->img && im[i]->kind == RQ_BITS && im[i]->accessors && PIXMAN_FORMAT_BPP (im[i]->fmt) <= 32) pixman_image_set_accessors (im[i]->img, acc_read, acc_write);
}

static rq_image *role_img (rq_request *q, int role) { return role == 0 ? &q->src : role == 1 ? &q->mask : &q->dst; }

static void set_clip_live (rq_image *im, int use16)
{
    if (!im->n_clip) { if (use16) pixman_image_set_clip_region (im->img, NULL); else pixman_image_set_clip_region32 (im->img, NULL); return; }
    if (use16) { pixman_box16_t b[RQ_MAX_CLIP]; for (int i = 0; i < im->n_clip; i++) { b[i].x1 = (int16_t)im->clip[i].x1; b[i].y1 = (int16_t)im->clip[i].y1; b[i].x2 = (int16_t)im->clip[i].x2; b[i].y2 = (int16_t)im->clip[i].y2; }
        pixman_region16_t r; pixman_region_init_rects (&r, b, im->n_clip); pixman_image_set_clip_region (im->img, &r); pixman_region_fini (&r); }
    else { pixman_region32_t r; pixman_region32_init_rects (&r, im->clip, im->n_clip); pixman_image_set_clip_region32 (im->img, &r); pixman_region32_fini (&r); }
}

static int force_scroll;      /* the next setter is a pure translation change of the current matrix */
/* one random setter on the live image of `role`; the record is updated to the new final state */
static const char *mutate (vf_rng *r, int role)
{
    rq_image *im = role_img (&L, role);
    rq_image tmp;
    int is_bits = im->kind == RQ_BITS;
    int which = (int)(vf_next (r) % 17); if (force_scroll) which = 0;
    switch (which) {
    case 0: { /* transform: new, identity, NULL, or the identical value again */
        int k = (int)(vf_next (r) % 6); if (force_scroll) k = 3;
        if (k == 0) { im->tr_class = TR_NONE; pixman_transform_init_identity (&im->tr); pixman_image_set_transform (im->img, NULL); return "set_transform(NULL)"; }
        if (k == 1) { im->tr_class = TR_IDENTITY; pixman_transform_init_identity (&im->tr); pixman_image_set_transform (im->img, &im->tr); return "set_transform(identity)"; }
        if (k == 2) { if (im->tr_class != TR_NONE) pixman_image_set_transform (im->img, &im->tr); return "set_transform(same value)"; }
        if (k == 3 && im->tr_class != TR_NONE) {   /* same matrix, only the translation moves: between whole pixels and fractions (filters reduce to NEAREST only for the former) */
            static const pixman_fixed_t fr[] = { 0, 0, 0x8000, 0x4000, 0x2345, 0xc000 };
            im->tr.matrix[0][2] = (pixman_fixed_t)(vf_range (r, -4, 9) * 65536) + VF_PICK (r, fr); im->tr.matrix[1][2] = (pixman_fixed_t)(vf_range (r, -3, 6) * 65536) + VF_PICK (r, fr);
            if (im->tr_class == TR_IDENTITY || im->tr_class == TR_INT_TRANSLATE) im->tr_class = TR_FRAC_TRANSLATE;
            pixman_image_set_transform (im->img, &im->tr); return "set_transform(same matrix, new translation)"; }
        memset (&tmp, 0, sizeof tmp); rq_gen_transform (r, &tmp, (int)vf_range (r, TR_INT_TRANSLATE, TR_PROJECTIVE), 0);
        im->tr = tmp.tr; im->tr_class = tmp.tr_class; pixman_image_set_transform (im->img, &im->tr); return "set_transform(new)"; }
    case 1: { static const int fl[] = { PIXMAN_FILTER_NEAREST, PIXMAN_FILTER_BILINEAR, PIXMAN_FILTER_FAST, PIXMAN_FILTER_GOOD, PIXMAN_FILTER_BEST, PIXMAN_FILTER_CONVOLUTION, PIXMAN_FILTER_CONVOLUTION, PIXMAN_FILTER_SEPARABLE_CONVOLUTION };
        int same_kind = im->filter == PIXMAN_FILTER_CONVOLUTION && vf_chance (r, 1, 2);
        memset (&tmp, 0, sizeof tmp); rq_gen_filter (r, &tmp, same_kind ? PIXMAN_FILTER_CONVOLUTION : VF_PICK (r, fl));
        if (same_kind && tmp.n_params == im->n_params && vf_chance (r, 1, 2)) { /* same size, only late coefficients differ */ memcpy (tmp.params, im->params, sizeof (pixman_fixed_t) * 3); }
        im->filter = tmp.filter; im->n_params = tmp.n_params; memcpy (im->params, tmp.params, sizeof (pixman_fixed_t) * tmp.n_params);
        pixman_image_set_filter (im->img, im->filter, im->n_params ? im->params : NULL, im->n_params); return "set_filter"; }
    case 2: im->repeat = (int)(vf_next (r) % 4); pixman_image_set_repeat (im->img, im->repeat); return "set_repeat";
    case 3: { /* clip: new region, reset, or an empty region */
        int k = (int)(vf_next (r) % 4);
        if (k == 0) im->n_clip = 0;
        else { rq_image t2; rq_gen_image (r, &t2, 2, RQP_CLIPPY | RQP_NO_INDEXED); im->n_clip = t2.n_clip ? t2.n_clip : 1; memcpy (im->clip, t2.clip, sizeof im->clip); if (!t2.n_clip) { im->clip[0].x1 = 1; im->clip[0].y1 = 0; im->clip[0].x2 = 9; im->clip[0].y2 = 4; } }
        set_clip_live (im, vf_chance (r, 1, 3)); return im->n_clip ? "set_clip_region(new)" : "set_clip_region(NULL)"; }
    case 4: if (role != 2) { im->has_client_clip_only = vf_chance (r, 1, 2); pixman_image_set_has_client_clip (im->img, !im->has_client_clip_only); return "set_has_client_clip"; } return NULL;
    case 5: if (role != 2) { im->clip_sources = vf_chance (r, 1, 2); pixman_image_set_source_clipping (im->img, im->clip_sources); return "set_source_clipping"; } return NULL;
    case 6: im->ca = vf_chance (r, 1, 2); pixman_image_set_component_alpha (im->img, im->ca); return "set_component_alpha";
    case 7: if (is_bits && !rp_is_float (im->fmt)) { im->accessors = vf_chance (r, 1, 2); if (im->accessors) pixman_image_set_accessors (im->img, acc_read, acc_write); else pixman_image_set_accessors (im->img, NULL, NULL); return "set_accessors"; } return NULL;
    case 8: if (is_bits) { /* alpha map: attach the image's own map object (maybe new origin; directly replacing a cross attachment), detach */
        if (im->amap && vf_chance (r, 1, 3)) { im->alpha_map = 0; if (lx[role].other >= 0) { lx[lx[role].other].holders--; lx[role].other = -1; } pixman_image_set_alpha_map (im->img, NULL, 0, 0); return "set_alpha_map(NULL)"; }
        if (im->amap) {
            im->am_x = (int)vf_range (r, -2, 2); im->am_y = (int)vf_range (r, -2, 2);
            pixman_image_set_alpha_map (im->img, im->amap, (int16_t)im->am_x, (int16_t)im->am_y);
            /* refused (nothing changes) while this image is itself somebody's alpha map */
            if (lx[role].holders > 0) return "set_alpha_map(own map) while used as a map: refused";
            if (lx[role].other >= 0) { lx[lx[role].other].holders--; lx[role].other = -1; im->alpha_map = 1; return "set_alpha_map(own map) replacing another image"; }
            im->alpha_map = 1; return "set_alpha_map(same map, new origin)"; }
        } return NULL;
    case 14: if (is_bits && im->amap && im->alpha_map && lx[role].other < 0) { /* accessors on the attached alpha-map object: the parent image itself is not touched */
        lx[role].amap_acc = !lx[role].amap_acc;
        if (lx[role].amap_acc) pixman_image_set_accessors (im->amap, acc_read, acc_write); else pixman_image_set_accessors (im->amap, NULL, NULL);
        return lx[role].amap_acc ? "set_accessors(on the attached alpha map)" : "set_accessors(NULL, on the attached alpha map)"; } return NULL;
    case 15: case 16: if (is_bits && !rp_is_float (im->fmt)) { /* another role's bits image as this image's alpha map (a chain is refused) */
        int other = (role + 1 + (int)(vf_next (r) % 2)) % 3; rq_image *m = role_img (&L, other);
        if ((other == 1 && !L.has_mask) || L.pixbuf || m->kind != RQ_BITS || rp_is_float (m->fmt) || !m->img) return NULL;
        int x = (int)vf_range (r, -2, 2), y = (int)vf_range (r, -2, 2);
        pixman_image_set_alpha_map (im->img, m->img, (int16_t)x, (int16_t)y);
        int accepted = lx[role].holders == 0 && !m->alpha_map && lx[other].other < 0;       /* this image is nobody's map; the map has no map of its own */
        if (!accepted) return "set_alpha_map(another image): refused (chain)";
        if (lx[role].other == other) { im->am_x = x; im->am_y = y; return "set_alpha_map(same other image, new origin)"; }
        if (lx[role].other >= 0) lx[lx[role].other].holders--;
        lx[role].other = other; lx[other].holders++; im->alpha_map = 0; im->am_x = x; im->am_y = y;
        return "set_alpha_map(another role's image)"; } return NULL;
    case 9: if (is_bits && rp_is_indexed (im->fmt)) { int k = (int)(vf_next (r) % 2); im->palette = pal_pool[role][k]; pixman_image_set_indexed (im->img, im->palette); return "set_indexed"; } return NULL;
    case 10: if (role == 2) { lx[2].dither = (int)(vf_next (r) % 3) == 0 ? PIXMAN_DITHER_NONE : vf_chance (r, 1, 2) ? PIXMAN_DITHER_ORDERED_BAYER_8 : PIXMAN_DITHER_ORDERED_BLUE_NOISE_64; pixman_image_set_dither (im->img, lx[2].dither); return "set_dither"; } return NULL;
    case 11: if (role == 2) { lx[2].dox = (int)vf_range (r, 0, vf_chance (r, 1, 2) ? 7 : 300); lx[2].doy = (int)vf_range (r, 0, vf_chance (r, 1, 2) ? 7 : 300);   /* beyond the size of either dither matrix too */ pixman_image_set_dither_offset (im->img, lx[2].dox, lx[2].doy); return "set_dither_offset"; } return NULL;
    case 12: /* set then immediately set back: must leave no trace */
        { int old = im->repeat; pixman_image_set_repeat (im->img, (old + 1) % 4); pixman_image_set_repeat (im->img, old); return "set_repeat(x) set_repeat(back)"; }
    default: { int old = im->ca; pixman_image_set_component_alpha (im->img, !old); pixman_image_set_component_alpha (im->img, old); return "set_component_alpha(x)(back)"; }
    }
}

/* bring a freshly built replica image to the recorded properties that rq_build does not know */
static void finish_replica (rq_image *im, int role)
{
    if (im->kind == RQ_BITS && im->palette && role >= 0) pixman_image_set_indexed (im->img, im->palette);
    if (role == 2) { if (lx[2].dither) pixman_image_set_dither (im->img, lx[2].dither); if (lx[2].dox || lx[2].doy) pixman_image_set_dither_offset (im->img, lx[2].dox, lx[2].doy);
                     /* destination-side properties rq_build ignores for destinations */
                     if (im->tr_class != TR_NONE) pixman_image_set_transform (im->img, &im->tr);
                     pixman_image_set_filter (im->img, im->filter, im->n_params ? im->params : NULL, im->n_params);
                     if (im->ca) pixman_image_set_component_alpha (im->img, 1); }
}

static void copy_pixels (rq_image *to, const rq_image *from)
{
    if (from->kind != RQ_BITS) return;
    memcpy (to->buf.base, from->buf.base, from->buf.bytes);
    if (from->amap && to->amap) memcpy (to->abuf.base, from->abuf.base, from->abuf.bytes);
}

static void hist_case (long idx, vf_rng *r)
{
    rq_generate (r, &L, RQP_NO_INDEXED * 0);
    memset (lx, 0, sizeof lx); for (int i = 0; i < 3; i++) lx[i].other = -1;
    /* a quarter of the programs have a "scrolling" source: an interpolating filter and a matrix that starts as a whole-pixel translation and is
     * then moved about, on and off the pixel grid, with a composite after every move */
    int scroller = L.src.kind == RQ_BITS && vf_chance (r, 1, 4);
    if (scroller) { L.src.tr_class = TR_INT_TRANSLATE; pixman_transform_init_identity (&L.src.tr); L.src.tr.matrix[0][2] = (pixman_fixed_t)(vf_range (r, -3, 6) * 65536); L.src.tr.matrix[1][2] = (pixman_fixed_t)(vf_range (r, -2, 4) * 65536);
        if (vf_chance (r, 1, 3)) { L.src.tr.matrix[0][0] = 0; L.src.tr.matrix[0][1] = -65536; L.src.tr.matrix[1][0] = 65536; L.src.tr.matrix[1][1] = 0; L.src.tr.matrix[0][2] += 8 * 65536; L.src.tr_class = TR_ROT90; }
        L.src.filter = VF_PICK (r, ((int[]){ PIXMAN_FILTER_BILINEAR, PIXMAN_FILTER_GOOD, PIXMAN_FILTER_BEST })); L.src.n_params = 0; }
    /* every bits image gets an alpha-map object to play with (attached or not) */
    for (int role = 0; role < 3; role++) { rq_image *im = role_img (&L, role); if (role == 1 && !L.has_mask) continue; if (im->kind == RQ_BITS && !im->alpha_map) { im->am_x = 0; im->am_y = 0; im->am_w = im->w; im->am_h = im->h; } }
    /* build with alpha maps present, then detach those the record says are absent */
    int want_am[3];
    for (int role = 0; role < 3; role++) { rq_image *im = role_img (&L, role); want_am[role] = im->alpha_map; if ((role != 1 || L.has_mask) && im->kind == RQ_BITS && !rp_is_float (im->fmt)) im->alpha_map = 1; }
    if (!rq_build (&L, r)) return;
    apply_accessors (&L);
    for (int role = 0; role < 3; role++) { rq_image *im = role_img (&L, role); if (role == 1 && !L.has_mask) continue; if (im->kind == RQ_BITS && im->amap && !want_am[role]) { im->alpha_map = 0; pixman_image_set_alpha_map (im->img, NULL, 0, 0); }
        if (im->kind == RQ_BITS && rp_is_indexed (im->fmt)) { pal_pool[role][0] = im->palette; pal_pool[role][1] = rq_make_palette (im->fmt, im->pixseed ^ 0x777); } }
    char hist[1400]; int hk = 0; hist[0] = 0;
    int ncomp = 0;
    for (int step = 0; step < 30; step++) {
        int role = (int)(vf_next (r) % 3); if (role == 1 && !L.has_mask) role = 0;
        if (L.pixbuf && role == 1) role = 0;
        if (role_img (&L, role)->kind == RQ_SOLID && vf_chance (r, 1, 2)) role = 2;
        vf_inflight ("history step %d: setter on %s", step, role == 0 ? "source" : role == 1 ? "mask" : "destination");
        int scroll_now = scroller && vf_chance (r, 1, 3); if (scroll_now) { role = 0; force_scroll = 1; }
        const char *what = mutate (r, role); force_scroll = 0;
        if (what && hk < 1200) hk += snprintf (hist + hk, sizeof hist - hk, "%s.%s; ", role == 0 ? "src" : role == 1 ? "mask" : "dst", what);
        if (what) { vf_label ("setters", "%s/%s", role == 0 ? "src" : role == 1 ? "mask" : "dst", what); vf_count ("setter_calls", 1); }
        /* alpha-only destinations: the edge rasteriser called directly (it does not go through the compositing front end), on the long-lived
         * destination and on a fresh replica */
        if ((L.dst.fmt == PIXMAN_a8 || L.dst.fmt == PIXMAN_a4 || L.dst.fmt == PIXMAN_a1) && !L.dst.alpha_map && lx[2].other < 0 && lx[2].holders == 0 && vf_chance (r, 1, 3)) {
            rq_request R = L; for (int role2 = 0; role2 < 3; role2++) { rq_image *im = role_img (&R, role2); im->img = im->amap = NULL; im->live_params = NULL; memset (&im->buf, 0, sizeof im->buf); memset (&im->abuf, 0, sizeof im->abuf); }
            pixman_indexed_t *keep[3] = { L.src.palette, L.mask.palette, L.dst.palette }; int pixbuf = R.pixbuf; if (pixbuf) R.has_mask = 1;
            vf_rng br = *r;
            if (rq_build (&R, &br)) {
                for (int role2 = 0; role2 < 3; role2++) { rq_image *im = role_img (&R, role2); if (role2 == 1 && (!R.has_mask || pixbuf)) continue; free (im->palette); im->palette = keep[role2]; finish_replica (im, role2); }
                apply_accessors (&R); copy_pixels (&R.dst, &L.dst);
                int bpp = PIXMAN_FORMAT_BPP (L.dst.fmt); pixman_trapezoid_t tz; tz.top = (pixman_fixed_t)vf_range (r, 0, 65536); tz.bottom = (pixman_fixed_t)(L.dst.h * 65536) - (pixman_fixed_t)vf_range (r, 0, 65536);
                tz.left.p1.x = (pixman_fixed_t)vf_range (r, 0, 3 * 65536); tz.left.p1.y = tz.top; tz.left.p2.x = (pixman_fixed_t)vf_range (r, 0, 3 * 65536); tz.left.p2.y = tz.bottom + 1;
                tz.right.p1.x = (pixman_fixed_t)(L.dst.w * 65536) - (pixman_fixed_t)vf_range (r, 0, 2 * 65536); tz.right.p1.y = tz.top; tz.right.p2.x = tz.right.p1.x - (pixman_fixed_t)vf_range (r, 0, 65536); tz.right.p2.y = tz.bottom + 1;
                pixman_fixed_t t = pixman_sample_ceil_y (tz.top, bpp), b = pixman_sample_floor_y (tz.bottom, bpp);
                if (b >= t && tz.bottom > tz.top) { pixman_edge_t le, re;
                    vf_case_desc ("after history [%s] pixman_rasterize_edges on the %s destination", hist, rp_name (L.dst.fmt)); vf_inflight ("rasterize_edges on the long-lived destination");
                    pixman_line_fixed_edge_init (&le, bpp, t, &tz.left, 0, 0); pixman_line_fixed_edge_init (&re, bpp, t, &tz.right, 0, 0); pixman_rasterize_edges (L.dst.img, &le, &re, t, b);
                    pixman_line_fixed_edge_init (&le, bpp, t, &tz.left, 0, 0); pixman_line_fixed_edge_init (&re, bpp, t, &tz.right, 0, 0); pixman_rasterize_edges (R.dst.img, &le, &re, t, b);
                    vf_count ("evaluations", 1); vf_count ("rasterize_edges_compared", 1);
                    if (memcmp (L.dst.buf.base, R.dst.buf.base, L.dst.buf.bytes)) { vf_violation ("C14:history-dependent-rendering:rasterize_edges", "pixman_rasterize_edges leaves different bytes in the long-lived %s destination than in a fresh replica with the same properties", rp_name (L.dst.fmt)); copy_pixels (&L.dst, &R.dst); } }
                for (int role2 = 0; role2 < 3; role2++) { rq_image *im = role_img (&R, role2); im->palette = NULL; }
                rq_free (&R);
            }
        }
        if (!scroll_now && !vf_chance (r, 1, 3) && step != 29) continue;
        /* ---- composite on the live images and on fresh replicas ---- */
        if (vf_chance (r, 1, 2)) L.op = ro_ops[vf_next (r) % ro_nops];
        if (vf_chance (r, 1, 3)) { static rq_request t; t = L; rq_gen_geometry (r, &t, 0); L.sx = t.sx; L.sy = t.sy; L.mx = t.mx; L.my = t.my; L.dx = t.dx; L.dy = t.dy; L.w = t.w; L.h = t.h; }
        /* one-sided accessors for the length of one composite: a write-only pair on a destination that the request never reads (OP_SRC, whole-byte pixels,
         * no alpha map, nobody's alpha map), a read-only pair on a bits source; put back afterwards - each is a setter call on a long-lived image */
        int wo = 0, ro = 0; pixman_op_t saved_op = L.op;
        if (L.dst.kind == RQ_BITS && rp_is_direct (L.dst.fmt) && !rp_is_wide (L.dst.fmt) && (L.dst.buf.bpp == 8 || L.dst.buf.bpp == 16 || L.dst.buf.bpp == 32) && !L.dst.alpha_map && lx[2].other < 0 && lx[2].holders == 0 &&
            !lx[2].dither && (L.src.kind != RQ_BITS || (!rp_is_wide (L.src.fmt) && lx[0].other < 0)) && (!L.has_mask || L.mask.kind != RQ_BITS || (!rp_is_wide (L.mask.fmt) && lx[1].other < 0)) &&   /* 8-bit pipeline: the float one always reads the destination */
            vf_chance (r, 1, 4)) {
            wo = 1; L.op = PIXMAN_OP_SRC; pixman_image_set_accessors (L.dst.img, NULL, acc_write); vf_count ("write_only_accessor_composites", 1);
            if (hk < 1200) hk += snprintf (hist + hk, sizeof hist - hk, "dst.set_accessors(NULL, writer); "); }
        if (L.src.kind == RQ_BITS && !rp_is_float (L.src.fmt) && L.src.buf.bpp <= 32 && lx[0].holders == 0 && !L.pixbuf && vf_chance (r, 1, 8)) {
            ro = 1; pixman_image_set_accessors (L.src.img, acc_read, NULL); vf_count ("read_only_accessor_composites", 1);
            if (hk < 1200) hk += snprintf (hist + hk, sizeof hist - hk, "src.set_accessors(reader, NULL); "); }
        int via_traps = !wo && (((L.dst.fmt == PIXMAN_a8 || L.dst.fmt == PIXMAN_a4 || L.dst.fmt == PIXMAN_a1) && vf_chance (r, 1, 2)) || vf_chance (r, 1, 10));
        /* ... and what those routes look at is often set just before: the client-clip / source-clipping switches of a clipped source */
        if (via_traps && L.src.n_clip && vf_chance (r, 1, 2)) {
            if (vf_chance (r, 1, 2)) { L.src.has_client_clip_only = vf_chance (r, 1, 2); pixman_image_set_has_client_clip (L.src.img, !L.src.has_client_clip_only); if (hk < 1200) hk += snprintf (hist + hk, sizeof hist - hk, "src.set_has_client_clip; "); }
            else { L.src.clip_sources = vf_chance (r, 1, 2); pixman_image_set_source_clipping (L.src.img, L.src.clip_sources); if (hk < 1200) hk += snprintf (hist + hk, sizeof hist - hk, "src.set_source_clipping; "); }
            vf_count ("setter_calls", 1); }
        rq_request R = L;          /* records; live pointers are overwritten by rq_build */
        if (ro) R.src.accessors = 1;
        for (int role2 = 0; role2 < 3; role2++) { rq_image *im = role_img (&R, role2); im->img = im->amap = NULL; im->live_params = NULL; memset (&im->buf, 0, sizeof im->buf); memset (&im->abuf, 0, sizeof im->abuf); }
        /* rq_build would make its own palette: keep the recorded one */
        pixman_indexed_t *keep[3] = { L.src.palette, L.mask.palette, L.dst.palette };
        int pixbuf = R.pixbuf;
        if (pixbuf) R.has_mask = 1;
        vf_rng br = *r;
        if (!rq_build (&R, &br)) { if (wo) { pixman_image_set_accessors (L.dst.img, L.dst.accessors ? acc_read : NULL, L.dst.accessors ? acc_write : NULL); L.op = saved_op; } if (ro) pixman_image_set_accessors (L.src.img, L.src.accessors ? acc_read : NULL, L.src.accessors ? acc_write : NULL); break; }
        for (int role2 = 0; role2 < 3; role2++) { rq_image *im = role_img (&R, role2); if (role2 == 1 && (!R.has_mask || pixbuf)) continue; free (im->palette); im->palette = keep[role2]; finish_replica (im, role2); }
        apply_accessors (&R);
        if (wo) pixman_image_set_accessors (R.dst.img, NULL, acc_write);
        if (ro) pixman_image_set_accessors (R.src.img, acc_read, NULL);
        for (int role2 = 0; role2 < 3; role2++) { rq_image *im = role_img (&R, role2); if (role2 == 1 && (!R.has_mask || pixbuf)) continue;
            if (lx[role2].amap_acc && im->amap && im->alpha_map) pixman_image_set_accessors (im->amap, acc_read, acc_write);
            if (lx[role2].other >= 0 && im->img && role_img (&R, lx[role2].other)->img) pixman_image_set_alpha_map (im->img, role_img (&R, lx[role2].other)->img, (int16_t)im->am_x, (int16_t)im->am_y); }
        copy_pixels (&R.src, &L.src); if (L.has_mask && !pixbuf) copy_pixels (&R.mask, &L.mask); copy_pixels (&R.dst, &L.dst);
        static char desc[1800]; rq_describe (&L, desc, sizeof desc);
        vf_case_desc ("after history [%s] composite: %s dither=%d(%d,%d)", hist, desc, lx[2].dither, lx[2].dox, lx[2].doy);
        vf_inflight ("composite on long-lived images after %d steps: %s", step + 1, desc);
        if (vf.verbose) {
            for (int z = 0; z < 2; z++) { rq_request *q = z ? &R : &L; pixman_region16_t reg; pixman_region_init (&reg);
                int ok = pixman_compute_composite_region (&reg, q->src.img, q->has_mask ? q->mask.img : NULL, q->dst.img, (int16_t)q->sx, (int16_t)q->sy, (int16_t)q->mx, (int16_t)q->my, (int16_t)q->dx, (int16_t)q->dy, (uint16_t)q->w, (uint16_t)q->h);
                pixman_box16_t *e = pixman_region_extents (&reg); fprintf (stderr, "%s: region ok=%d n=%d extents=[%d,%d,%d,%d] src clip n=%d cs=%d only=%d\n", z ? "replica" : "live", ok, pixman_region_n_rects (&reg), e->x1, e->y1, e->x2, e->y2, q->src.n_clip, q->src.clip_sources, q->src.has_client_clip_only);
                for (int i = 0; i < q->src.n_clip; i++) fprintf (stderr, "   clip[%d]=[%d,%d,%d,%d]\n", i, q->src.clip[i].x1, q->src.clip[i].y1, q->src.clip[i].x2, q->src.clip[i].y2);
                pixman_region_fini (&reg); } }
        /* some of the drawing goes through the trapezoid entry point (its routes look at image flags and clip fields themselves): alpha-only destinations
         * with ADD can be rasterised into directly */
        if (via_traps) {
            pixman_trapezoid_t tz[2]; pixman_format_code_t mfmt = (L.dst.fmt == PIXMAN_a8 || L.dst.fmt == PIXMAN_a4 || L.dst.fmt == PIXMAN_a1) ? L.dst.fmt : PIXMAN_a8;
            pixman_op_t top = vf_chance (r, 1, 2) ? PIXMAN_OP_ADD : L.op;
            for (int i = 0; i < 2; i++) { tz[i].top = (pixman_fixed_t)vf_range (r, -65536, 65536); tz[i].bottom = (pixman_fixed_t)((L.dst.h + 1) * 65536) - (pixman_fixed_t)vf_range (r, 0, 2 * 65536);
                tz[i].left.p1.x = (pixman_fixed_t)vf_range (r, -2 * 65536, 4 * 65536); tz[i].left.p1.y = tz[i].top; tz[i].left.p2.x = (pixman_fixed_t)vf_range (r, -2 * 65536, 4 * 65536); tz[i].left.p2.y = tz[i].bottom + 1;
                tz[i].right.p1.x = (pixman_fixed_t)((L.dst.w + 2) * 65536) - (pixman_fixed_t)vf_range (r, 0, 5 * 65536); tz[i].right.p1.y = tz[i].top; tz[i].right.p2.x = tz[i].right.p1.x - (pixman_fixed_t)vf_range (r, 0, 65536); tz[i].right.p2.y = tz[i].bottom + 1; }
            int xs = (int)vf_range (r, -2, 3), ys = (int)vf_range (r, -2, 2);
            vf_inflight ("composite_trapezoids on long-lived images after %d steps: %s", step + 1, desc);
            pixman_composite_trapezoids (top, L.src.img, L.dst.img, mfmt, xs, ys, 0, 0, 2, tz);
            vf_inflight ("composite_trapezoids on fresh replicas: %s", desc);
            pixman_composite_trapezoids (top, R.src.img, R.dst.img, mfmt, xs, ys, 0, 0, 2, tz);
            vf_count ("composite_trapezoids_compared", 1);
        } else {
        rq_run (&L);
        vf_inflight ("composite on fresh replicas: %s", desc);
        rq_run (&R);
        }
        ncomp++;
        vf_count ("evaluations", 1); vf_count ("composites_compared", 1);
        vf_cell ("cells", vf_mix (rq_cell (&L), vf_hash (hist, strlen (hist), 9)));
        pixman_image_t *live_am = L.dst.amap; if (!L.dst.alpha_map) L.dst.amap = NULL;      /* a detached map object is not part of the destination */
        uint64_t dl = rq_digest (&L), dr = rq_digest (&R);
        for (int role2 = 0; role2 < 2; role2++) { rq_image *a = role_img (&L, role2), *b2 = role_img (&R, role2); if (role2 == 1 && (!L.has_mask || pixbuf)) continue;
            if (a->kind == RQ_BITS && a->buf.base && b2->buf.base) { dl = vf_hash (a->buf.base, a->buf.bytes, dl); dr = vf_hash (b2->buf.base, b2->buf.bytes, dr); } }
        L.dst.amap = live_am;
        if (dl != dr) {
            /* name the last setter of each image in the key: that is usually the stale one */
            char key[200]; const char *last = strrchr (hist, ';'); (void)last;
            int fx = -1, fy = -1; uint32_t a = 0, b = 0;
            for (int y = 0; y < L.dst.h && fx < 0; y++) for (int x = 0; x < L.dst.w; x++) if (L.dst.buf.bpp <= 32) { a = vf_get_px (vf_buf_row (&L.dst.buf, y), L.dst.buf.bpp, x); b = vf_get_px (vf_buf_row (&R.dst.buf, y), R.dst.buf.bpp, x); if (a != b) { fx = x; fy = y; break; } }
            snprintf (key, sizeof key, "C14:history-dependent-rendering:%s", what ? what : "no-setter");
            vf_violation (key, "composite %d of the program: long-lived images give %x at (%d,%d), fresh replicas with the same final properties give %x", ncomp, a, fx, fy, b);
            /* resynchronise: continue the program from the replica's pixels */
            copy_pixels (&L.dst, &R.dst);
        }
        for (int role2 = 0; role2 < 3; role2++) { rq_image *im = role_img (&R, role2); im->palette = NULL; }
        rq_free (&R);
        if (wo) { pixman_image_set_accessors (L.dst.img, L.dst.accessors ? acc_read : NULL, L.dst.accessors ? acc_write : NULL); L.op = saved_op; if (hk < 1200) hk += snprintf (hist + hk, sizeof hist - hk, "dst.set_accessors(back); "); }
        if (ro) { pixman_image_set_accessors (L.src.img, L.src.accessors ? acc_read : NULL, L.src.accessors ? acc_write : NULL); if (hk < 1200) hk += snprintf (hist + hk, sizeof hist - hk, "src.set_accessors(back); "); }
    }
    if (idx < 3) vf_sample ("program %ld: %d setters, %d composites compared; history: %.300s", idx, 30, ncomp, hist);
    for (int role = 0; role < 3; role++) { rq_image *im = role_img (&L, role); if (im->kind == RQ_BITS && rp_is_indexed (im->fmt) && (role != 1 || L.has_mask)) { if (im->palette == pal_pool[role][0]) free (pal_pool[role][1]); else { free (pal_pool[role][0]); } pal_pool[role][0] = pal_pool[role][1] = NULL; } }
    rq_free (&L);
}

int main (int argc, char **argv) { return vf_main (argc, argv, "C14", NULL, hist_case, NULL); }
