#include "vf_alloc.h"
#include <stdint.h>
#include <string.h>
void *__real_malloc (size_t); void *__real_calloc (size_t, size_t); void *__real_realloc (void *, size_t); void __real_free (void *);

static int on; static long count, failed, fail_at = -1; static int persistent;
#define MAXLIVE 65536
static struct { void *p; size_t n; void *site; } live[MAXLIVE];
static long nlive; static void *last_failed_site;

static int should_fail (void *site)
{
    count++;
    if (fail_at >= 0 && (count == fail_at || (persistent && count > fail_at))) { failed++; last_failed_site = site; return 1; }
    return 0;
}
static void record (void *p, size_t n, void *site)
{
    if (!p) return;
    for (long i = 0; i < MAXLIVE; i++) { long k = ((uintptr_t)p / 16 + i) % MAXLIVE; if (!live[k].p || live[k].p == (void *)1) { live[k].p = p; live[k].n = n; live[k].site = site; nlive++; return; } }
}
static void forget (void *p)
{
    if (!p) return;
    for (long i = 0; i < MAXLIVE; i++) { long k = ((uintptr_t)p / 16 + i) % MAXLIVE; if (!live[k].p) return; if (live[k].p == p) { live[k].p = (void *)1; nlive--; return; } }
}
void *__wrap_malloc (size_t n)
{
    void *site = __builtin_return_address (0);
    if (!on) return __real_malloc (n);
    if (should_fail (site)) return NULL;
    void *p = __real_malloc (n); record (p, n, site); return p;
}
void *__wrap_calloc (size_t a, size_t b)
{
    void *site = __builtin_return_address (0);
    if (!on) return __real_calloc (a, b);
    if (should_fail (site)) return NULL;
    void *p = __real_calloc (a, b); record (p, a * b, site); return p;
}
void *__wrap_realloc (void *old, size_t n)
{
    void *site = __builtin_return_address (0);
    if (on && should_fail (site)) return NULL;          /* the old block stays valid, as with the real realloc */
    void *p = __real_realloc (old, n);
    if (p || n == 0) forget (old);
    if (on) record (p, n, site); 
    return p;
}
void __wrap_free (void *p) { forget (p); __real_free (p); }

void vf_alloc_begin (long k, int pers) { count = 0; failed = 0; fail_at = k; persistent = pers; last_failed_site = 0; on = 1; }
void vf_alloc_end (void) { on = 0; fail_at = -1; }
long vf_alloc_count (void) { return count; }
long vf_alloc_failed (void) { return failed; }
long vf_alloc_live (void) { return nlive; }
void vf_alloc_reset_live (void) { memset (live, 0, sizeof live); nlive = 0; }
void *vf_alloc_first_live_site (size_t *size) { for (long k = 0; k < MAXLIVE; k++) if (live[k].p && live[k].p != (void *)1) { if (size) *size = live[k].n; return live[k].site; } return 0; }
void *vf_alloc_last_failed_site (void) { return last_failed_site; }
