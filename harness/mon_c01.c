/* Monitor for C01: every destination pixel of pixman_image_composite32 against the
 * compositing equations (exact integer rule / real-valued interval). */
#include "vf_recipes.h"    /* table-directed steering only: which (operator, formats, mask mode) the implementations have routines for */
#include "vf.h"
#include "vf_req.h"
#include "ref_pixel.h"
#include "ref_ops.h"
#include <math.h>

static pixman_format_code_t dst_fmts[64], src_fmts[64];
static int n_dst, n_src;

static void init (void)
{
    collect ();
    for (int i = 0; i < rp_nformats; i++) {
        pixman_format_code_t c = rp_formats[i].code;
        if (!rp_is_direct (c)) continue;
        /* the float formats are accepted by pixman_image_create_bits although the supported_* queries do not list them */
        if (pixman_format_supported_destination (c) || rp_is_float (c)) dst_fmts[n_dst++] = c;
        if (pixman_format_supported_source (c) || rp_is_float (c)) src_fmts[n_src++] = c;
    }
    if (n_dst < 30 || n_src < 30) vf_fatal ("format tables too small (%d,%d)", n_dst, n_src);
}

static uint8_t edge8 (vf_rng *r)
{
    static const uint8_t e[] = { 0, 1, 2, 0x7f, 0x80, 0xfe, 0xff };
    return vf_chance (r, 1, 2) ? VF_PICK (r, e) : (uint8_t)vf_next (r);
}
/* canonical 8-bit pixel; premult: colour <= alpha */
static void gen8 (vf_rng *r, int premult, uint8_t p[4])
{
    int k = (int)(vf_next (r) % 8);
    p[0] = k < 2 ? 0 : k < 4 ? 255 : edge8 (r);
    for (int c = 1; c < 4; c++) { p[c] = edge8 (r); if (premult && p[c] > p[0]) p[c] = vf_chance (r, 1, 2) ? p[0] : (uint8_t)ro_mul8 (p[c], p[0]); }
}

/* write one generated pixel into a row of format f */
static void put_generated (vf_rng *r, pixman_format_code_t f, uint8_t *row, int x, int premult)
{
    uint8_t p[4]; gen8 (r, premult, p);
    if (rp_is_float (f)) {
        int n = PIXMAN_FORMAT_BPP (f) / 32; float v[4];
        double a = n == 4 ? (vf_chance (r, 1, 2) ? p[0] / 255.0 : vf_unit (r)) : 1.0;
        if (n == 4 && p[0] == 0) a = 0; if (n == 4 && p[0] == 255) a = 1;
        for (int c = 0; c < 3; c++) { double cv = vf_chance (r, 1, 2) ? p[c + 1] / 255.0 : vf_unit (r); if (premult && cv > a) cv = a * vf_unit (r); v[c] = (float)cv; }
        v[3] = (float)a;
        memcpy (row + (size_t)x * n * 4, v, n * 4);
        return;
    }
    int bpp = PIXMAN_FORMAT_BPP (f);
    uint32_t raw;
    if (!rp_is_wide (f)) {
        raw = rp_encode8 (f, p);
        if (premult) {
            /* validity must hold for the values the stored fields denote (alpha may have fewer bits than colour) */
            int sh[4], bits[4]; rp_layout (f, sh, bits);
            if (bits[0]) {
                uint32_t av = (raw >> sh[0]) & ((1u << bits[0]) - 1);
                for (int c = 1; c < 4; c++) if (bits[c]) {
                    uint32_t mx = (1u << bits[c]) - 1, v = (raw >> sh[c]) & mx;
                    while (v > 0 && (uint64_t)v * ((1u << bits[0]) - 1) > (uint64_t)av * mx) v--;
                    raw = (raw & ~(mx << sh[c])) | (v << sh[c]);
                }
            }
        }
    } else {
        int sh[4], bits[4]; rp_layout (f, sh, bits); raw = 0;
        uint32_t av = 0; double areal = 1.0;
        if (bits[0]) { av = (uint32_t)p[0] >> (8 - bits[0]); areal = (double)av / ((1u << bits[0]) - 1); raw |= av << sh[0]; }
        for (int c = 1; c < 4; c++) if (bits[c]) {
            uint32_t mx = (1u << bits[c]) - 1;
            uint32_t v = bits[c] > 8 ? (((uint32_t)p[c] << (bits[c] - 8)) | (vf_u32 (r) & ((1u << (bits[c] - 8)) - 1))) : p[c] >> (8 - bits[c]);
            if (premult) {
                double lim = areal;
                if (rp_is_srgb (f)) { while (v > 0 && rp_srgb_to_linear ((double)v / mx) > lim) v--; }
                else { uint32_t lv = (uint32_t)floor (lim * mx); if (v > lv) v = lv; }
            }
            raw |= (v & mx) << sh[c];
        }
    }
    raw |= vf_u32 (r) & ~rp_defined_mask (f);      /* undefined bits carry noise */
    vf_put_px (row, bpp, x, raw);
}

typedef struct { vf_buf buf; pixman_image_t *img; pixman_format_code_t fmt; int solid; uint8_t solid8[4]; int has16; uint16_t solid16[4]; int has_one; uint8_t one8[4]; double onef[4]; int w;
                 int xo, yo;        /* offset of the request inside the image (shared-storage operands only; 0 otherwise) */
                 int borrowed;      /* the storage belongs to another operand */
                 int xdiv;          /* 2: the image is read through a 2x enlarging NEAREST transform (request pixel x samples image pixel x/2); else 0 */
                 pixman_indexed_t *pal; /* palette of an indexed (c8/g8/c4/g4/g1) operand */ } operand_t;

static void operand_free (operand_t *o) { if (o->img) pixman_image_unref (o->img); if (!o->solid && !o->borrowed) vf_buf_free (&o->buf); free (o->pal); memset (o, 0, sizeof *o); }

/* accessors that keep the storage XOR-ed: an image that is read behind its accessors' back shows a different pixel */
static uint32_t xacc_read (const void *src, int size)
{ switch (size) { case 1: return *(const uint8_t *)src ^ 0x5au; case 2: { uint16_t v; memcpy (&v, src, 2); return v ^ 0x5a5au; } default: { uint32_t v; memcpy (&v, src, 4); return v ^ 0x5a5a5a5au; } } }
static void xacc_write (void *dst, uint32_t value, int size)
{ switch (size) { case 1: *(uint8_t *)dst = (uint8_t)(value ^ 0x5a); break; case 2: { uint16_t v = (uint16_t)(value ^ 0x5a5a); memcpy (dst, &v, 2); break; } default: value ^= 0x5a5a5a5au; memcpy (dst, &value, 4); break; } }
static int force_runs;
static int solid16_ok;   /* the destination is a wide format: the request certainly runs in the float pipeline, where a solid fill enters as c/65535 */
/* kind: 0 bits image of width n, 1 solid fill, 2 1x1 repeating bits */
static int operand_make (operand_t *o, vf_rng *r, pixman_format_code_t f, int n, int kind, int premult)
{
    memset (o, 0, sizeof *o); o->fmt = f; o->w = n;
    if (kind == 1) {
        if (solid16_ok && vf_chance (r, 1, 2)) {
            /* all 16 bits of the colour count: alpha just below 1 (0xff00..0xfffe reads as 0xff in 8 bits), just above 0, and anything */
            static const uint16_t ea[] = { 0xffff, 0xfffe, 0xff80, 0xff00, 0xfeff, 0x8000, 0x0100, 0x00ff, 0x0001, 0 };
            uint16_t a = vf_chance (r, 2, 3) ? VF_PICK (r, ea) : (uint16_t)vf_next (r);
            o->solid16[0] = a; for (int c = 1; c < 4; c++) { uint16_t v = vf_chance (r, 1, 4) ? 0xffff : (uint16_t)vf_next (r); o->solid16[c] = premult ? (uint16_t)((uint32_t)v * a / 65535) : v; }
            for (int c = 0; c < 4; c++) o->solid8[c] = (uint8_t)(o->solid16[c] >> 8);
            pixman_color_t c16 = { o->solid16[1], o->solid16[2], o->solid16[3], o->solid16[0] };
            o->img = pixman_image_create_solid_fill (&c16); o->solid = 1; o->has16 = 1; o->fmt = PIXMAN_a8r8g8b8; vf_count ("solids_with_16_bit_colours", 1);
            return o->img != NULL;
        }
        gen8 (r, premult, o->solid8);
        pixman_color_t c = { (uint16_t)(o->solid8[1] * 0x101), (uint16_t)(o->solid8[2] * 0x101), (uint16_t)(o->solid8[3] * 0x101), (uint16_t)(o->solid8[0] * 0x101) };
        o->img = pixman_image_create_solid_fill (&c); o->solid = 1; o->fmt = PIXMAN_a8r8g8b8;
        return o->img != NULL;
    }
    int w = kind == 2 ? 1 : n;
    if (!vf_buf_alloc (&o->buf, f, w, 1, (int)(vf_next (r) % 2), 0, vf_default_place (r))) return 0;
    memset (o->buf.base, 0, o->buf.bytes);
    if (rp_is_indexed (f)) {
        /* palette operand: the pixel is an index, its value the palette entry (always opaque) */
        for (int x = 0; x < w; x++) vf_put_px (vf_buf_row (&o->buf, 0), o->buf.bpp, x, vf_u32 (r));
        o->pal = rq_make_palette (f, vf_next (r));
    } else if (!rp_is_wide (f) && w >= 8 && (force_runs || vf_chance (r, 1, 4))) {
        /* runs: stretches of opaque, of transparent and of translucent pixels (SIMD routines treat aligned groups of such pixels specially) */
        int x = 0; while (x < w) { int len = (int)vf_range (r, 3, 12), kind3 = (int)(vf_next (r) % 3);
            for (int i = 0; i < len && x < w; i++, x++) { uint8_t p8[4]; gen8 (r, premult, p8);
                if (kind3 == 0) { p8[0] = 255; } else if (kind3 == 1) { p8[0] = 0; if (premult) p8[1] = p8[2] = p8[3] = 0; }
                else if (premult) { for (int c = 1; c < 4; c++) if (p8[c] > p8[0]) p8[c] = p8[0]; }
                uint32_t raw = rp_encode8 (f, p8);
                if (premult) { int sh[4], bits[4]; rp_layout (f, sh, bits); if (bits[0]) { uint32_t av = (raw >> sh[0]) & ((1u << bits[0]) - 1); for (int c = 1; c < 4; c++) if (bits[c]) { uint32_t mx = (1u << bits[c]) - 1, v = (raw >> sh[c]) & mx; while (v > 0 && (uint64_t)v * ((1u << bits[0]) - 1) > (uint64_t)av * mx) v--; raw = (raw & ~(mx << sh[c])) | (v << sh[c]); } } }
                vf_put_px (vf_buf_row (&o->buf, 0), o->buf.bpp, x, raw | (vf_u32 (r) & ~rp_defined_mask (f))); } }
    } else
    for (int x = 0; x < w; x++) put_generated (r, f, vf_buf_row (&o->buf, 0), x, premult);
    o->img = vf_buf_image (&o->buf);
    if (!o->img) { vf_buf_free (&o->buf); return 0; }
    if (o->pal) pixman_image_set_indexed (o->img, o->pal);
    if (kind == 2) { pixman_image_set_repeat (o->img, PIXMAN_REPEAT_NORMAL); o->w = 1;
        /* a third of the 1x1 repeating operands are read through accessors (the library classifies 1x1 repeating images as solid colours and has
         * shortcuts that fetch such a colour straight from memory) */
        if (!o->pal && !rp_is_float (f) && o->buf.bpp <= 32 && (o->buf.bpp == 8 || o->buf.bpp == 16 || o->buf.bpp == 32) && vf_chance (r, 1, 3)) {
            rp_decode8 (f, vf_get_px (vf_buf_row (&o->buf, 0), o->buf.bpp, 0), o->one8); rp_decodef_row (f, vf_buf_row (&o->buf, 0), 0, o->onef); o->has_one = 1;
            uint8_t *row = vf_buf_row (&o->buf, 0); for (int i = 0; i < o->buf.bpp / 8; i++) row[i] ^= 0x5a;
            pixman_image_set_accessors (o->img, xacc_read, xacc_write); vf_count ("one_pixel_operands_behind_accessors", 1); } }
    return 1;
}
static void operand_px8 (const operand_t *o, int x, uint8_t p[4])
{
    if (o->solid) { memcpy (p, o->solid8, 4); return; }
    if (o->has_one) { memcpy (p, o->one8, 4); return; }
    if (o->w == 1) x = 0;
    if (o->xdiv) x /= o->xdiv;
    if (o->pal) { uint32_t raw = vf_get_px (vf_buf_row (&o->buf, o->yo), o->buf.bpp, x + o->xo), c = o->pal->rgba[raw & ((1u << o->buf.bpp) - 1) & 0xff];
        p[0] = (uint8_t)(c >> 24); p[1] = (uint8_t)(c >> 16); p[2] = (uint8_t)(c >> 8); p[3] = (uint8_t)c; return; }
    rp_decode8 (o->fmt, vf_get_px (vf_buf_row (&o->buf, o->yo), o->buf.bpp, x + o->xo), p);
}
static void operand_pxf (const operand_t *o, int x, double p[4])
{
    if (o->solid && o->has16) { for (int c = 0; c < 4; c++) p[c] = o->solid16[c] / 65535.0; return; }
    if (o->solid) { for (int c = 0; c < 4; c++) p[c] = o->solid8[c] / 255.0; return; }
    if (o->has_one) { for (int c = 0; c < 4; c++) p[c] = o->onef[c]; return; }
    if (o->w == 1) x = 0;
    if (o->pal) { uint8_t p8[4]; operand_px8 (o, x, p8); for (int c = 0; c < 4; c++) p[c] = p8[c] / 255.0; return; }
    if (o->xdiv) x /= o->xdiv;
    rp_decodef_row (o->fmt, vf_buf_row (&o->buf, o->yo), x + o->xo, p);
}

static const char *mode_name[] = { "nomask", "unified", "ca" };

static void c01_case (long idx, vf_rng *r)
{
    pixman_op_t op = ro_ops[idx % ro_nops];
    int mode = (int)((idx / ro_nops) % 3);
    int exhaustive_alpha = !strcmp (vf.config, "alpha-sweep");
    if (exhaustive_alpha) { op = ro_ops[idx % 14 == 13 ? 12 : idx % 14]; mode = (int)((idx / 14) % 3); }
    int n = (int)vf_range (r, 1, 67);
    /* formats: bias to the common ones, but every supported format occurs */
    pixman_format_code_t df = vf_chance (r, 1, 3) ? (vf_chance (r, 1, 2) ? PIXMAN_a8r8g8b8 : PIXMAN_x8r8g8b8) : dst_fmts[vf_next (r) % n_dst];
    pixman_format_code_t sf = vf_chance (r, 1, 3) ? (vf_chance (r, 1, 2) ? PIXMAN_a8r8g8b8 : PIXMAN_x8r8g8b8) : src_fmts[vf_next (r) % n_src];
    pixman_format_code_t mf = vf_chance (r, 1, 3) ? (mode == RO_CA ? PIXMAN_a8r8g8b8 : PIXMAN_a8) : src_fmts[vf_next (r) % n_src];
    if (exhaustive_alpha) { df = PIXMAN_a8r8g8b8; sf = PIXMAN_a8r8g8b8; mf = mode == RO_CA ? PIXMAN_a8r8g8b8 : PIXMAN_a8; n = 256; }
    int skind = (int)(vf_next (r) % 6); skind = skind < 4 ? 0 : skind - 3;           /* 0 bits, 1 solid, 2 1x1 repeat */
    int mkind = (int)(vf_next (r) % 6); mkind = mkind < 4 ? 0 : mkind - 3;
    if (exhaustive_alpha) skind = mkind = 0;
    if (!exhaustive_alpha && vf_chance (r, 1, 16)) { static const pixman_format_code_t idx_f[] = { PIXMAN_g8, PIXMAN_c8, PIXMAN_g4, PIXMAN_c4, PIXMAN_g1, PIXMAN_g8 }; sf = VF_PICK (r, idx_f); vf_count ("indexed_sources", 1); }
    if (!exhaustive_alpha && mode != RO_NOMASK && vf_chance (r, 1, 24)) { static const pixman_format_code_t idx_f[] = { PIXMAN_g8, PIXMAN_c8, PIXMAN_g4 }; mf = VF_PICK (r, idx_f); }
    /* rows longer than the general path's on-stack scanline buffers */
    if (!exhaustive_alpha && vf_chance (r, 1, 40)) { n = (int)vf_range (r, 501, 1400); vf_count ("long_rows", 1); }
    /* a full-colour image used as a unified mask (only its alpha counts), same layout as the source: the x86 routines for this pairing copy
     * aligned groups of opaque pixels */
    force_runs = 0;
    if (!exhaustive_alpha && mode == RO_UNIFIED && vf_chance (r, 1, 10)) { sf = mf = vf_chance (r, 1, 2) ? PIXMAN_a8r8g8b8 : PIXMAN_a8b8g8r8; df = vf_chance (r, 1, 2) ? sf : (sf == PIXMAN_a8r8g8b8 ? PIXMAN_x8r8g8b8 : PIXMAN_x8b8g8r8);
        if (vf_chance (r, 2, 3)) op = PIXMAN_OP_OVER; force_runs = 1; if (n < 12) n = 12 + (int)(vf_next (r) % 40); }
    int shared_pair = !exhaustive_alpha && mode == RO_UNIFIED && !force_runs && vf_chance (r, 1, 8);
    if (shared_pair) { int bgr = vf_chance (r, 1, 2); sf = bgr ? PIXMAN_x8b8g8r8 : PIXMAN_x8r8g8b8; mf = bgr ? PIXMAN_a8b8g8r8 : PIXMAN_a8r8g8b8; skind = mkind = 0; if (vf_chance (r, 1, 2)) op = PIXMAN_OP_OVER;
        if (vf_chance (r, 2, 3)) { static const pixman_format_code_t pd[] = { PIXMAN_a8r8g8b8, PIXMAN_x8r8g8b8, PIXMAN_r5g6b5, PIXMAN_a8b8g8r8, PIXMAN_x8b8g8r8, PIXMAN_b5g6r5 }; df = VF_PICK (r, pd); } }
    /* a third of the cases take operator, formats and mask mode from an entry of the implementations' fast-path tables (C, MMX, SSE2, SSSE3), so that every
     * dedicated routine for untransformed operands is held to the equations in whichever chain is running */
    if (!exhaustive_alpha && !shared_pair && !force_runs && n_recipes && vf_chance (r, 1, 3)) {
        const recipe_t *rc = &recipes[vf_next (r) % n_recipes];
        if (!rc->is_iter) { const pixman_fast_path_t *e = &rc->fp; int okf = 1;
            pixman_format_code_t d2 = e->dest_format, s2 = e->src_format, m2 = e->mask_format; int sk2 = 0, mk2 = 0, mode2 = RO_NOMASK;
            if (!pixman_format_supported_destination (d2)) okf = 0;
            if (s2 == PIXMAN_solid) { sk2 = vf_chance (r, 2, 3) ? 1 : 2; s2 = PIXMAN_a8r8g8b8; } else if (!pixman_format_supported_source (s2)) okf = 0;
            if (m2 != PIXMAN_null) { mode2 = (e->mask_flags & FAST_PATH_COMPONENT_ALPHA) ? RO_CA : RO_UNIFIED;
                if (m2 == PIXMAN_solid) { mk2 = vf_chance (r, 2, 3) ? 1 : 2; m2 = PIXMAN_a8r8g8b8; } else if (!pixman_format_supported_source (m2)) okf = 0; }
            if (okf && e->op < PIXMAN_OP_any && !(rp_is_indexed (d2) || PIXMAN_FORMAT_TYPE (s2) == PIXMAN_TYPE_YUY2 || PIXMAN_FORMAT_TYPE (s2) == PIXMAN_TYPE_YV12)) {
                op = e->op; df = d2; sf = s2; skind = sk2; mode = mode2; if (mode != RO_NOMASK) { mf = m2; mkind = mk2; }
                if (n < 8 && vf_chance (r, 1, 2)) n += 8 + (int)(vf_next (r) % 24);
                vf_count ("table_directed_cases", 1); vf_label ("table_directed", "%s#%d", imp_names[rc->imp], rc->index); }
        }
    }
    if (!exhaustive_alpha && !shared_pair && rp_is_wide (df) && vf_chance (r, 1, 4)) { skind = 1; if (vf_chance (r, 1, 2)) op = PIXMAN_OP_OVER; }      /* solid colours with all 16 bits onto deep destinations */
    if (skind == 1) sf = PIXMAN_a8r8g8b8;          /* a solid fill has no storage format; it is a narrow operand */
    if (mkind == 1) mf = PIXMAN_a8r8g8b8;
    int narrow = !rp_is_wide (df) && !rp_is_wide (sf) && (mode == RO_NOMASK || !rp_is_wide (mf)) && !ro_needs_float (op);
    int all_narrow_fmt = !rp_is_wide (df) && !rp_is_wide (sf) && (mode == RO_NOMASK || !rp_is_wide (mf));
    int exact = narrow && ro_is_exact_op (op);
    int premult = !exact || vf_chance (r, 1, 2);
    if (ro_is_hsl (op) && mode == RO_CA) { vf_count ("skipped_hsl_ca", 1); return; }      /* not claimed: equations undefined */
    operand_t S, M, D; memset (&M, 0, sizeof M);
    solid16_ok = rp_is_wide (df);
    if (shared_pair) {
        /* source and mask are two views (x888 / a888) of ONE pixel buffer, as GdkPixbuf users do; the offsets of the two views differ in
         * general (only equal offsets make it the "pixbuf" case the library has special routines for) */
        memset (&S, 0, sizeof S); S.fmt = sf; S.w = n + 3;
        if (!vf_buf_alloc (&S.buf, sf, n + 3, 3, (int)(vf_next (r) % 2), 0, vf_default_place (r))) return;
        for (int y = 0; y < 3; y++) for (int x = 0; x < n + 3; x++) { uint8_t p8[4]; gen8 (r, 0, p8); vf_put_px (vf_buf_row (&S.buf, y), 32, x, rp_encode8 (mf, p8)); }
        S.img = vf_buf_image (&S.buf); if (!S.img) { vf_buf_free (&S.buf); return; }
        M = S; M.fmt = mf; M.borrowed = 1; M.buf.fmt = mf; M.img = pixman_image_create_bits (mf, n + 3, 3, S.buf.bits, S.buf.stride);
        if (!M.img) { operand_free (&S); return; }
        S.xo = (int)(vf_next (r) % 3); S.yo = (int)(vf_next (r) % 3); M.xo = (int)(vf_next (r) % 3); M.yo = (int)(vf_next (r) % 3);
        if (vf_chance (r, 1, 3)) { M.xo = S.xo; M.yo = S.yo; }
        S.w = M.w = n + 3;
    } else {
    if (!operand_make (&S, r, sf, n, skind, premult)) return;
    if (mode != RO_NOMASK) { if (!operand_make (&M, r, mf, n, mkind, 0)) { operand_free (&S); return; } if (mode == RO_CA) pixman_image_set_component_alpha (M.img, 1); }
    }
    /* the source through an affine transform (2x enlargement, NEAREST): the general and the specialised affine fetchers skip pixels the mask makes
     * irrelevant - with a component-alpha mask that is a per-channel matter */
    if (!shared_pair && !S.solid && S.w > 1 && !exhaustive_alpha && vf_chance (r, 1, 5)) { pixman_transform_t t2; pixman_transform_init_identity (&t2); t2.matrix[0][0] = 0x8000; pixman_image_set_transform (S.img, &t2); S.xdiv = 2; vf_count ("transformed_sources", 1); }
    if (!operand_make (&D, r, df, n, 0, premult)) { operand_free (&S); if (mode != RO_NOMASK) operand_free (&M); return; }
    if (exhaustive_alpha) {
        /* all 256 source alphas in this row x destination alpha = case-derived value; colours from a 32x32 lattice */
        int da = (int)((idx / 42) % 256); long variant = idx / (42 * 256);
        uint32_t *sp = (uint32_t *)vf_buf_row (&S.buf, 0), *dp = (uint32_t *)vf_buf_row (&D.buf, 0);
        for (int x = 0; x < 256; x++) {
            unsigned sc = (unsigned)(((x & 31) * 8 + (variant & 7)) & 0xff), dc = (unsigned)((variant * 8 + (x >> 5) * 37 + (x & 3)) & 0xff);
            sp[x] = (uint32_t)x << 24 | sc << 16 | ((sc * 3) & 0xff) << 8 | (255 - sc);
            dp[x] = (uint32_t)da << 24 | dc << 16 | ((dc * 5) & 0xff) << 8 | (255 - dc);
        }
    }
    /* a repeat mode on the destination changes nothing about what is drawn (it only lets an alpha-less destination be flagged opaque, which
     * selects the 'destination opaque' column of the operator reductions) */
    if (vf_chance (r, 1, 4)) { pixman_image_set_repeat (D.img, VF_PICK (r, ((pixman_repeat_t[]){ PIXMAN_REPEAT_NORMAL, PIXMAN_REPEAT_PAD, PIXMAN_REPEAT_REFLECT }))); vf_count ("destinations_with_a_repeat_mode", 1); }
    vf_buf_snapshot (&D.buf);
    char shd[96]; shd[0] = 0; if (shared_pair) snprintf (shd, sizeof shd, " [one buffer: source view at (%d,%d), mask view at (%d,%d)]", S.xo, S.yo, M.xo, M.yo);
    vf_case_desc ("op=%s mask=%s src=%s%s mask_fmt=%s%s dst=%s n=%d chain='%s'%s", ro_op_name (op), mode_name[mode], rp_name (sf), skind == 1 ? "(solid)" : skind == 2 ? "(1x1 repeat)" : "",
                  mode ? rp_name (mf) : "-", mkind == 1 ? "(solid)" : mkind == 2 ? "(1x1 repeat)" : "", rp_name (df), n, vf_chain_env (), shd);
    vf_inflight ("composite32 op=%s mask=%s src=%s mask_fmt=%s dst=%s n=%d", ro_op_name (op), mode_name[mode], rp_name (sf), mode ? rp_name (mf) : "-", rp_name (df), n);
    pixman_image_composite32 (op, S.img, mode ? M.img : NULL, D.img, S.xo, S.yo, M.xo, M.yo, 0, 0, n, 1);
    if (shared_pair) { vf_count (S.xo == M.xo && S.yo == M.yo ? "shared_storage_pairs_same_offsets" : "shared_storage_pairs_different_offsets", 1); }

    const char *oracle = exact ? "exact" : narrow ? "int-blend" : "float";
    vf_label ("op_mode_oracle", "%s/%s/%s", ro_op_name (op), mode_name[mode], oracle);
    int dmax[4]; rp_channel_max (df, dmax);
    int dsh[4], dbits[4]; if (!rp_is_float (df)) rp_layout (df, dsh, dbits);
    uint32_t defined = rp_is_float (df) ? 0 : rp_defined_mask (df);
    long npx = 0; int reported = 0; double maxdev = 0;
    /* A unified mask of an alpha-less wide format has no effect on the result; the library may drop it (and then run the
     * 8-bit pipeline when source and destination are narrow) or keep it (float pipeline).  Both are admissible: the case is
     * judged under both readings and reported only if it fits neither. */
    int alt = mode == RO_UNIFIED && rp_is_wide (mf) && !rp_is_wide (df) && !rp_is_wide (sf) && PIXMAN_FORMAT_A (mf) == 0;
    static char dkey[2][128], dmsg[2][700]; int failed[2] = { 0, 0 };
#define DEFER(k, ...) do { snprintf (dkey[pass], sizeof dkey[pass], "%s", k); snprintf (dmsg[pass], sizeof dmsg[pass], __VA_ARGS__); failed[pass] = 1; } while (0)
    for (int pass = 0; pass < 1 + alt; pass++) {
    int pmode = pass ? RO_NOMASK : mode;
    int pnarrow = pass ? !ro_needs_float (op) : narrow, pall = pass ? 1 : all_narrow_fmt, pexact = pass ? (pnarrow && ro_is_exact_op (op)) : exact;
    reported = 0; if (pass) npx = 0;
    for (int x = 0; x < n && !reported; x++) {
        uint8_t s8[4], m8[4] = { 255, 255, 255, 255 }, d8[4];
        npx++;
        if (pexact) {
            operand_px8 (&S, x, s8); if (pmode) operand_px8 (&M, x, m8);
            rp_decode8 (df, vf_get_px (vf_buf_snaprow (&D.buf, 0), D.buf.bpp, x), d8);
            uint8_t e8[4]; ro_exact8 (op, pmode, s8, m8, d8, e8);
            uint32_t want = rp_encode8 (df, e8), got = vf_get_px (vf_buf_row (&D.buf, 0), D.buf.bpp, x);
            int edge = (s8[0] == 0) + 2 * (s8[0] == 255) + 4 * (d8[0] == 0) + 8 * (d8[0] == 255) + 16 * (m8[0] == 0) + 32 * (m8[0] == 255);
            if (x < 4) vf_cell ("cells", vf_mix (vf_mix (op * 4 + pmode, (uint32_t)df), vf_mix ((uint32_t)sf ^ ((uint32_t)mf << 1), edge + 64 * (skind + 3 * mkind))));
            if ((want ^ got) & defined) {
                char key[128]; snprintf (key, sizeof key, "C01:exact-mismatch:%s:%s", ro_op_name (op), mode_name[mode]);
                DEFER (key, "pixel %d: src=%02x%02x%02x%02x mask=%02x%02x%02x%02x dst=%02x%02x%02x%02x (a,r,g,b) -> got raw %08x, exact rule gives %08x (argb %02x%02x%02x%02x), defined bits %08x",
                              x, s8[0], s8[1], s8[2], s8[3], m8[0], m8[1], m8[2], m8[3], d8[0], d8[1], d8[2], d8[3], got, want, e8[0], e8[1], e8[2], e8[3], defined);
                reported = 1;
            }
        } else {
            double sf_[4], mf_[4] = { 1, 1, 1, 1 }, df_[4], lo[4], hi[4], int_reduce_slack = 0;
            if (pnarrow) {
                /* integer-evaluated blend modes: the staging of the pexact rule (8-bit pre-masked source) */
                operand_px8 (&S, x, s8); if (pmode) operand_px8 (&M, x, m8);
                rp_decode8 (df, vf_get_px (vf_buf_snaprow (&D.buf, 0), D.buf.bpp, x), d8);
                uint8_t sp[4], sac[4];
                for (int c = 0; c < 4; c++) {
                    sp[c] = pmode == RO_NOMASK ? s8[c] : (uint8_t)ro_mul8 (s8[c], pmode == RO_UNIFIED ? m8[0] : m8[c]);
                    sac[c] = pmode == RO_NOMASK ? s8[0] : (uint8_t)ro_mul8 (s8[0], pmode == RO_UNIFIED ? m8[0] : m8[c]);
                }
                /* evaluate per channel with the pre-masked source and its per-channel alpha: done by a CA evaluation with mask = identity */
                for (int c = 0; c < 4; c++) { df_[c] = d8[c] / 255.0; }
                double one[4] = { 1, 1, 1, 1 };
                for (int c = 0; c < 4; c++) {
                    double s1[4] = { sac[c] / 255.0, sp[c] / 255.0, sp[c] / 255.0, sp[c] / 255.0 }, l1[4], h1[4];
                    if (c == 0) s1[1] = s1[2] = s1[3] = sac[0] / 255.0;
                    ro_real (op, RO_NOMASK, s1, one, (double[4]){ df_[0], df_[c ? c : 1], df_[c ? c : 1], df_[c ? c : 1] }, l1, h1);
                    lo[c] = l1[c ? 1 : 0]; hi[c] = h1[c ? 1 : 0];
                }
            } else {
                operand_pxf (&S, x, sf_); if (pmode) operand_pxf (&M, x, mf_);
                rp_decodef_row (df, vf_buf_snaprow (&D.buf, 0), x, df_);
                ro_real (op, pmode, sf_, mf_, df_, lo, hi);
                if (pall) {
                    /* a float-class operator on pnarrow formats may legitimately be strength-reduced to an integer operator
                     * (e.g. DISJOINT_SRC -> SRC, SATURATE with an opaque source -> OVER_REVERSE); the integer pipeline
                     * reads an n-bit field by bit replication, the float pipeline as v/(2^n-1).  Both readings are admissible. */
                    double s2[4], m2[4] = { 1, 1, 1, 1 }, d2[4], l2[4], h2[4];
                    operand_px8 (&S, x, s8); if (pmode) operand_px8 (&M, x, m8);
                    rp_decode8 (df, vf_get_px (vf_buf_snaprow (&D.buf, 0), D.buf.bpp, x), d8);
                    for (int c = 0; c < 4; c++) { s2[c] = s8[c] / 255.0; m2[c] = m8[c] / 255.0; d2[c] = d8[c] / 255.0; }
                    ro_real (op, pmode, s2, m2, d2, l2, h2);
                    for (int c = 0; c < 4; c++) { if (l2[c] < lo[c]) lo[c] = l2[c]; if (h2[c] > hi[c]) hi[c] = h2[c]; }
                    int_reduce_slack = 0.5;     /* an integer route rounds to nearest after its own staging */
                }
            }
            if (x < 4) vf_cell ("cells", vf_mix (vf_mix (op * 4 + pmode, (uint32_t)df), vf_mix ((uint32_t)sf ^ ((uint32_t)mf << 1), 7 + pnarrow + 64 * (skind + 3 * mkind))));
            if (rp_is_float (df)) {
                double got[4]; rp_decodef_row (df, vf_buf_row (&D.buf, 0), x, got);
                int nch = PIXMAN_FORMAT_BPP (df) == 128 ? 4 : 3;
                for (int c = 0; c < 4; c++) {
                    if (c == 0 && nch == 3) continue;
                    double l = lo[c] < 0 ? 0 : lo[c], h = hi[c] > 1 ? 1 : hi[c];
                    double tol = 1.0 / 4096;
                    if (!(got[c] >= l - tol && got[c] <= h + tol)) {
                        char key[128]; snprintf (key, sizeof key, "C01:float-mismatch:%s:%s", ro_op_name (op), mode_name[mode]);
                        DEFER (key, "pixel %d channel %d: got %.6f, equations give [%.6f,%.6f] (src a=%.4f, dst a=%.4f)", x, c, got[c], l, h, sf_[0], df_[0]);
                        reported = 1; break;
                    }
                }
            } else {
                uint32_t got = vf_get_px (vf_buf_row (&D.buf, 0), D.buf.bpp, x); uint32_t gch[4]; rp_raw_channels (df, got, gch);
                for (int c = 0; c < 4; c++) {
                    if (!dmax[c]) continue;
                    double l = lo[c] < 0 ? 0 : lo[c] > 1 ? 1 : lo[c], h = hi[c] > 1 ? 1 : hi[c] < 0 ? 0 : hi[c];
                    if (rp_is_srgb (df) && c > 0) { l = rp_linear_to_srgb (l); h = rp_linear_to_srgb (h); }
                    double M = dmax[c], tolsteps = pnarrow ? 1.5 : 1.0 + int_reduce_slack, delta = M / 262144.0 + 1e-6;
                    double kl, kh;
                    if (pnarrow && dbits[c] < 8) {
                        /* integer pipeline: judged in the 8-bit domain, then truncated to the destination's bits */
                        double l8 = ceil (l * 255 - tolsteps - delta), h8 = floor (h * 255 + tolsteps + delta); int shn = 8 - dbits[c];
                        if (l8 < 0) l8 = 0;
                        if (h8 > 255) h8 = 255;
                        kl = floor (l8 / (1 << shn)); kh = floor (h8 / (1 << shn));
                    } else { kl = l * M - tolsteps - delta; kh = h * M + tolsteps + delta; }
                    double dev = gch[c] < kl ? kl - gch[c] : gch[c] > kh ? gch[c] - kh : 0;
                    if (dev > maxdev) maxdev = dev;
                    if (dev > 0) {
                        char key[128];
                        int hslu = ro_is_hsl (op) && pmode == RO_UNIFIED;
                        snprintf (key, sizeof key, "C01:%s-mismatch:%s:%s%s", pnarrow ? "int-blend" : "float", ro_op_name (op), mode_name[mode], hslu ? (c == 2 ? ":green" : c == 3 ? ":blue" : "") : "");
                        DEFER (key, "pixel %d channel %d (0=a,1=r,2=g,3=b): got %u of %d, equations give [%.4f,%.4f] -> admissible [%.3f,%.3f]; src=(%.4f %.4f %.4f %.4f) mask=(%.4f %.4f %.4f %.4f) dst=(%.4f %.4f %.4f %.4f)",
                                      x, c, gch[c], dmax[c], lo[c], hi[c], kl, kh, pnarrow ? s8[0] / 255.0 : sf_[0], pnarrow ? s8[1] / 255.0 : sf_[1], pnarrow ? s8[2] / 255.0 : sf_[2], pnarrow ? s8[3] / 255.0 : sf_[3],
                                      pnarrow ? m8[0] / 255.0 : mf_[0], pnarrow ? m8[1] / 255.0 : mf_[1], pnarrow ? m8[2] / 255.0 : mf_[2], pnarrow ? m8[3] / 255.0 : mf_[3], df_[0], df_[1], df_[2], df_[3]);
                        reported = 1; break;
                    }
                }
            }
        }
    }
    }
    if (failed[0] && (!alt || failed[1])) vf_violation (dkey[0], "%s%s", dmsg[0], alt ? " [also outside the reading in which the opaque wide mask is dropped]" : "");
    if (alt) vf_count (failed[0] && !failed[1] ? "opaque_wide_mask_cases_fitting_only_the_dropped_reading" : "opaque_wide_mask_cases", 1);
    vf_count ("evaluations", npx);
    vf_count (exact ? "pixels_exact" : narrow ? "pixels_int_blend" : "pixels_float", npx);
    if (idx < 4) vf_sample ("op=%s mask=%s src=%s%s mask_fmt=%s dst=%s n=%d oracle=%s", ro_op_name (op), mode_name[mode], rp_name (sf), skind == 1 ? "(solid)" : skind == 2 ? "(1x1 repeat)" : "", mode ? rp_name (mf) : "-", rp_name (df), n, oracle);
    operand_free (&S); if (mode != RO_NOMASK) operand_free (&M); operand_free (&D);
}

int main (int argc, char **argv) { return vf_main (argc, argv, "C01", init, c01_case, NULL); }
