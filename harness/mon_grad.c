/* Monitor for C13: gradient sources against a reference that locates the parameter t from the
 * geometry (long double), applies the repeat mode, interpolates the neighbouring stops in
 * non-premultiplied space and premultiplies.  Colour is discontinuous in t at repeated stops and
 * repeat seams and admissibility is discontinuous in the geometry, so the reference returns a hull
 * over the uncertainty of t and skips pixels whose admissible-root set is ill-conditioned.
 * Degenerate inputs are only checked for safety (crash / hang / sanitizer report). */
#include "vf.h"
#include "ref_pixel.h"
#include <math.h>

typedef struct { int n; pixman_gradient_stop_t s[10]; int repeat; } stops_t;

/* non-premultiplied interpolation at 16.16 position x (after the repeat map), premultiplied result a,r,g,b in [0,1] */
static void stop_colour (const pixman_color_t *c, double o[4]) { o[0] = c->alpha / 65535.0; o[1] = c->red / 65535.0; o[2] = c->green / 65535.0; o[3] = c->blue / 65535.0; }
static void colour_at (const stops_t *g, int64_t x, double out[4])
{
    int n = g->n; const pixman_gradient_stop_t *s = g->s;
    double L[4], R[4]; int64_t lx, rx; int have = 0;
    int64_t xx = x;
    out[0] = out[1] = out[2] = out[3] = 0;
    if (g->repeat == PIXMAN_REPEAT_NONE) { if (x < s[0].x || x >= s[n - 1].x) return; }
    else if (g->repeat == PIXMAN_REPEAT_PAD) {
        if (x < s[0].x) { stop_colour (&s[0].color, L); have = 2; }
        else if (x >= s[n - 1].x) { stop_colour (&s[n - 1].color, L); have = 2; }
    } else if (g->repeat == PIXMAN_REPEAT_NORMAL) { xx = ((x % 65536) + 65536) % 65536; }
    else { int64_t m = ((x % 131072) + 131072) % 131072; xx = m < 65536 ? m : 131072 - m; }
    if (have == 2) { out[0] = L[0]; for (int c = 1; c < 4; c++) out[c] = L[c] * L[0]; return; }
    /* neighbouring stops of xx: the last stop with position <= xx (the later one wins at equal positions) and the next one;
     * across the ends the list continues periodically (NORMAL) or mirrored (REFLECT: same stop on both sides) */
    int li = -1; for (int i = 0; i < n; i++) if (s[i].x <= xx) li = i;
    if (li >= 0) { stop_colour (&s[li].color, L); lx = s[li].x; }
    else if (g->repeat == PIXMAN_REPEAT_NORMAL) { stop_colour (&s[n - 1].color, L); lx = (int64_t)s[n - 1].x - 65536; }
    else { stop_colour (&s[0].color, L); lx = -(int64_t)s[0].x; }                          /* REFLECT: mirror image of the first stop */
    if (li + 1 < n) { stop_colour (&s[li + 1].color, R); rx = s[li + 1].x; }
    else if (g->repeat == PIXMAN_REPEAT_NORMAL) { stop_colour (&s[0].color, R); rx = (int64_t)s[0].x + 65536; }
    else { stop_colour (&s[n - 1].color, R); rx = 131072 - (int64_t)s[n - 1].x; }         /* REFLECT: mirror image of the last stop */
    double w = rx > lx ? (double)(xx - lx) / (double)(rx - lx) : 0.0;
    if (rx == lx) w = 0.5;
    double np[4]; for (int c = 0; c < 4; c++) np[c] = L[c] + (R[c] - L[c]) * w;
    out[0] = np[0]; for (int c = 1; c < 4; c++) out[c] = np[c] * np[0];
}
/* hull of the colour over the integer positions [xlo,xhi] (the function is piecewise linear in between) */
static void colour_hull (const stops_t *g, int64_t xlo, int64_t xhi, double lo[4], double hi[4])
{
    for (int c = 0; c < 4; c++) { lo[c] = 2; hi[c] = -1; }
    for (int64_t x = xlo; x <= xhi; x++) { double o[4]; colour_at (g, x, o); for (int c = 0; c < 4; c++) { if (o[c] < lo[c]) lo[c] = o[c]; if (o[c] > hi[c]) hi[c] = o[c]; } }
    /* mirrored periods evaluate their segments from the other side: include the neighbouring unit on both ends */
}

typedef struct { int kind; pixman_point_fixed_t p1, p2; pixman_fixed_t r1, r2, angle; } geom_t;   /* kind 0 linear 1 radial 2 conical */

/* parameter t (in 16.16 units, long double) at source-space point (X,Y) in pixels; returns 0 if no admissible t; *ill = ill-conditioned */
static int param_at (const geom_t *g, int repeat, long double X, long double Y, long double *t, int *ill)
{
    *ill = 0;
    if (g->kind == 0) {
        long double dx = (g->p2.x - (long double)g->p1.x) / 65536, dy = (g->p2.y - (long double)g->p1.y) / 65536, l = dx * dx + dy * dy;
        if (l == 0) { *ill = 1; return 0; }
        *t = ((X - g->p1.x / 65536.0L) * dx + (Y - g->p1.y / 65536.0L) * dy) / l * 65536; return 1;
    }
    if (g->kind == 2) {
        long double x = X - g->p1.x / 65536.0L, y = Y - g->p1.y / 65536.0L;
        if (fabsl (x) < 1e-6L && fabsl (y) < 1e-6L) { *ill = 1; return 0; }
        long double a = atan2l (y, x) + (g->angle / 65536.0L) * M_PI / 180.0L, two_pi = 2 * (long double)M_PI;
        a = fmodl (a, two_pi); if (a < 0) a += two_pi;
        long double tt = 1 - a / two_pi;
        if (tt < 2e-5L || tt > 1 - 2e-5L) *ill = 1;      /* the seam of the angle */
        *t = tt * 65536; return 1;
    }
    /* radial: circles c(t) = c1 + t (c2 - c1), r(t) = r1 + t (r2 - r1); the larger t with r(t) >= 0 (and 0 <= t <= 1 without repeat) */
    long double cdx = (g->p2.x - (long double)g->p1.x) / 65536, cdy = (g->p2.y - (long double)g->p1.y) / 65536, r1 = g->r1 / 65536.0L, dr = (g->r2 - (long double)g->r1) / 65536;
    long double pdx = X - g->p1.x / 65536.0L, pdy = Y - g->p1.y / 65536.0L;
    long double a = cdx * cdx + cdy * cdy - dr * dr, b = pdx * cdx + pdy * cdy + r1 * dr, c = pdx * pdx + pdy * pdy - r1 * r1;
    long double roots[2]; int nr = 0;
    long double scale = fabsl (b) + fabsl (a) + fabsl (c) + 1e-30L;
    if (fabsl (a) < 1e-12L * scale || a == 0) {
        if (a != 0) { *ill = 1; return 0; }
        if (fabsl (b) < 1e-12L * scale) { *ill = b != 0; return 0; }
        roots[nr++] = c / (2 * b);
    } else {
        long double disc = b * b - a * c;
        if (fabsl (disc) < 1e-9L * (b * b + fabsl (a * c) + 1e-30L)) { *ill = 1; return 0; }
        if (disc < 0) return 0;
        long double sq = sqrtl (disc); long double t0 = (b + sq) / a, t1 = (b - sq) / a;
        if (t0 >= t1) { roots[0] = t0; roots[1] = t1; } else { roots[0] = t1; roots[1] = t0; } nr = 2;
    }
    for (int i = 0; i < nr; i++) {
        long double tt = roots[i], rad = r1 + tt * dr;
        int ok = repeat == PIXMAN_REPEAT_NONE ? (tt >= 0 && tt <= 1) : (rad >= 0);
        /* close to the admissibility boundary: not judged */
        if (repeat == PIXMAN_REPEAT_NONE ? (fabsl (tt) < 1e-4L || fabsl (tt - 1) < 1e-4L) : (fabsl (rad) < 1e-6L * (fabsl (r1) + fabsl (tt * dr) + 1e-9L))) { *ill = 1; return 0; }
        if (ok) { *t = tt * 65536; return 1; }
    }
    return 0;
}

static pixman_fixed_t frand (vf_rng *r, double lo, double hi) { return (pixman_fixed_t)((lo + (hi - lo) * vf_unit (r)) * 65536.0); }

static void gen_stops (vf_rng *r, stops_t *g, int degenerate)
{
    g->n = (int)vf_range (r, 1, 8);
    double pos = vf_chance (r, 1, 2) ? 0 : vf_unit (r) * 0.4;
    for (int i = 0; i < g->n; i++) {
        if (i) pos += vf_chance (r, 1, 4) ? 0 : vf_unit (r) * (1.0 - pos) * 0.8;
        if (i == g->n - 1 && vf_chance (r, 1, 2)) pos = 1.0;
        g->s[i].x = (pixman_fixed_t)(pos * 65536);
        g->s[i].color.red = (uint16_t)vf_next (r); g->s[i].color.green = (uint16_t)vf_next (r); g->s[i].color.blue = (uint16_t)vf_next (r);
        g->s[i].color.alpha = vf_chance (r, 1, 2) ? 0xffff : vf_chance (r, 1, 6) ? 0 : (uint16_t)vf_next (r);
    }
    if (degenerate) for (int i = 0; i < g->n; i++) if (vf_chance (r, 1, 3)) g->s[i].x = (pixman_fixed_t)vf_range (r, -3 * 65536, 4 * 65536);   /* unsorted / out of range */
    g->repeat = (int)(vf_next (r) % 4);
}

static void grad_case (long idx, vf_rng *r)
{
    int degenerate = !strcmp (vf.config, "degenerate") || (idx % 8) == 7;
    stops_t st; gen_stops (r, &st, degenerate);
    geom_t g; g.kind = (int)(vf_next (r) % 3); int touching = 0;
    g.p1.x = frand (r, -10, 40); g.p1.y = frand (r, -6, 14); g.p2.x = frand (r, -10, 50); g.p2.y = frand (r, -6, 14);
    g.r1 = frand (r, 0, 12); g.r2 = frand (r, 0, 40); g.angle = frand (r, -400, 400);
    if (vf_chance (r, 1, 4)) { g.p1.x &= ~0xffff; g.p1.y &= ~0xffff; g.p2.x &= ~0xffff; g.p2.y &= ~0xffff; }
    if (g.kind == 1 && vf_chance (r, 1, 3)) { g.p2 = g.p1; }                 /* concentric */
    if (g.kind == 0 && vf_chance (r, 1, 8)) { g.p2.x = g.p1.x + (pixman_fixed_t)vf_range (r, -300, 300); g.p2.y = g.p1.y + (pixman_fixed_t)vf_range (r, 1, 300); }   /* sub-pixel gradient vector: |t| becomes huge */
    if (g.kind == 1 && vf_chance (r, 1, 10)) { g.p2 = g.p1; g.r2 = g.r1 + (pixman_fixed_t)vf_range (r, 1, 200); }
    if (g.kind == 1 && vf_chance (r, 1, 6)) g.r1 = 0;
    /* circles that touch internally: |c2 - c1| == |r2 - r1| exactly, so the quadratic degenerates to a linear equation (a == 0) */
    if (g.kind == 1 && !degenerate && vf_chance (r, 1, 6)) {
        static const int tri[][3] = { { 1, 0, 1 }, { 0, 1, 1 }, { 3, 4, 5 }, { 4, 3, 5 }, { -1, 0, 1 }, { 0, -1, 1 }, { -3, 4, 5 }, { 5, 12, 13 } }; const int *t3 = tri[vf_next (r) % 8];
        pixman_fixed_t k = (pixman_fixed_t)vf_range (r, 1, 8 * 65536) ; if (vf_chance (r, 1, 2)) k &= ~0xffff; if (k == 0) k = 65536;
        g.r1 = vf_chance (r, 1, 5) ? 0 : frand (r, 0.5, 12);
        g.p2.x = g.p1.x + t3[0] * k; g.p2.y = g.p1.y + t3[1] * k; g.r2 = g.r1 + t3[2] * k;
        if (vf_chance (r, 1, 4)) { pixman_fixed_t tmp = g.r1; g.r1 = g.r2; g.r2 = tmp; pixman_point_fixed_t tp = g.p1; g.p1 = g.p2; g.p2 = tp; }     /* shrinking instead of growing */
        touching = 1;
    }
    /* a long row across which t advances by less than 1/65536 per pixel but by many colour steps in total (nearly vertical gradient vector) */
    int long_row = 0;
    if (g.kind == 0 && !degenerate && vf_chance (r, 1, 10)) { g.p2.x = g.p1.x + (pixman_fixed_t)vf_range (r, -3 * 65536, 3 * 65536); g.p2.y = g.p1.y + (vf_chance (r, 1, 2) ? 1 : -1) * frand (r, 150, 500); long_row = 1; }
    /* a horizontal gradient on the half-pixel grid with a power-of-two length and stops at multiples of 1/length: every pixel centre has an EXACT t that
     * is a stop position (hard steps where two stops share one, the first and the last stop, the wrap of a repeating gradient) */
    int exact = 0, ex_a = 0, ex_L = 1;
    if (g.kind == 0 && !degenerate && !long_row && vf_chance (r, 1, 8)) {
        exact = 1; ex_L = 1 << (int)vf_range (r, 2, 5); ex_a = (int)vf_range (r, -3, 6);
        g.p1.x = pixman_int_to_fixed (ex_a) + 0x8000; g.p2.x = g.p1.x + pixman_int_to_fixed (ex_L); g.p2.y = g.p1.y;
        int kpos = vf_chance (r, 1, 2) ? 0 : (int)vf_range (r, 0, ex_L / 2);
        for (int i = 0; i < st.n; i++) { if (i) kpos += vf_chance (r, 1, 3) ? 0 : (int)vf_range (r, 1, ex_L / 2); if (kpos > ex_L) kpos = ex_L; if (i == st.n - 1 && vf_chance (r, 1, 2)) kpos = ex_L; st.s[i].x = (pixman_fixed_t)((int64_t)kpos * 65536 / ex_L); }
        vf_count ("linear_exact_parameter_cases", 1);
    }
    /* circles whose centre is more than 16384 pixels away from the pixels that are drawn, with radii to match (the drawn pixels lie between the circles) */
    int far_centre = 0;
    if (g.kind == 1 && !degenerate && !touching && vf_chance (r, 1, 8)) {
        int D = (int)vf_range (r, 16390, 30000), along_y = vf_chance (r, 1, 4), neg = vf_chance (r, 1, 2);
        g.p1.x = along_y ? frand (r, -5, 30) : pixman_int_to_fixed (neg ? -D : D); g.p1.y = along_y ? pixman_int_to_fixed (neg ? -D : D) : frand (r, -5, 10);
        g.p2 = g.p1; if (vf_chance (r, 1, 2)) { g.p2.x += frand (r, -3, 3); g.p2.y += frand (r, -3, 3); }
        g.r1 = pixman_int_to_fixed (D - (int)vf_range (r, 5, 40)); g.r2 = g.r1 + frand (r, 20, 120);
        far_centre = 1;
    }
    if (degenerate) {
        switch (vf_next (r) % 6) { case 0: g.p2 = g.p1; break; case 1: g.r1 = g.r2 = 0; break; case 2: g.r2 = g.r1; g.p2 = g.p1; break; case 3: g.r1 = (pixman_fixed_t)vf_u32 (r); break;
        case 4: g.p1.x = (pixman_fixed_t)vf_u32 (r); g.p2.y = (pixman_fixed_t)vf_u32 (r); break; default: g.r2 = g.r1; break; }
    }
    pixman_image_t *src = g.kind == 0 ? pixman_image_create_linear_gradient (&g.p1, &g.p2, st.s, st.n) : g.kind == 1 ? pixman_image_create_radial_gradient (&g.p1, &g.p2, g.r1, g.r2, st.s, st.n)
                                      : pixman_image_create_conical_gradient (&g.p1, g.angle, st.s, st.n);
    if (!src) return;
    pixman_image_set_repeat (src, st.repeat);
    pixman_transform_t tr; int tk = (int)(vf_next (r) % 6); pixman_transform_init_identity (&tr);
    if (tk == 1) { tr.matrix[0][2] = frand (r, -5, 5); tr.matrix[1][2] = frand (r, -5, 5); }
    if (tk == 2) { tr.matrix[0][0] = frand (r, 0.2, 3); tr.matrix[1][1] = frand (r, 0.2, 3); tr.matrix[0][1] = frand (r, -1, 1); tr.matrix[1][0] = frand (r, -1, 1); tr.matrix[0][2] = frand (r, -5, 5); }
    if (tk == 3) { tr.matrix[0][0] = frand (r, 0.5, 1.5); tr.matrix[1][1] = frand (r, 0.5, 1.5); tr.matrix[2][0] = (pixman_fixed_t)vf_range (r, -400, 400); tr.matrix[2][1] = (pixman_fixed_t)vf_range (r, -400, 400); tr.matrix[2][2] = frand (r, 0.7, 1.6); }
    if (tk == 5) { /* bottom row (0,0,w): the same mapping as the affine matrix divided by w */
        tr.matrix[0][0] = frand (r, 0.3, 2); tr.matrix[1][1] = frand (r, 0.3, 2); tr.matrix[0][1] = frand (r, -0.5, 0.5); tr.matrix[0][2] = frand (r, -4, 4); tr.matrix[1][2] = frand (r, -4, 4);
        static const double ws[] = { 0.5, 2.0, 0.25, 1.5, 3.0 }; tr.matrix[2][2] = (pixman_fixed_t)(VF_PICK (r, ws) * 65536); }
    if (degenerate && vf_chance (r, 1, 3)) { for (int i = 0; i < 3; i++) for (int j = 0; j < 3; j++) tr.matrix[i][j] = vf_chance (r, 1, 3) ? 0 : (pixman_fixed_t)vf_u32 (r); tk = 4; }   /* singular / wild */
    if (tk) pixman_image_set_transform (src, &tr);
    if (exact && tk) { tk = 0; pixman_image_set_transform (src, NULL); }
    if (far_centre && tk >= 2) { tk = vf_chance (r, 1, 2); pixman_transform_init_identity (&tr); if (tk) { tr.matrix[0][2] = frand (r, -5, 5); tr.matrix[1][2] = frand (r, -5, 5); pixman_image_set_transform (src, &tr); } else pixman_image_set_transform (src, NULL); }
    if (far_centre) vf_count ("radial_far_centres", 1);
    int wide = vf_chance (r, 1, 4);
    int w = (int)vf_range (r, 1, 48), h = (int)vf_range (r, 1, 5);
    if (long_row) { w = (int)vf_range (r, 700, 4000); h = (int)vf_range (r, 1, 2); if (tk >= 2) { tk = 0; pixman_image_set_transform (src, NULL); } }
    vf_buf D; if (!vf_buf_alloc (&D, wide ? PIXMAN_rgba_float : PIXMAN_a8r8g8b8, w, h, 0, 0, vf_default_place (r))) { pixman_image_unref (src); return; }
    memset (D.base, 0x5a, D.bytes);
    pixman_image_t *dst = vf_buf_image (&D);
    int sx = (int)vf_range (r, -4, 6), sy = (int)vf_range (r, -3, 3);
    static const char *kn[] = { "linear", "radial", "conical" };
    char sd[400]; int k = 0; for (int i = 0; i < st.n; i++) k += snprintf (sd + k, sizeof sd - k, "%x:%04x/%04x/%04x/%04x ", (unsigned)st.s[i].x, st.s[i].color.alpha, st.s[i].color.red, st.s[i].color.green, st.s[i].color.blue);
    vf_case_desc ("%s p1=(%x,%x) p2=(%x,%x) r1=%x r2=%x angle=%x repeat=%d stops=[%s] transform=%d[%x %x %x;%x %x %x;%x %x %x] src_xy=(%d,%d) dst=%s %dx%d%s", kn[g.kind], (unsigned)g.p1.x, (unsigned)g.p1.y, (unsigned)g.p2.x, (unsigned)g.p2.y,
                  (unsigned)g.r1, (unsigned)g.r2, (unsigned)g.angle, st.repeat, sd, tk, (unsigned)tr.matrix[0][0], (unsigned)tr.matrix[0][1], (unsigned)tr.matrix[0][2], (unsigned)tr.matrix[1][0], (unsigned)tr.matrix[1][1], (unsigned)tr.matrix[1][2],
                  (unsigned)tr.matrix[2][0], (unsigned)tr.matrix[2][1], (unsigned)tr.matrix[2][2], sx, sy, wide ? "rgba_float" : "a8r8g8b8", w, h, degenerate ? " (degenerate)" : "");
    vf_inflight ("%s gradient repeat=%d stops=%d transform=%d dst=%s %dx%d%s", kn[g.kind], st.repeat, st.n, tk, wide ? "rgba_float" : "a8r8g8b8", w, h, degenerate ? " (degenerate)" : "");
    /* a third of the regular cases draw with OVER onto the non-blank destination: where the gradient is not defined (no admissible t) the
     * destination must survive - a gradient wrongly taken for opaque would be drawn with SRC instead and wipe it */
    int use_over = !degenerate && vf_chance (r, 1, 3);
    if (use_over && wide) { float *fp = (float *)D.base; for (size_t i = 0; i < D.bytes / 4; i++) fp[i] = 0.5f; }      /* a representable background (the 0x5a filler is not a float in [0,1]) */
    /* a quarter of the SRC cases draw through an a8 mask made of runs of 0 and 255: the gradient fetchers are told which pixels the mask makes
     * irrelevant and may skip them - the pixels that are drawn must not depend on that */
    vf_buf MK; int masked = !use_over && !degenerate && w >= 4 && w <= 400 && vf_chance (r, 1, 4); pixman_image_t *mimg = NULL;
    if (masked && !vf_buf_alloc (&MK, PIXMAN_a8, w, h, 0, 0, VF_PLACE_END)) masked = 0;
    if (masked) { for (int y = 0; y < h; y++) { uint8_t *row = vf_buf_row (&MK, y); int x = 0; while (x < w) { int len = (int)vf_range (r, 1, 7), on = vf_chance (r, 1, 2); for (int i = 0; i < len && x < w; i++, x++) row[x] = on ? 0xff : 0; } }
        mimg = vf_buf_image (&MK); if (!mimg) { vf_buf_free (&MK); masked = 0; } else vf_count ("masked_cases", 1); }
    pixman_image_composite32 (use_over ? PIXMAN_OP_OVER : PIXMAN_OP_SRC, src, mimg, dst, sx, sy, 0, 0, 0, 0, w, h);
    if (use_over) vf_count ("over_cases", 1);
    vf_count (degenerate ? "degenerate_gradients" : "regular_gradients", 1); if (touching) vf_count ("radial_touching_circles", 1); if (long_row) vf_count ("linear_long_rows", 1);
    vf_label ("kind_repeat_transform", "%s/%d/%d%s", kn[g.kind], st.repeat, tk, degenerate ? "/degenerate" : "");
    if (!degenerate && !strcmp (vf.prop, "C13")) {
        long npx = 0, nskip = 0; int bad = 0;
        for (int y = 0; y < h && !bad; y++) for (int x = 0; x < w; x++) {
            if (masked && vf_buf_row (&MK, y)[x] == 0) { nskip++; continue; }      /* masked out: the destination is cleared, nothing of the gradient to judge */
            /* pixel centre through the transform */
            long double cx = x + sx + 0.5L, cy = y + sy + 0.5L, X, Y, posunc = 1.0L / 16384;
            if (tk) {
                long double nx = tr.matrix[0][0] / 65536.0L * cx + tr.matrix[0][1] / 65536.0L * cy + tr.matrix[0][2] / 65536.0L, ny = tr.matrix[1][0] / 65536.0L * cx + tr.matrix[1][1] / 65536.0L * cy + tr.matrix[1][2] / 65536.0L,
                            nw = tr.matrix[2][0] / 65536.0L * cx + tr.matrix[2][1] / 65536.0L * cy + tr.matrix[2][2] / 65536.0L;
                if (fabsl (nw) < 1e-3L) { nskip++; continue; }
                X = nx / nw; Y = ny / nw;
                if (tk == 3) posunc = (1.0L / 65536 + fabsl (X) / 65536 + fabsl (Y) / 65536) / fabsl (nw) + 1.0L / 16384;
            } else { X = cx; Y = cy; }
            /* t over the position uncertainty */
            long double tlo = 1e30L, thi = -1e30L; int ill = 0, some = 0, none = 0;
            for (int q = 0; q < 5; q++) {
                long double t; int il; long double ox = q == 1 || q == 2 ? posunc : q == 0 ? 0 : -posunc, oy = q == 1 || q == 3 ? posunc : q == 0 ? 0 : -posunc;
                int ok = param_at (&g, st.repeat, X + ox, Y + oy, &t, &il);
                if (il) ill = 1;
                if (ok) { some = 1; if (t < tlo) tlo = t; if (t > thi) thi = t; } else none = 1;
            }
            if (ill || (some && none)) { nskip++; continue; }
            npx++;
            double lo[4], hi[4];
            if (exact) { int64_t te = (int64_t)(x + sx - ex_a) * 65536 / ex_L; double o[4]; colour_at (&st, te, o); for (int c = 0; c < 4; c++) lo[c] = hi[c] = o[c]; tlo = thi = (long double)te; some = 1; vf_count ("pixels_with_exact_parameter", 1); }
            else if (!some) { for (int c = 0; c < 4; c++) lo[c] = hi[c] = 0; }
            else {
                int constant_zone = (st.repeat == PIXMAN_REPEAT_NONE || st.repeat == PIXMAN_REPEAT_PAD) &&
                                    ((thi + 4 < st.s[0].x && thi + 4 < 0) || (tlo - 4 >= st.s[st.n - 1].x && tlo - 4 > 65536)) && fabsl (tlo) < 9e17L && fabsl (thi) < 9e17L;
                if (constant_zone) { double o[4]; colour_at (&st, (int64_t)tlo, o); for (int c = 0; c < 4; c++) lo[c] = hi[c] = o[c]; vf_count ("pixels_far_outside_stop_range", 1); }   /* PAD colour / transparent, whatever |t| is */
                else {
                    if (fabsl (tlo) > 16 * 65536.0L || fabsl (thi) > 16 * 65536.0L || thi - tlo > 200) {
                        /* many repetitions out, or t known only loosely: for a repeating gradient the pixel must still lie in the hull of one whole period
                         * (in particular: opaque stops give an opaque pixel) */
                        if (st.repeat == PIXMAN_REPEAT_NORMAL || st.repeat == PIXMAN_REPEAT_REFLECT) { colour_hull (&st, -4, 65536 + 4, lo, hi); vf_count ("pixels_judged_against_a_whole_period", 1); }
                        else { nskip++; npx--; continue; }
                    }
                    else colour_hull (&st, (int64_t)floorl (tlo) - 4, (int64_t)ceill (thi) + 4, lo, hi);
                }
            }
            if (use_over) {
                /* only the pixels the gradient does not reach are judged: they keep the background */
                if (some) { npx--; nskip++; continue; }
                const float *fq = (const float *)vf_buf_row (&D, y) + 4 * x; int kept = wide ? (fq[0] == 0.5f && fq[1] == 0.5f && fq[2] == 0.5f && fq[3] == 0.5f) : vf_get_px (vf_buf_row (&D, y), 32, x) == 0x5a5a5a5au;
                vf_count ("over_pixels_outside_the_gradient", 1);
                if (!kept) { char key[96]; snprintf (key, sizeof key, "C13:%s:over-changes-pixel-where-no-admissible-t:%s", kn[g.kind], wide ? "wide" : "narrow");
                    vf_violation (key, "pixel (%d,%d): OVER changed the destination although the gradient has no admissible t there (repeat %d)", x, y, st.repeat); bad = 1; break; }
                continue;
            }
            double got[4];
            if (wide) { const float *p = (const float *)vf_buf_row (&D, y) + 4 * x; got[0] = p[3]; got[1] = p[0]; got[2] = p[1]; got[3] = p[2]; }
            else { uint32_t p = vf_get_px (vf_buf_row (&D, y), 32, x); got[0] = (p >> 24) / 255.0; got[1] = (p >> 16 & 255) / 255.0; got[2] = (p >> 8 & 255) / 255.0; got[3] = (p & 255) / 255.0; }
            double tol = 1.0 / 255 + 1e-4; if (wide) tol = 1.0 / 256;
            for (int c = 0; c < 4; c++) if (got[c] < lo[c] - tol || got[c] > hi[c] + tol) {
                char key[96]; snprintf (key, sizeof key, "C13:%s:%s:%s", kn[g.kind], !some ? "painted-where-no-admissible-t" : (got[0] == 0 && got[1] == 0 && lo[0] > tol) ? "transparent-where-t-exists" : "colour", wide ? "wide" : "narrow");
                vf_violation (key, "pixel (%d,%d) channel %d (0=a): got %.4f, reference gives [%.4f,%.4f] for t in [%.1f,%.1f]/65536 (repeat %d)", x, y, c, got[c], lo[c], hi[c], (double)tlo, (double)thi, st.repeat);
                bad = 1; break;
            }
            if (bad) break;
        }
        vf_count ("evaluations", npx); vf_count ("pixels_not_judged", nskip);
        vf_cell ("cells", vf_mix (vf_mix (g.kind * 8 + st.repeat, tk * 2 + wide), vf_mix (st.n, vf_hash (st.s, sizeof (pixman_gradient_stop_t) * st.n, 1))));
    } else vf_count ("evaluations", 1);
    if (idx < 3) vf_sample ("%s gradient, %d stops, repeat %d, transform class %d, %s destination %dx%d", kn[g.kind], st.n, st.repeat, tk, wide ? "rgba_float" : "a8r8g8b8", w, h);
    if (masked) { pixman_image_unref (mimg); vf_buf_free (&MK); }
    pixman_image_unref (src); pixman_image_unref (dst); vf_buf_free (&D);
}

int main (int argc, char **argv) { return vf_main (argc, argv, "C13", NULL, grad_case, NULL); }
