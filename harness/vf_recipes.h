/* Table-directed request synthesis shared by the drawing monitors: every entry of every implementation's fast-path and
 * iterator tables becomes a "recipe" from which requests satisfying the entry's operator, formats and flag words are built.
 * Reads the library's private tables for WORKLOAD GENERATION AND COVERAGE ONLY - never inside an oracle. */
#ifndef VF_RECIPES_H
#define VF_RECIPES_H
#include "config.h"
#include "pixman-private.h"
#include "vf.h"
#include "vf_req.h"
typedef struct { int imp; int is_iter; pixman_fast_path_t fp; pixman_iter_info_t it; int index; } recipe_t;
extern recipe_t *recipes; extern int n_recipes;
extern const char *imp_names[];
void collect (void);
void set_operand (vf_rng *r, rq_image *im, pixman_format_code_t fmt, uint32_t flags, int role, int *cover);
/* fills q (operator, operands, mask) from recipe rc; geometry is left to the caller; returns the "wants cover" hint */
int recipe_request (vf_rng *r, const recipe_t *rc, rq_request *q);
#endif
