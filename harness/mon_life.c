/* Monitor for C20 (history vs ownership model).  One case = one random program of create / ref / unref /
 * set_alpha_map / set_clip_region / set_transform / set_filter / set_destroy_function / use-in-a-composite /
 * glyph-cache insert+remove over a pool of images.  The model keeps, per image, the references the program
 * holds, the attachment edge to its alpha map and the number of holders that use it as a map; it predicts at
 * every call which images die in that call.  Oracles: unref returns TRUE exactly when the model says the
 * image dies; the destroy callback of an image runs exactly once, inside the call in which it dies, with the
 * registered data; an attachment is refused exactly when it would make a chain (or the map is not a bits
 * image); when every reference has been dropped no block allocated by the library during the program is
 * still live (allocation accounting wrapped at link time) and every image has died; AddressSanitizer (asan
 * flavour) watches for use after free / double free, helped by the program drawing with the pool images
 * (so maps, transforms, filter blocks and clips of live images are read) and by caller-owned pixel
 * buffers being freed in the destroy callback, as real clients do. */
#include "vf.h"
#include "vf_alloc.h"

#define MAXT 400
typedef struct ticket {
    pixman_image_t *img; int kind;       /* 0 bits (library storage) 1 bits (caller storage) 2 solid 3 linear 4 radial 5 conical */
    pixman_format_code_t fmt; int w, h;
    int user_refs, holders; struct ticket *map;
    int has_cb, cb_calls, cb_generation; int expected_dead, dead;
    uint32_t *caller_bits; int free_bits_in_cb;
    int id;
} ticket;
static ticket T[MAXT]; static int nT;
static ticket *pool[12]; static int npool;          /* tickets the program still holds a reference on */
static int in_call; static int bad_cb;  static char bad_cb_msg[200];
static int glyph_heavy;
static int broken;                                    /* a violation was reported: stop this history */
static char hist[6000]; static int hl;
static const char *kind_name[] = { "bits", "bits(caller storage)", "solid", "linear", "radial", "conical" };

#define LIB(stmt) do { in_call = 1; vf_alloc_begin (-1, 0); stmt; vf_alloc_end (); in_call = 0; } while (0)
static void H (const char *fmt, ...) { va_list ap; va_start (ap, fmt); if (hl < (int)sizeof hist - 80) hl += vsnprintf (hist + hl, sizeof hist - hl, fmt, ap); va_end (ap); vf_case_desc ("%s", hist); vf_inflight ("%s", hist); }
static void viol (const char *key, const char *fmt, ...) { char m[400]; va_list ap; va_start (ap, fmt); vsnprintf (m, sizeof m, fmt, ap); va_end (ap); vf_violation (key, "%s", m); broken = 1; }

static void destroy_cb (pixman_image_t *image, void *data)
{
    ticket *t = data;
    t->cb_calls++;
    if (!bad_cb) {
        if (!in_call) { bad_cb = 1; snprintf (bad_cb_msg, sizeof bad_cb_msg, "callback of image #%d ran outside any library call", t->id); }
        else if (t->img != image) { bad_cb = 2; snprintf (bad_cb_msg, sizeof bad_cb_msg, "callback data of image #%d delivered with another image pointer", t->id); }
        else if (!t->has_cb) { bad_cb = 3; snprintf (bad_cb_msg, sizeof bad_cb_msg, "callback of image #%d ran although it was unregistered / replaced", t->id); }
        else if (!t->expected_dead) { bad_cb = 4; snprintf (bad_cb_msg, sizeof bad_cb_msg, "callback of image #%d ran in a call in which the model keeps it alive (%d program references, %d holders)", t->id, t->user_refs, t->holders); }
        else if (t->cb_calls > 1) { bad_cb = 5; snprintf (bad_cb_msg, sizeof bad_cb_msg, "callback of image #%d ran %d times", t->id, t->cb_calls); }
        else if (pixman_image_get_destroy_data (image) != data) { bad_cb = 6; snprintf (bad_cb_msg, sizeof bad_cb_msg, "get_destroy_data inside the callback of image #%d does not return the registered data", t->id); }
    }
    /* the image is still intact inside its callback: clients read it to find what to release */
    if (t->kind <= 1 && t->cb_calls == 1 && (pixman_image_get_width (image) != t->w || pixman_image_get_height (image) != t->h) && !bad_cb) { bad_cb = 7; snprintf (bad_cb_msg, sizeof bad_cb_msg, "image #%d not intact inside its destroy callback", t->id); }
    if (t->free_bits_in_cb && t->caller_bits && t->cb_calls == 1) { free (t->caller_bits); t->caller_bits = NULL; }
}

static int total_refs (ticket *t) { return t->user_refs + t->holders; }
/* model: t loses one reference of the given class; marks everything that dies */
static int ndying; static ticket *dying[4];
static void model_release (ticket *t)
{
    if (total_refs (t) > 0) return;
    t->expected_dead = 1; dying[ndying++] = t;
    if (t->map) { ticket *m = t->map; t->map = NULL; m->holders--; model_release (m); }
}
/* after the call: every image the model marked must be dead with its callback run once */
static void settle (const char *what)
{
    if (bad_cb) { char key[80]; static const char *kn[] = { "", "outside-call", "wrong-image", "unregistered", "while-alive", "twice", "wrong-data", "image-not-intact" };
                  snprintf (key, sizeof key, "C20:destroy-callback-%s", kn[bad_cb]); viol (key, "%s (during %s)", bad_cb_msg, what); bad_cb = 0; }
    for (int i = 0; i < ndying; i++) { ticket *t = dying[i];
        t->dead = 1; vf_count ("deaths", 1); if (i > 0) vf_count ("cascaded_deaths_of_alpha_maps", 1);
        if (t->has_cb) { vf_count ("callbacks_expected", 1);
            if (t->cb_calls == 0) viol ("C20:destroy-callback-not-run", "image #%d (%s) died in %s but its destroy callback did not run", t->id, kind_name[t->kind], what);
            else if (t->cb_calls > 1) viol ("C20:destroy-callback-twice", "destroy callback of image #%d ran %d times", t->id, t->cb_calls); }
        /* caller-owned storage is still the caller's: release it now (ASan reports a double free if the library freed it) */
        if (t->caller_bits) { volatile uint32_t probe = t->caller_bits[0]; (void)probe; free (t->caller_bits); t->caller_bits = NULL; }
        t->img = NULL;
    }
    ndying = 0;
}

static pixman_format_code_t fmts[] = { PIXMAN_a8r8g8b8, PIXMAN_a8, PIXMAN_x8r8g8b8, PIXMAN_r5g6b5, PIXMAN_a1, PIXMAN_a8r8g8b8, PIXMAN_a8 };

static ticket *do_create (vf_rng *r)
{
    if (nT >= MAXT || npool >= 12) return NULL;
    /* creations the library refuses (a format code whose depth exceeds its bits per pixel, a stride that is not a multiple of 4 bytes):
     * NULL, and nothing may stay allocated */
    if (vf_chance (r, 1, 12)) { pixman_image_t *bad; uint32_t four[4];
        if (vf_chance (r, 1, 2)) LIB (bad = pixman_image_create_bits (PIXMAN_FORMAT (8, PIXMAN_TYPE_ARGB, 8, 8, 8, 8), (int)vf_range (r, 1, 9), (int)vf_range (r, 1, 5), NULL, 0));
        else LIB (bad = pixman_image_create_bits (PIXMAN_a8r8g8b8, 1, 1, four, 6));
        vf_count ("refused_creations", 1); H (" C(refused)");
        if (bad) { viol ("C20:malformed-create-accepted", "pixman_image_create_bits accepted a malformed request"); LIB (pixman_image_unref (bad)); } }
    ticket *t = &T[nT]; memset (t, 0, sizeof *t); t->id = nT;
    int k = (int)(vf_next (r) % 10); t->kind = k < 4 ? 0 : k < 6 ? 1 : k - 4;
    pixman_image_t *img = NULL;
    if (t->kind <= 1) {
        t->fmt = VF_PICK (r, fmts); t->w = (int)vf_range (r, 1, 9); t->h = (int)vf_range (r, 1, 6);
        if (t->kind == 1) { int stride = ((t->w * PIXMAN_FORMAT_BPP (t->fmt) + 31) / 32) * 4; t->caller_bits = malloc ((size_t)stride * t->h); for (int i = 0; i < stride * t->h / 4; i++) t->caller_bits[i] = vf_u32 (r);
            LIB (img = pixman_image_create_bits (t->fmt, t->w, t->h, t->caller_bits, stride)); }
        else if (vf_chance (r, 1, 3)) LIB (img = pixman_image_create_bits_no_clear (t->fmt, t->w, t->h, NULL, 0));
        else LIB (img = pixman_image_create_bits (t->fmt, t->w, t->h, NULL, 0));
        if (img && t->kind == 0) { uint32_t *b = pixman_image_get_data (img); int n = pixman_image_get_stride (img) * t->h / 4; for (int i = 0; i < n; i++) b[i] = vf_u32 (r); }
    } else if (t->kind == 2) { pixman_color_t c = { (uint16_t)vf_next (r), (uint16_t)vf_next (r), (uint16_t)vf_next (r), (uint16_t)vf_next (r) }; LIB (img = pixman_image_create_solid_fill (&c)); }
    else {
        int n = (int)vf_range (r, 1, 6); pixman_gradient_stop_t st[6]; for (int i = 0; i < n; i++) { st[i].x = (pixman_fixed_t)(i * 65536 / n); st[i].color.red = (uint16_t)vf_next (r); st[i].color.green = (uint16_t)vf_next (r); st[i].color.blue = (uint16_t)vf_next (r); st[i].color.alpha = (uint16_t)vf_next (r); }
        pixman_point_fixed_t p1 = { 0, 0 }, p2 = { pixman_int_to_fixed (7), pixman_int_to_fixed (3) };
        if (t->kind == 3) LIB (img = pixman_image_create_linear_gradient (&p1, &p2, st, n));
        else if (t->kind == 4) LIB (img = pixman_image_create_radial_gradient (&p1, &p2, pixman_int_to_fixed (1), pixman_int_to_fixed (6), st, n));
        else LIB (img = pixman_image_create_conical_gradient (&p2, pixman_int_to_fixed (33), st, n));
    }
    if (!img) { free (t->caller_bits); return NULL; }
    t->img = img; t->user_refs = 1; nT++; pool[npool++] = t;
    H (" C%d=%s", t->id, kind_name[t->kind]); vf_count ("creates", 1);
    return t;
}

static void pool_drop (ticket *t) { for (int i = 0; i < npool; i++) if (pool[i] == t) { pool[i] = pool[--npool]; return; } }

static void do_unref (ticket *t)
{
    t->user_refs--; ndying = 0; model_release (t);
    int expect = t->expected_dead; pixman_bool_t got;
    H (" U%d", t->id);
    LIB (got = pixman_image_unref (t->img));
    vf_count ("unrefs", 1); vf_count ("evaluations", 1); if (expect) vf_count ("unrefs_that_free", 1);
    if (t->user_refs == 0) pool_drop (t);
    if (!!got != !!expect) {
        viol (expect ? "C20:unref-false-at-last-reference" : "C20:unref-true-while-referenced", "unref of image #%d (%s) returned %d; the model holds %d program references and %d holders (alpha-map attachments) after the call", t->id, kind_name[t->kind], (int)got, t->user_refs, t->holders);
        return; }
    settle ("unref");
}

static void do_attach (ticket *t, ticket *m, vf_rng *r)
{
    const char *why = NULL;
    if (m) { if (m->kind > 1) why = "map-is-not-a-bits-image"; else if (m == t) why = "self"; else if (t->holders > 0) why = "image-is-itself-a-map"; else if (m->map) why = "map-has-a-map"; }
    int x = (int)vf_range (r, -3, 3), y = (int)vf_range (r, -3, 3);
    H (" A%d<-%s%d%s", t->id, m ? "" : "none", m ? m->id : 0, why ? "(refused)" : "");
    ndying = 0;
    if (!why && t->map != m) {
        ticket *old = t->map; t->map = m; if (m) m->holders++;
        if (old) { old->holders--; model_release (old); }
    }
    LIB (pixman_image_set_alpha_map (t->img, m ? m->img : NULL, (int16_t)x, (int16_t)y));
    vf_count ("evaluations", 1); vf_count (why ? "attach_refusals_expected" : m ? "attaches" : "detaches", 1); vf_label ("attach", "%s", why ? why : m ? (ndying ? "accepted-old-map-dies" : "accepted") : (ndying ? "detach-map-dies" : "detach"));
    settle ("set_alpha_map");
}

static void do_set_cb (ticket *t, vf_rng *r)
{
    int on = !vf_chance (r, 1, 5);
    t->has_cb = on; if (on && t->kind == 1) t->free_bits_in_cb = vf_chance (r, 1, 2); else t->free_bits_in_cb = 0;
    H (" D%d%s", t->id, on ? "" : "(off)");
    LIB (pixman_image_set_destroy_function (t->img, on ? destroy_cb : NULL, on ? t : NULL));
    vf_count ("set_destroy_function", 1);
}

static void do_props (ticket *t, vf_rng *r)
{
    int what = (int)(vf_next (r) % 8); pixman_image_t *img = t->img;
    H (" P%d.%d", t->id, what);
    switch (what) {
    case 0: { pixman_transform_t tr; int k = (int)(vf_next (r) % 4);
              if (k == 0) LIB (pixman_image_set_transform (img, NULL));
              else { pixman_transform_init_identity (&tr); if (k >= 2) { tr.matrix[0][0] = (pixman_fixed_t)vf_range (r, 20000, 150000); tr.matrix[0][2] = (pixman_fixed_t)vf_range (r, -200000, 200000); tr.matrix[1][0] = k == 3 ? (pixman_fixed_t)vf_range (r, -30000, 30000) : 0; }
                     LIB (pixman_image_set_transform (img, &tr)); }
              vf_count ("set_transform", 1); break; }
    case 1: { int k = (int)(vf_next (r) % 4);
              if (k == 0) LIB (pixman_image_set_filter (img, VF_PICK (r, ((pixman_filter_t[]){ PIXMAN_FILTER_NEAREST, PIXMAN_FILTER_BILINEAR })), NULL, 0));
              else if (k == 1) { int w = (int)vf_range (r, 1, 3), h = (int)vf_range (r, 1, 3); pixman_fixed_t p[2 + 9]; p[0] = pixman_int_to_fixed (w); p[1] = pixman_int_to_fixed (h); for (int i = 0; i < w * h; i++) p[2 + i] = 65536 / (w * h);
                                 LIB (pixman_image_set_filter (img, PIXMAN_FILTER_CONVOLUTION, p, 2 + w * h)); }
              else { int n = 0; pixman_fixed_t *p = pixman_filter_create_separable_convolution (&n, pixman_double_to_fixed (0.5 + vf_unit (r) * 2), pixman_double_to_fixed (0.5 + vf_unit (r) * 2),
                                 VF_PICK (r, ((pixman_kernel_t[]){ PIXMAN_KERNEL_BOX, PIXMAN_KERNEL_LINEAR, PIXMAN_KERNEL_IMPULSE })), PIXMAN_KERNEL_LINEAR, PIXMAN_KERNEL_BOX, PIXMAN_KERNEL_BOX, (int)vf_range (r, 0, 2), (int)vf_range (r, 0, 2));
                     if (p) { LIB (pixman_image_set_filter (img, PIXMAN_FILTER_SEPARABLE_CONVOLUTION, p, n)); free (p); } }
              /* a request the library must refuse (the parameter count times the element size does not fit): the image keeps what it had */
              if (vf_chance (r, 1, 4)) { pixman_fixed_t p4[4] = { 65536, 65536, 65536, 65536 }; pixman_bool_t ok2; LIB (ok2 = pixman_image_set_filter (img, PIXMAN_FILTER_CONVOLUTION, p4, 0x7fffffff));
                  vf_count ("set_filter_refused_requests", 1); if (ok2) viol ("C20:set_filter-accepts-impossible-size", "set_filter with n_params = 0x7fffffff returned TRUE"); H ("(refused)"); }
              vf_count ("set_filter", 1); break; }
    case 2: { int k = (int)(vf_next (r) % 4);
              if (k == 0) LIB (pixman_image_set_clip_region32 (img, NULL));
              else { pixman_box32_t b[5]; int n = (int)vf_range (r, 1, 5); for (int i = 0; i < n; i++) { b[i].x1 = (int)vf_range (r, -2, 4) ; b[i].x2 = b[i].x1 + (int)vf_range (r, 1, 6); b[i].y1 = i * 2 - 1; b[i].y2 = b[i].y1 + 2; }
                     if (k == 3) { pixman_box16_t b16[5]; for (int i = 0; i < n; i++) { b16[i].x1 = (int16_t)b[i].x1; b16[i].x2 = (int16_t)b[i].x2; b16[i].y1 = (int16_t)b[i].y1; b16[i].y2 = (int16_t)b[i].y2; }
                                   pixman_region16_t rg; if (pixman_region_init_rects (&rg, b16, n)) { LIB (pixman_image_set_clip_region (img, &rg)); } pixman_region_fini (&rg); }
                     else { pixman_region32_t rg; if (pixman_region32_init_rects (&rg, b, n)) { LIB (pixman_image_set_clip_region32 (img, &rg)); } pixman_region32_fini (&rg); } }
              vf_count ("set_clip_region", 1); break; }
    case 3: LIB (pixman_image_set_repeat (img, (pixman_repeat_t)(vf_next (r) % 4))); break;
    case 4: LIB (pixman_image_set_component_alpha (img, (int)(vf_next (r) & 1))); break;
    case 5: LIB (pixman_image_set_has_client_clip (img, (int)(vf_next (r) & 1))); LIB (pixman_image_set_source_clipping (img, (int)(vf_next (r) & 1))); break;
    case 6: if (t->kind >= 3) { pixman_gradient_stop_t st[2] = { { 0, { 1, 2, 3, 4 } }, { 65536, { 60000, 2, 3, 65535 } } }; (void)st; } LIB (pixman_image_set_repeat (img, PIXMAN_REPEAT_PAD)); break;
    default: { pixman_image_t *again; LIB (again = pixman_image_ref (img)); t->user_refs++; (void)again; H ("(ref)"); vf_count ("refs", 1); break; }
    }
}

/* draw with pool images so that everything live images own is read (and written) */
static void do_use (vf_rng *r)
{
    if (npool < 1) return;
    ticket *d = NULL; for (int tries = 0; tries < 6 && !d; tries++) { ticket *c = pool[vf_next (r) % npool]; if (c->kind <= 1 && c->fmt != PIXMAN_a1) d = c; }
    if (!d) return;
    ticket *s = pool[vf_next (r) % npool], *m = vf_chance (r, 1, 3) ? pool[vf_next (r) % npool] : NULL;
    if (s == d || m == d || (s->map && s->map == d) || (m && m->map == d) || (d->map && (d->map == s || d->map == m || (s->map == d->map) || (m && m->map == d->map)))) return;   /* overlapping source and destination storage is outside the statement */
    pixman_op_t op = VF_PICK (r, ((pixman_op_t[]){ PIXMAN_OP_OVER, PIXMAN_OP_SRC, PIXMAN_OP_ADD, PIXMAN_OP_IN }));
    H (" X%d<-%d", d->id, s->id);
    LIB (pixman_image_composite32 (op, s->img, m ? m->img : NULL, d->img, (int)vf_range (r, -2, 2), (int)vf_range (r, -2, 2), 0, 0, 0, 0, d->w, d->h));
    vf_count ("draws", 1);
}

static void life_case (long idx, vf_rng *r)
{
    nT = 0; npool = 0; broken = 0; bad_cb = 0; hl = 0; hist[0] = 0; ndying = 0;
    vf_alloc_reset_live ();
    pixman_glyph_cache_t *cache = NULL; int frozen = 0, nglyph = 0; int gkeys[32];
    int steps = (int)vf_range (r, 6, 70);
    uint64_t path = 0;
    for (int s = 0; s < steps && !broken; s++) {
        int k = (int)(vf_next (r) % 100); if (glyph_heavy && npool && vf_chance (r, 1, 2)) k = 96;       /* the 8-slot glyph table build: half of the steps are glyph-cache calls */
        ticket *t = npool ? pool[vf_next (r) % npool] : NULL; if (k == 96 && t && t->kind > 1) { for (int i = 0; i < npool; i++) if (pool[i]->kind <= 1) { t = pool[i]; break; } }
        path = vf_mix (path, (uint64_t)k / 8);
        if (!t || k < 16) { do_create (r); }
        else if (k < 36) do_unref (t);
        else if (k < 58) { ticket *m = NULL; int c = (int)(vf_next (r) % 12);
                           if (c == 0) m = NULL; else if (c == 1) m = t;
                           else if (c == 11 && t->map) m = t->map;      /* re-attach the current map (the program may have dropped its own reference on it: the attachment keeps it alive) */
                           else { m = pool[vf_next (r) % npool];
                               /* mostly a legitimate candidate: a bits image other than t that has no map of its own */
                               if (c < 10 && (m->kind > 1 || m == t || m->map)) { int o = (int)(vf_next (r) % npool); for (int i = 0; i < npool; i++) { ticket *q = pool[(i + o) % npool]; if (q->kind <= 1 && q != t && !q->map) { m = q; break; } } }
                               if (c < 8 && t->holders > 0) { int o = (int)(vf_next (r) % npool); for (int i = 0; i < npool; i++) { ticket *q = pool[(i + o) % npool]; if (q->holders == 0 && q != m) { t = q; break; } } } }
                           if (c >= 2 && c < 10 && m && (m->kind > 1 || m == t)) do_create (r); else if (c == 11 && m == t->map) { vf_count ("reattach_current_map", 1); if (m->user_refs == 0) vf_count ("reattach_map_held_only_by_the_attachment", 1); do_attach (t, m, r); } else do_attach (t, m, r); }
        else if (k < 64) do_set_cb (t, r);
        else if (k < 79) do_props (t, r);
        else if (k < 94) do_use (r);
        else if (t->kind <= 1) {
            if (!cache) { LIB (cache = pixman_glyph_cache_create ()); if (!cache) continue; }
            if (frozen && glyph_heavy && vf_chance (r, 1, 4)) { LIB (pixman_glyph_cache_thaw (cache)); frozen--; H (" thaw");
                if (!frozen) nglyph = 0;      /* survivors unknown after the outermost thaw: forget the keys */
                else { /* an inner thaw of nested freezes: the cache is still frozen, so every entry (and the image it owns) is still there and usable */
                    for (int i = 0; i < nglyph; i++) { const void *g; LIB (g = pixman_glyph_cache_lookup (cache, (void *)(uintptr_t)0x10, (void *)(uintptr_t)(gkeys[i] * 8)));
                        if (!g) { viol ("C20:glyph-released-while-cache-frozen", "an entry inserted under the outer freeze is gone after an inner thaw (nesting depth still %d)", frozen); break; }
                        pixman_box32_t ex; pixman_glyph_t one = { 0, 0, g }; LIB (pixman_glyph_get_extents (cache, 1, &one, &ex)); }
                    vf_count ("inner_thaws", 1); } }
            else if (nglyph < 32 && vf_chance (r, glyph_heavy ? 1 : 2, glyph_heavy ? 2 : 3)) { if (!frozen || (glyph_heavy && frozen < 3 && vf_chance (r, 1, 4))) { LIB (pixman_glyph_cache_freeze (cache)); frozen++; }
                const void *g; int key = s + 1; if (nglyph && vf_chance (r, 1, 3)) { key = gkeys[vf_next (r) % nglyph]; vf_count ("glyph_inserts_of_a_key_already_present", 1); }     /* a second entry for a key that is present: legal, the entries shadow each other and are all released with the cache */
                LIB (g = pixman_glyph_cache_insert (cache, (void *)(uintptr_t)0x10, (void *)(uintptr_t)(key * 8), 1, 1, t->img)); if (g) gkeys[nglyph++] = key; H (" G%d", t->id); vf_count ("glyph_inserts", 1); }
            else if (nglyph) { int key = gkeys[--nglyph]; const void *g; LIB (g = pixman_glyph_cache_lookup (cache, (void *)(uintptr_t)0x10, (void *)(uintptr_t)(key * 8))); if (g) LIB (pixman_glyph_cache_remove (cache, (void *)(uintptr_t)0x10, (void *)(uintptr_t)(key * 8))); H (" g"); vf_count ("glyph_removes", 1); }
            else if (frozen) { while (frozen) { LIB (pixman_glyph_cache_thaw (cache)); frozen--; } }
        }
        vf_max ("max_pool", npool);
    }
    /* drop every reference the program still holds, in random order */
    while (npool && !broken) { ticket *t = pool[vf_next (r) % npool]; do_unref (t); }
    if (cache && !broken) { while (frozen) { LIB (pixman_glyph_cache_thaw (cache)); frozen--; } LIB (pixman_glyph_cache_destroy (cache)); H (" cache-destroyed"); }
    vf_count ("histories", 1); vf_count ("steps", steps); vf_cell ("cells", vf_mix (path, (uint64_t)nT));
    if (broken) return;
    vf_count ("quiescent_points", 1); vf_count ("evaluations", 1);
    for (int i = 0; i < nT; i++) if (!T[i].dead) { viol ("C20:image-outlives-all-references", "image #%d (%s) has not died although every reference was dropped", i, kind_name[T[i].kind]); return; }
    long live = vf_alloc_live ();
    if (live) { size_t sz; void *site = vf_alloc_first_live_site (&sz); vf_label ("leak_site_addr", "%p", site);
                viol ("C20:leak-after-last-reference", "%ld block(s) allocated by the library during the program are still live after every reference was dropped and the glyph cache destroyed (e.g. %zu bytes allocated at %p)", live, sz, site); }
    if (idx < 3) vf_sample ("history:%s", hist);
}

static void init (void) { glyph_heavy = strstr (vf.config, "glyphs") != NULL; }
int main (int argc, char **argv) { return vf_main (argc, argv, "C20", init, life_case, NULL); }
