/* Monitor for C02: the same request stream is executed by one process per implementation
 * chain (PIXMAN_DISABLE); every case logs a digest of the defined destination bits, and the
 * driver's offline checker requires all chains to agree.  Requests are steered by the
 * library's own fast-path and iterator tables (read through the private header for
 * WORKLOAD GENERATION AND COVERAGE ONLY - the oracle is the cross-chain comparison). */
#include "vf_recipes.h"
#include "ref_pixel.h"

extern void (*pixman_verif_trace_composite) (pixman_implementation_t *imp, pixman_composite_func_t func, const pixman_fast_path_t *key);
extern void (*pixman_verif_trace_iter) (pixman_implementation_t *imp, const pixman_iter_info_t *info, iter_flags_t iter_flags);

static char cur_label[200];
static int hostile;
static int trace_on;
static void trace_fp (pixman_implementation_t *imp, pixman_composite_func_t func, const pixman_fast_path_t *key)
{
    if (!trace_on) return;
    vf_label ("fastpath_addr", "%p", (void *)func);
    if (vf.verbose) fprintf (stderr, "TRACE fastpath %p op=%d src=%x/%x mask=%x/%x dst=%x/%x\n", (void *)func, key->op, key->src_format, key->src_flags, key->mask_format, key->mask_flags, key->dest_format, key->dest_flags);
}
static void trace_it (pixman_implementation_t *imp, const pixman_iter_info_t *info, iter_flags_t fl)
{
    if (!trace_on) return;
    if (info->get_scanline) vf_label ("iter_addr", "%p", (void *)info->get_scanline);
    else if (info->initializer) vf_label ("iter_addr", "%p", (void *)info->initializer);
}

/* pixman_fill / pixman_blt through the chain: the byte result (and the return value) must not depend on which implementation serves the call */
static void raw_case (long idx, vf_rng *r)
{
    static const int bpps[] = { 8, 16, 32, 16, 32, 1, 4, 24 }; int bpp = VF_PICK (r, bpps);
    int w = (int)vf_range (r, 1, 90), h = (int)vf_range (r, 1, 5), stride = (w * bpp + 31) / 32 + (int)vf_range (r, 0, 2);
    uint32_t *a = malloc ((size_t)stride * 4 * h), *b = malloc ((size_t)stride * 4 * h); if (!a || !b) { free (a); free (b); return; }
    for (int i = 0; i < stride * h; i++) { a[i] = vf_u32 (r); b[i] = vf_u32 (r); }
    int x = (int)vf_range (r, 0, w - 1), y = (int)vf_range (r, 0, h - 1), ww = (int)vf_range (r, 1, w - x), hh = (int)vf_range (r, 1, h - y);
    uint32_t filler = vf_u32 (r);          /* bits above the pixel size are junk on purpose: the caller's word, not a clean pixel */
    if (vf_chance (r, 1, 3)) filler &= bpp >= 32 ? 0xffffffffu : (1u << bpp) - 1;
    int do_blt = vf_chance (r, 1, 3); pixman_bool_t ok;
    vf_case_desc ("%s bpp=%d %dx%d stride=%d rect=(%d,%d %dx%d) filler=%08x chain='%s'", do_blt ? "pixman_blt" : "pixman_fill", bpp, w, h, stride, x, y, ww, hh, filler, vf_chain_env ());
    vf_inflight ("%s bpp=%d", do_blt ? "pixman_blt" : "pixman_fill", bpp);
    /* what a TRUE result has to be (byte model); a chain without a routine for the case returns FALSE and must leave the buffer alone: the
     * digest is then taken from the model, so that all chains agree exactly when every TRUE result equals the model */
    uint32_t *m = malloc ((size_t)stride * 4 * h), *before = malloc ((size_t)stride * 4 * h); if (!m || !before) { free (a); free (b); free (m); free (before); return; }
    memcpy (m, a, (size_t)stride * 4 * h); memcpy (before, a, (size_t)stride * 4 * h);
    int sx = 0, sy = 0;
    if (do_blt) { sx = (int)vf_range (r, 0, w - ww); sy = (int)vf_range (r, 0, h - hh);
        for (int j = 0; j < hh; j++) for (int i = 0; i < ww; i++) vf_put_px ((uint8_t *)(m + (size_t)(y + j) * stride), bpp, x + i, vf_get_px ((const uint8_t *)(b + (size_t)(sy + j) * stride), bpp, sx + i));
        ok = pixman_blt (b, a, stride, stride, bpp, bpp, sx, sy, x, y, ww, hh); }
    else { for (int j = 0; j < hh; j++) for (int i = 0; i < ww; i++) vf_put_px ((uint8_t *)(m + (size_t)(y + j) * stride), bpp, x + i, bpp >= 32 ? filler : filler & ((1u << bpp) - 1));
        ok = pixman_fill (a, stride, bpp, x, y, ww, hh, filler); }
    if (!ok && memcmp (a, before, (size_t)stride * 4 * h)) vf_violation ("C02:raw-call-false-but-buffer-changed", "%s returned FALSE but changed the buffer", do_blt ? "pixman_blt" : "pixman_fill");
    uint64_t d = vf_hash (ok ? a : m, (size_t)stride * 4 * h, 0x51);
    vf_count (ok ? "raw_calls_served" : "raw_calls_refused", 1);
    free (m); free (before);
    char label[64]; snprintf (label, sizeof label, "%s/bpp%d", do_blt ? "pixman_blt" : "pixman_fill", bpp);
    extern void vf_digest_line (long idx, uint64_t digest, const char *label);
    vf_digest_line (idx, d, label);
    vf_count ("evaluations", 1); vf_count ("raw_fill_blt_cases", 1); vf_cell ("cells", vf_mix (vf_mix (77, bpp), do_blt * 2 + (ok != 0)));
    free (a); free (b);
}

/* two requests in a row that differ only in what their (solid-classified) source is: a plain solid colour first, then a 1x1 repeating image
 * that carries an alpha map or accessors.  Whatever the first leaves behind in the per-thread fast-path cache must not serve the second. */
static void pair_case (long idx, vf_rng *r)
{
    static const pixman_op_t ops[] = { PIXMAN_OP_OVER, PIXMAN_OP_OVER, PIXMAN_OP_ADD, PIXMAN_OP_SRC, PIXMAN_OP_IN };
    static const pixman_format_code_t dfs[] = { PIXMAN_a8r8g8b8, PIXMAN_x8r8g8b8, PIXMAN_r5g6b5, PIXMAN_a8b8g8r8, PIXMAN_a8 };
    pixman_op_t op = VF_PICK (r, ops); pixman_format_code_t df = VF_PICK (r, dfs); int with_mask = vf_chance (r, 2, 3), w = (int)vf_range (r, 1, 40), h = (int)vf_range (r, 1, 4);
    uint64_t pixseed = vf_next (r), mseed = vf_next (r); uint64_t d2 = 0; char label[80]; static char desc[1500];
    for (int pass = 0; pass < 2; pass++) {
        rq_request q; memset (&q, 0, sizeof q); q.op = op; q.w = w; q.h = h; q.has_mask = with_mask;
        q.dst.kind = RQ_BITS; q.dst.fmt = df; q.dst.w = w; q.dst.h = h; q.dst.pixseed = pixseed; q.dst.pixstyle = 1;
        if (with_mask) { q.mask.kind = RQ_BITS; q.mask.fmt = PIXMAN_a8; q.mask.w = w; q.mask.h = h; q.mask.pixseed = mseed; q.mask.filter = PIXMAN_FILTER_NEAREST; pixman_transform_init_identity (&q.mask.tr); }
        pixman_transform_init_identity (&q.src.tr); q.src.filter = PIXMAN_FILTER_NEAREST;
        if (pass == 0) { q.src.kind = RQ_SOLID; q.src.solid.alpha = 0xc000; q.src.solid.red = 0x8000; q.src.solid.green = 0x2000; q.src.solid.blue = 0xb000; }
        else { q.src.kind = RQ_BITS; q.src.fmt = PIXMAN_a8r8g8b8; q.src.w = q.src.h = 1; q.src.repeat = PIXMAN_REPEAT_NORMAL; q.src.pixseed = pixseed ^ 5; q.src.pixstyle = 0;
               if (idx % 2) { q.src.alpha_map = 1; q.src.am_x = q.src.am_y = 0; q.src.am_w = q.src.am_h = 1; } else q.src.accessors = 1; }
        vf_rng br = *r; if (!rq_build (&q, &br)) return;
        rq_describe (&q, desc, sizeof desc); vf_case_desc ("[second of a pair; the first had a plain solid source] %s chain='%s'", desc, vf_chain_env ()); vf_inflight ("pair pass %d: %s", pass, desc);
        rq_run (&q);
        if (pass == 1) d2 = rq_digest (&q);
        rq_free (&q);
    }
    snprintf (label, sizeof label, "solid-then-1x1-%s/op%d/%s", idx % 2 ? "alphamap" : "accessors", (int)op, rp_name (df));
    extern void vf_digest_line (long idx, uint64_t digest, const char *label);
    vf_digest_line (idx, d2, label); vf_count ("evaluations", 1); vf_count ("cache_priming_pairs", 1); vf_cell ("cells", vf_mix (vf_mix (91, op), (uint64_t)df * 4 + with_mask * 2 + idx % 2));
}

static void chain_case (long idx, vf_rng *r)
{
    if (!hostile && idx % 25 == 24) { raw_case (idx, r); return; }
    if (!hostile && idx % 25 == 12) { pair_case (idx, r); return; }
    rq_request q; memset (&q, 0, sizeof q);
    int directed = n_recipes && (idx % 3) != 2;
    const recipe_t *rc = NULL;
    if (directed) {
        rc = &recipes[(idx / 3 * 2 + (idx % 3)) % n_recipes];
        int cover = recipe_request (r, rc, &q);
        rq_gen_geometry (r, &q, 0);
        /* quarter-turn routines work in tiles of 64 bytes: wide enough requests for several whole tiles */
        if (q.src.kind == RQ_BITS && q.src.tr_class >= TR_ROT90 && q.src.tr_class <= TR_ROT270 && vf_chance (r, 1, 2)) { q.dst.w = (int)vf_range (r, 40, 200); q.dx = 0; q.w = q.dst.w; rq_gen_geometry (r, &q, 0); q.dx = (int)vf_range (r, 0, 3); q.w = q.dst.w - q.dx - (int)vf_range (r, 0, 3); }
        if (cover && !q.cover && q.src.kind == RQ_BITS && q.src.tr_class <= TR_ROT270) {
            /* insist on cover: regenerate the geometry a few times */
            for (int t = 0; t < 6 && !q.cover; t++) rq_gen_geometry (r, &q, 0);
        }
    } else {
        rq_generate (r, &q, hostile ? RQP_HOSTILE : 0);
    }
    if (hostile && directed && vf_chance (r, 1, 4)) {
        /* hostile geometry on a table-directed request: far offsets, huge rectangles */
        if (vf_chance (r, 1, 2)) { q.sx += (int)vf_range (r, -40000, 40000); q.sy += (int)vf_range (r, -40000, 40000); }
        if (vf_chance (r, 1, 2)) { q.dx = (int)vf_range (r, -200, 200); q.w = (int)vf_range (r, 0, 70000); q.h = (int)vf_range (r, 0, 300); }
        if (vf_chance (r, 1, 4)) { q.mx = vf_chance (r, 1, 2) ? INT32_MAX - (int)vf_range (r, 0, 50) : INT32_MIN + (int)vf_range (r, 0, 50); }
    }
    if (!rq_build (&q, r)) { vf_count ("build_failed", 1); return; }
    static char desc[1800]; rq_describe (&q, desc, sizeof desc);
    vf_case_desc ("%s", desc);
    vf_inflight ("%s", desc);
    rq_label (&q, cur_label, sizeof cur_label);
    trace_on = 1;
    rq_run (&q);
    trace_on = 0;
    uint64_t d = rq_digest (&q);
    if (vf.verbose) {
        for (int y = 0; y < q.dst.h; y++) { fprintf (stderr, "ROW %d:", y); for (int x = 0; x < q.dst.w && q.dst.buf.bpp <= 32; x++) fprintf (stderr, " %x", vf_get_px (vf_buf_row (&q.dst.buf, y), q.dst.buf.bpp, x)); fprintf (stderr, "\n"); }
    }
    /* the digest line is consumed by the driver's cross-chain checker */
    extern void vf_digest_line (long idx, uint64_t digest, const char *label);
    vf_digest_line (idx, d, cur_label);
    vf_count ("evaluations", 1);
    if (hostile) vf_count ("hostile_mode_cases", 1);
    vf_count (directed ? (rc->is_iter ? "directed_iter_cases" : "directed_fastpath_cases") : "random_cases", 1);
    if (directed) vf_label ("recipes_used", "%s%s#%d", imp_names[rc->imp], rc->is_iter ? "-iter" : "", rc->index);
    vf_cell ("cells", rq_cell (&q));
    if (idx < 3) vf_sample ("%s", desc);
    rq_free (&q);
}

static void init (void)
{
    collect ();
    hostile = strstr (vf.config, "hostile") != NULL;
    pixman_verif_trace_composite = trace_fp;
    pixman_verif_trace_iter = trace_it;
    vf_count ("table_entries_total", 0);
    if (vf.shard == 0) {
        int per[6][2] = { { 0 } };
        for (int i = 0; i < n_recipes; i++) per[recipes[i].imp][recipes[i].is_iter]++;
        for (int i = 0; i < 6; i++) { char b[64]; snprintf (b, sizeof b, "table_%s_fast_paths", imp_names[i]); vf_max (b, per[i][0]); snprintf (b, sizeof b, "table_%s_iters", imp_names[i]); vf_max (b, per[i][1]); }
    }
}

int main (int argc, char **argv) { return vf_main (argc, argv, "C02", init, chain_case, NULL); }
