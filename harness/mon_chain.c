/* Monitor for C02: the same request stream is executed by one process per implementation
 * chain (PIXMAN_DISABLE); every case logs a digest of the defined destination bits, and the
 * driver's offline checker requires all chains to agree.  Requests are steered by the
 * library's own fast-path and iterator tables (read through the private header for
 * WORKLOAD GENERATION AND COVERAGE ONLY - the oracle is the cross-chain comparison). */
#include "config.h"
#include "pixman-private.h"
#include "vf.h"
#include "vf_req.h"
#include "ref_pixel.h"

extern void (*pixman_verif_trace_composite) (pixman_implementation_t *imp, pixman_composite_func_t func, const pixman_fast_path_t *key);
extern void (*pixman_verif_trace_iter) (pixman_implementation_t *imp, const pixman_iter_info_t *info, iter_flags_t iter_flags);

/* ---- recipes: every entry of every implementation's tables, in a chain-independent order ---- */
typedef struct { int imp; int is_iter; pixman_fast_path_t fp; pixman_iter_info_t it; int index; } recipe_t;
static recipe_t *recipes; static int n_recipes;
static const char *imp_names[] = { "general", "fast", "mmx", "sse2", "ssse3", "noop" };
static pixman_implementation_t *imps[6];

static void collect (void)
{
    pixman_implementation_t *g = _pixman_implementation_create_general ();
    imps[0] = g;
    imps[1] = _pixman_implementation_create_fast_path (g);
    imps[2] = _pixman_implementation_create_mmx (imps[1]);
    imps[3] = _pixman_implementation_create_sse2 (imps[2]);
    imps[4] = _pixman_implementation_create_ssse3 (imps[3]);
    imps[5] = _pixman_implementation_create_noop (imps[4]);
    int cap = 4096; recipes = calloc (cap, sizeof *recipes);
    for (int i = 1; i < 6; i++) {
        int k = 0;
        for (const pixman_fast_path_t *e = imps[i]->fast_paths; e && e->op != PIXMAN_OP_NONE; e++, k++) {
            if (n_recipes == cap) break;
            recipes[n_recipes].imp = i; recipes[n_recipes].fp = *e; recipes[n_recipes].index = k; n_recipes++;
        }
        k = 0;
        for (const pixman_iter_info_t *e = imps[i]->iter_info; e && e->format != PIXMAN_null; e++, k++) {
            if (n_recipes == cap) break;
            recipes[n_recipes].imp = i; recipes[n_recipes].is_iter = 1; recipes[n_recipes].it = *e; recipes[n_recipes].index = k; n_recipes++;
        }
    }
    { int k = 0; for (const pixman_iter_info_t *e = g->iter_info; e && e->format != PIXMAN_null; e++, k++) { recipes[n_recipes].imp = 0; recipes[n_recipes].is_iter = 1; recipes[n_recipes].it = *e; recipes[n_recipes].index = k; n_recipes++; } }
}

/* image properties promised by a flag word */
static void props_from_flags (vf_rng *r, rq_image *im, uint32_t flags, int *cover)
{
    int cls;
    if (flags & FAST_PATH_ID_TRANSFORM) { static const int c[] = { TR_NONE, TR_NONE, TR_IDENTITY, TR_INT_TRANSLATE }; cls = VF_PICK (r, c); }
    else if (flags & FAST_PATH_SCALE_TRANSFORM) cls = (flags & FAST_PATH_X_UNIT_POSITIVE) ? TR_SCALE_POS : TR_SCALE_ANY;
    else if (flags & FAST_PATH_ROTATE_90_TRANSFORM) cls = TR_ROT90;
    else if (flags & FAST_PATH_ROTATE_180_TRANSFORM) cls = TR_ROT180;
    else if (flags & FAST_PATH_ROTATE_270_TRANSFORM) cls = TR_ROT270;
    else if (flags & FAST_PATH_AFFINE_TRANSFORM) { static const int c[] = { TR_AFFINE, TR_AFFINE, TR_SCALE_ANY, TR_FRAC_TRANSLATE, TR_ROT90 }; cls = VF_PICK (r, c); }
    else if (flags & FAST_PATH_HAS_TRANSFORM) cls = (int)vf_range (r, TR_FRAC_TRANSLATE, TR_PROJECTIVE);
    else cls = vf_chance (r, 1, 2) ? TR_NONE : (int)vf_range (r, TR_IDENTITY, TR_PROJECTIVE);
    rq_gen_transform (r, im, cls, 0);
    if ((flags & FAST_PATH_SCALE_TRANSFORM) && vf_chance (r, 1, 2)) { im->tr.matrix[1][1] = 65536; }
    int filter;
    if (flags & FAST_PATH_NEAREST_FILTER) filter = vf_chance (r, 3, 4) ? PIXMAN_FILTER_NEAREST : PIXMAN_FILTER_FAST;
    else if (flags & FAST_PATH_BILINEAR_FILTER) { static const int f[] = { PIXMAN_FILTER_BILINEAR, PIXMAN_FILTER_BILINEAR, PIXMAN_FILTER_GOOD, PIXMAN_FILTER_BEST }; filter = VF_PICK (r, f); }
    else if (flags & FAST_PATH_SEPARABLE_CONVOLUTION_FILTER) filter = PIXMAN_FILTER_SEPARABLE_CONVOLUTION;
    else { static const int f[] = { PIXMAN_FILTER_NEAREST, PIXMAN_FILTER_BILINEAR, PIXMAN_FILTER_CONVOLUTION, PIXMAN_FILTER_SEPARABLE_CONVOLUTION }; filter = (flags & FAST_PATH_NO_CONVOLUTION_FILTER) ? f[vf_next (r) % 2] : VF_PICK (r, f); }
    rq_gen_filter (r, im, filter);
    int allowed[4], na = 0;
    if (!(flags & FAST_PATH_NO_NONE_REPEAT)) allowed[na++] = PIXMAN_REPEAT_NONE;
    if (!(flags & FAST_PATH_NO_NORMAL_REPEAT)) allowed[na++] = PIXMAN_REPEAT_NORMAL;
    if (!(flags & FAST_PATH_NO_PAD_REPEAT)) allowed[na++] = PIXMAN_REPEAT_PAD;
    if (!(flags & FAST_PATH_NO_REFLECT_REPEAT)) allowed[na++] = PIXMAN_REPEAT_REFLECT;
    im->repeat = na ? allowed[vf_next (r) % na] : PIXMAN_REPEAT_NONE;
    if (flags & (FAST_PATH_SAMPLES_COVER_CLIP_NEAREST | FAST_PATH_SAMPLES_COVER_CLIP_BILINEAR)) *cover = 1;
    im->ca = (flags & FAST_PATH_COMPONENT_ALPHA) ? 1 : (flags & FAST_PATH_UNIFIED_ALPHA) ? 0 : vf_chance (r, 1, 4);
    im->alpha_map = (flags & FAST_PATH_NO_ALPHA_MAP) ? 0 : vf_chance (r, 1, 3);
    im->accessors = (flags & FAST_PATH_NO_ACCESSORS) ? 0 : vf_chance (r, 1, 3);
    if (im->alpha_map) { im->am_x = (int)vf_range (r, -2, 2); im->am_y = (int)vf_range (r, -1, 1); im->am_w = (int)vf_range (r, 1, 30); im->am_h = (int)vf_range (r, 1, 8); }
}

static pixman_format_code_t any_narrow (vf_rng *r, int dst)
{
    for (;;) { pixman_format_code_t f = dst ? rq_dst_formats[vf_next (r) % rq_n_dst_formats] : rq_src_formats[vf_next (r) % rq_n_src_formats]; if (!rp_is_indexed (f)) return f; }
}

static void set_operand (vf_rng *r, rq_image *im, pixman_format_code_t fmt, uint32_t flags, int role, int *cover)
{
    memset (im, 0, sizeof *im);
    im->pixseed = vf_next (r); im->pixstyle = (int)(vf_next (r) % 4);
    if (fmt == PIXMAN_solid) {
        if (vf_chance (r, 3, 4)) { rq_gen_image (r, im, role, RQP_NO_GRADIENT); while (im->kind != RQ_SOLID) rq_gen_image (r, im, role, RQP_NO_GRADIENT); if (role == 1) im->ca = (flags & FAST_PATH_COMPONENT_ALPHA) ? 1 : 0; return; }
        /* a 1x1 repeating bits image is also "solid" */
        im->kind = RQ_BITS; im->fmt = vf_chance (r, 1, 2) ? PIXMAN_a8r8g8b8 : any_narrow (r, 0); im->w = im->h = 1; im->repeat = PIXMAN_REPEAT_NORMAL; im->filter = PIXMAN_FILTER_NEAREST;
        if (role == 1) im->ca = (flags & FAST_PATH_COMPONENT_ALPHA) ? 1 : 0;
        return;
    }
    im->kind = RQ_BITS;
    im->fmt = (fmt == PIXMAN_any || fmt == PIXMAN_unknown) ? any_narrow (r, role == 2) : fmt;
    if (role == 2) { im->w = (int)vf_range (r, 1, 70); im->h = (int)vf_range (r, 1, 5); im->pad = (int)(vf_next (r) % 3); im->neg = vf_chance (r, 1, 8);
        if (vf_chance (r, 1, 4)) { im->n_clip = (int)vf_range (r, 1, 4); for (int i = 0; i < im->n_clip; i++) { int x1 = (int)vf_range (r, 0, im->w - 1), y1 = (int)vf_range (r, 0, im->h - 1); im->clip[i].x1 = x1; im->clip[i].y1 = y1; im->clip[i].x2 = x1 + (int)vf_range (r, 1, im->w); im->clip[i].y2 = y1 + (int)vf_range (r, 1, im->h); } }
        return; }
    im->w = vf_chance (r, 1, 8) ? (int)vf_range (r, 1, 2) : (int)vf_range (r, 1, 40); im->h = vf_chance (r, 1, 6) ? 1 : (int)vf_range (r, 1, 12);
    if (vf_chance (r, 1, 6)) im->w = (int)vf_range (r, 60, 200);
    im->pad = (int)(vf_next (r) % 3); im->neg = vf_chance (r, 1, 8);
    props_from_flags (r, im, flags, cover);
}

static char cur_label[200];
static int hostile;
static int trace_on;
static void trace_fp (pixman_implementation_t *imp, pixman_composite_func_t func, const pixman_fast_path_t *key)
{
    if (!trace_on) return;
    vf_label ("fastpath_addr", "%p", (void *)func);
    if (vf.verbose) fprintf (stderr, "TRACE fastpath %p op=%d src=%x/%x mask=%x/%x dst=%x/%x\n", (void *)func, key->op, key->src_format, key->src_flags, key->mask_format, key->mask_flags, key->dest_format, key->dest_flags);
}
static void trace_it (pixman_implementation_t *imp, const pixman_iter_info_t *info, iter_flags_t fl)
{
    if (!trace_on) return;
    if (info->get_scanline) vf_label ("iter_addr", "%p", (void *)info->get_scanline);
    else if (info->initializer) vf_label ("iter_addr", "%p", (void *)info->initializer);
}

/* pixman_fill / pixman_blt through the chain: the byte result (and the return value) must not depend on which implementation serves the call */
static void raw_case (long idx, vf_rng *r)
{
    static const int bpps[] = { 8, 16, 32, 16, 32, 1, 4, 24 }; int bpp = VF_PICK (r, bpps);
    int w = (int)vf_range (r, 1, 90), h = (int)vf_range (r, 1, 5), stride = (w * bpp + 31) / 32 + (int)vf_range (r, 0, 2);
    uint32_t *a = malloc ((size_t)stride * 4 * h), *b = malloc ((size_t)stride * 4 * h); if (!a || !b) { free (a); free (b); return; }
    for (int i = 0; i < stride * h; i++) { a[i] = vf_u32 (r); b[i] = vf_u32 (r); }
    int x = (int)vf_range (r, 0, w - 1), y = (int)vf_range (r, 0, h - 1), ww = (int)vf_range (r, 1, w - x), hh = (int)vf_range (r, 1, h - y);
    uint32_t filler = vf_u32 (r);          /* bits above the pixel size are junk on purpose: the caller's word, not a clean pixel */
    if (vf_chance (r, 1, 3)) filler &= bpp >= 32 ? 0xffffffffu : (1u << bpp) - 1;
    int do_blt = vf_chance (r, 1, 3); pixman_bool_t ok;
    vf_case_desc ("%s bpp=%d %dx%d stride=%d rect=(%d,%d %dx%d) filler=%08x chain='%s'", do_blt ? "pixman_blt" : "pixman_fill", bpp, w, h, stride, x, y, ww, hh, filler, vf_chain_env ());
    vf_inflight ("%s bpp=%d", do_blt ? "pixman_blt" : "pixman_fill", bpp);
    /* what a TRUE result has to be (byte model); a chain without a routine for the case returns FALSE and must leave the buffer alone: the
     * digest is then taken from the model, so that all chains agree exactly when every TRUE result equals the model */
    uint32_t *m = malloc ((size_t)stride * 4 * h), *before = malloc ((size_t)stride * 4 * h); if (!m || !before) { free (a); free (b); free (m); free (before); return; }
    memcpy (m, a, (size_t)stride * 4 * h); memcpy (before, a, (size_t)stride * 4 * h);
    int sx = 0, sy = 0;
    if (do_blt) { sx = (int)vf_range (r, 0, w - ww); sy = (int)vf_range (r, 0, h - hh);
        for (int j = 0; j < hh; j++) for (int i = 0; i < ww; i++) vf_put_px ((uint8_t *)(m + (size_t)(y + j) * stride), bpp, x + i, vf_get_px ((const uint8_t *)(b + (size_t)(sy + j) * stride), bpp, sx + i));
        ok = pixman_blt (b, a, stride, stride, bpp, bpp, sx, sy, x, y, ww, hh); }
    else { for (int j = 0; j < hh; j++) for (int i = 0; i < ww; i++) vf_put_px ((uint8_t *)(m + (size_t)(y + j) * stride), bpp, x + i, bpp >= 32 ? filler : filler & ((1u << bpp) - 1));
        ok = pixman_fill (a, stride, bpp, x, y, ww, hh, filler); }
    if (!ok && memcmp (a, before, (size_t)stride * 4 * h)) vf_violation ("C02:raw-call-false-but-buffer-changed", "%s returned FALSE but changed the buffer", do_blt ? "pixman_blt" : "pixman_fill");
    uint64_t d = vf_hash (ok ? a : m, (size_t)stride * 4 * h, 0x51);
    vf_count (ok ? "raw_calls_served" : "raw_calls_refused", 1);
    free (m); free (before);
    char label[64]; snprintf (label, sizeof label, "%s/bpp%d", do_blt ? "pixman_blt" : "pixman_fill", bpp);
    extern void vf_digest_line (long idx, uint64_t digest, const char *label);
    vf_digest_line (idx, d, label);
    vf_count ("evaluations", 1); vf_count ("raw_fill_blt_cases", 1); vf_cell ("cells", vf_mix (vf_mix (77, bpp), do_blt * 2 + (ok != 0)));
    free (a); free (b);
}

/* two requests in a row that differ only in what their (solid-classified) source is: a plain solid colour first, then a 1x1 repeating image
 * that carries an alpha map or accessors.  Whatever the first leaves behind in the per-thread fast-path cache must not serve the second. */
static void pair_case (long idx, vf_rng *r)
{
    static const pixman_op_t ops[] = { PIXMAN_OP_OVER, PIXMAN_OP_OVER, PIXMAN_OP_ADD, PIXMAN_OP_SRC, PIXMAN_OP_IN };
    static const pixman_format_code_t dfs[] = { PIXMAN_a8r8g8b8, PIXMAN_x8r8g8b8, PIXMAN_r5g6b5, PIXMAN_a8b8g8r8, PIXMAN_a8 };
    pixman_op_t op = VF_PICK (r, ops); pixman_format_code_t df = VF_PICK (r, dfs); int with_mask = vf_chance (r, 2, 3), w = (int)vf_range (r, 1, 40), h = (int)vf_range (r, 1, 4);
    uint64_t pixseed = vf_next (r), mseed = vf_next (r); uint64_t d2 = 0; char label[80]; static char desc[1500];
    for (int pass = 0; pass < 2; pass++) {
        rq_request q; memset (&q, 0, sizeof q); q.op = op; q.w = w; q.h = h; q.has_mask = with_mask;
        q.dst.kind = RQ_BITS; q.dst.fmt = df; q.dst.w = w; q.dst.h = h; q.dst.pixseed = pixseed; q.dst.pixstyle = 1;
        if (with_mask) { q.mask.kind = RQ_BITS; q.mask.fmt = PIXMAN_a8; q.mask.w = w; q.mask.h = h; q.mask.pixseed = mseed; q.mask.filter = PIXMAN_FILTER_NEAREST; pixman_transform_init_identity (&q.mask.tr); }
        pixman_transform_init_identity (&q.src.tr); q.src.filter = PIXMAN_FILTER_NEAREST;
        if (pass == 0) { q.src.kind = RQ_SOLID; q.src.solid.alpha = 0xc000; q.src.solid.red = 0x8000; q.src.solid.green = 0x2000; q.src.solid.blue = 0xb000; }
        else { q.src.kind = RQ_BITS; q.src.fmt = PIXMAN_a8r8g8b8; q.src.w = q.src.h = 1; q.src.repeat = PIXMAN_REPEAT_NORMAL; q.src.pixseed = pixseed ^ 5; q.src.pixstyle = 0;
               if (idx % 2) { q.src.alpha_map = 1; q.src.am_x = q.src.am_y = 0; q.src.am_w = q.src.am_h = 1; } else q.src.accessors = 1; }
        vf_rng br = *r; if (!rq_build (&q, &br)) return;
        rq_describe (&q, desc, sizeof desc); vf_case_desc ("[second of a pair; the first had a plain solid source] %s chain='%s'", desc, vf_chain_env ()); vf_inflight ("pair pass %d: %s", pass, desc);
        rq_run (&q);
        if (pass == 1) d2 = rq_digest (&q);
        rq_free (&q);
    }
    snprintf (label, sizeof label, "solid-then-1x1-%s/op%d/%s", idx % 2 ? "alphamap" : "accessors", (int)op, rp_name (df));
    extern void vf_digest_line (long idx, uint64_t digest, const char *label);
    vf_digest_line (idx, d2, label); vf_count ("evaluations", 1); vf_count ("cache_priming_pairs", 1); vf_cell ("cells", vf_mix (vf_mix (91, op), (uint64_t)df * 4 + with_mask * 2 + idx % 2));
}

static void chain_case (long idx, vf_rng *r)
{
    if (!hostile && idx % 25 == 24) { raw_case (idx, r); return; }
    if (!hostile && idx % 25 == 12) { pair_case (idx, r); return; }
    rq_request q; memset (&q, 0, sizeof q);
    int directed = n_recipes && (idx % 3) != 2;
    const recipe_t *rc = NULL;
    if (directed) {
        rc = &recipes[(idx / 3 * 2 + (idx % 3)) % n_recipes];
        int cover = 0;
        if (!rc->is_iter) {
            const pixman_fast_path_t *e = &rc->fp;
            q.op = e->op == PIXMAN_OP_any ? (pixman_op_t)(vf_next (r) % 14) : e->op;
            set_operand (r, &q.dst, e->dest_format, e->dest_flags, 2, &cover);
            if (e->src_format == PIXMAN_pixbuf || e->src_format == PIXMAN_rpixbuf) {
                set_operand (r, &q.src, e->src_format == PIXMAN_pixbuf ? PIXMAN_x8b8g8r8 : PIXMAN_x8r8g8b8, FAST_PATH_ID_TRANSFORM | FAST_PATH_NEAREST_FILTER | FAST_PATH_NO_ALPHA_MAP | FAST_PATH_NO_ACCESSORS, 0, &cover);
                q.src.tr_class = TR_NONE; q.pixbuf = e->src_format == PIXMAN_pixbuf ? 1 : 2; q.has_mask = 1; cover = 1;
            } else {
                set_operand (r, &q.src, e->src_format, e->src_flags, 0, &cover);
                q.has_mask = e->mask_format != PIXMAN_null;
                if (q.has_mask) { int c2 = 0; set_operand (r, &q.mask, e->mask_format, e->mask_flags, 1, &c2); }
            }
        } else {
            /* an iterator (fetcher / writer) entry: drive it through an operator the whole-op tables rarely cover */
            static const pixman_op_t ops[] = { PIXMAN_OP_OVER, PIXMAN_OP_ATOP, PIXMAN_OP_XOR, PIXMAN_OP_IN_REVERSE, PIXMAN_OP_ADD, PIXMAN_OP_SRC, PIXMAN_OP_SATURATE, PIXMAN_OP_MULTIPLY, PIXMAN_OP_CONJOINT_OVER };
            q.op = VF_PICK (r, ops);
            int wide = (rc->it.iter_flags & ITER_WIDE) != 0;
            if (rc->it.iter_flags & ITER_DEST) {
                set_operand (r, &q.dst, rc->it.format, rc->it.image_flags, 2, &cover);
                set_operand (r, &q.src, vf_chance (r, 1, 2) ? PIXMAN_a8r8g8b8 : PIXMAN_any, FAST_PATH_ID_TRANSFORM | FAST_PATH_NO_ALPHA_MAP, 0, &cover);
            } else {
                set_operand (r, &q.dst, wide ? PIXMAN_a2r10g10b10 : (vf_chance (r, 1, 2) ? PIXMAN_a8r8g8b8 : PIXMAN_any), 0, 2, &cover);
                set_operand (r, &q.src, rc->it.format, rc->it.image_flags, 0, &cover);
            }
            q.has_mask = vf_chance (r, 1, 3);
            if (q.has_mask) { int c2 = 0; set_operand (r, &q.mask, vf_chance (r, 1, 2) ? PIXMAN_a8 : PIXMAN_any, 0, 1, &c2); }
        }
        rq_gen_geometry (r, &q, 0);
        if (cover && !q.cover && q.src.kind == RQ_BITS && q.src.tr_class <= TR_SCALE_ANY) {
            /* insist on cover: regenerate the geometry a few times */
            for (int t = 0; t < 6 && !q.cover; t++) rq_gen_geometry (r, &q, 0);
        }
    } else {
        rq_generate (r, &q, hostile ? RQP_HOSTILE : 0);
    }
    if (hostile && directed && vf_chance (r, 1, 4)) {
        /* hostile geometry on a table-directed request: far offsets, huge rectangles */
        if (vf_chance (r, 1, 2)) { q.sx += (int)vf_range (r, -40000, 40000); q.sy += (int)vf_range (r, -40000, 40000); }
        if (vf_chance (r, 1, 2)) { q.dx = (int)vf_range (r, -200, 200); q.w = (int)vf_range (r, 0, 70000); q.h = (int)vf_range (r, 0, 300); }
        if (vf_chance (r, 1, 4)) { q.mx = vf_chance (r, 1, 2) ? INT32_MAX - (int)vf_range (r, 0, 50) : INT32_MIN + (int)vf_range (r, 0, 50); }
    }
    if (!rq_build (&q, r)) { vf_count ("build_failed", 1); return; }
    static char desc[1800]; rq_describe (&q, desc, sizeof desc);
    vf_case_desc ("%s", desc);
    vf_inflight ("%s", desc);
    rq_label (&q, cur_label, sizeof cur_label);
    trace_on = 1;
    rq_run (&q);
    trace_on = 0;
    uint64_t d = rq_digest (&q);
    if (vf.verbose) {
        for (int y = 0; y < q.dst.h; y++) { fprintf (stderr, "ROW %d:", y); for (int x = 0; x < q.dst.w && q.dst.buf.bpp <= 32; x++) fprintf (stderr, " %x", vf_get_px (vf_buf_row (&q.dst.buf, y), q.dst.buf.bpp, x)); fprintf (stderr, "\n"); }
    }
    /* the digest line is consumed by the driver's cross-chain checker */
    extern void vf_digest_line (long idx, uint64_t digest, const char *label);
    vf_digest_line (idx, d, cur_label);
    vf_count ("evaluations", 1);
    if (hostile) vf_count ("hostile_mode_cases", 1);
    vf_count (directed ? (rc->is_iter ? "directed_iter_cases" : "directed_fastpath_cases") : "random_cases", 1);
    if (directed) vf_label ("recipes_used", "%s%s#%d", imp_names[rc->imp], rc->is_iter ? "-iter" : "", rc->index);
    vf_cell ("cells", rq_cell (&q));
    if (idx < 3) vf_sample ("%s", desc);
    rq_free (&q);
}

static void init (void)
{
    collect ();
    hostile = strstr (vf.config, "hostile") != NULL;
    pixman_verif_trace_composite = trace_fp;
    pixman_verif_trace_iter = trace_it;
    vf_count ("table_entries_total", 0);
    if (vf.shard == 0) {
        int per[6][2] = { { 0 } };
        for (int i = 0; i < n_recipes; i++) per[recipes[i].imp][recipes[i].is_iter]++;
        for (int i = 0; i < 6; i++) { char b[64]; snprintf (b, sizeof b, "table_%s_fast_paths", imp_names[i]); vf_max (b, per[i][0]); snprintf (b, sizeof b, "table_%s_iters", imp_names[i]); vf_max (b, per[i][1]); }
    }
}

int main (int argc, char **argv) { return vf_main (argc, argv, "C02", init, chain_case, NULL); }
