/* Monitor for C12: trapezoid coverage against a sample-counting reference with exact rational
 * edges, plus exact metamorphic / differential oracles: abutting shapes, whole-pixel offsets,
 * triangles vs their two-trapezoid decomposition, composite_trapezoids vs mask-then-composite.
 * With --prop C04 only the calls are made (safety run under ASan / guard pages). */
#include "vf.h"
#include "vf_req.h"
#include "ref_pixel.h"
#include "ref_ops.h"

typedef __int128 i128;
#define FOCUS12 (!strcmp (vf.prop, "C12"))

/* the fixed sample grid of a depth (from the Render specification; n = bits of the alpha format) */
static int n_yfrac (int n) { return n == 1 ? 1 : (1 << (n / 2)) - 1; }
static int n_xfrac (int n) { return n == 1 ? 1 : (1 << (n / 2)) + 1; }
static int step_y (int n) { return 65536 / n_yfrac (n); }
static int y_first (int n) { return (65536 - (n_yfrac (n) - 1) * step_y (n)) / 2; }
static int step_x (int n) { return 65536 / n_xfrac (n); }
static int x_first (int n) { return (65536 - (n_xfrac (n) - 1) * step_x (n)) / 2; }

static int BAND = 1;        /* half-width, in 1/65536 pixel, of the band around a sample position inside which the edge side is not judged */
/* sign of (edge x at row y) - s for the line p1->p2, exact */
static int edge_cmp (const pixman_line_fixed_t *l, int64_t y, int64_t s, int64_t *approx_x)
{
    i128 dy = (i128)l->p2.y - l->p1.y, dx = (i128)l->p2.x - l->p1.x;
    /* x(y) - s = p1.x - s + (y - p1.y) dx / dy */
    if (dy == 0) { if (approx_x) *approx_x = l->p1.x; return l->p1.x < s ? -1 : l->p1.x > s ? 1 : 0; }     /* a horizontal 'edge' (degenerate triangle side): no row is bounded by it */
    i128 num = ((i128)l->p1.x - s) * dy + ((i128)y - l->p1.y) * dx;
    if (approx_x) *approx_x = (int64_t)((i128)l->p1.x + ((i128)y - l->p1.y) * dx / dy);
    if (dy < 0) num = -num;
    return num < 0 ? -1 : num > 0 ? 1 : 0;
}

/* expected coverage interval of pixel (px,py) of an n-bit alpha image for trapezoid t drawn at offset (xo,yo) */
static void ref_coverage (const pixman_trapezoid_t *t, int n, int px, int py, int xo, int yo, int *lo, int *hi, int *unrepresentable)
{
    int l = 0, h = 0;
    int64_t top = (int64_t)t->top + (int64_t)yo * 65536, bot = (int64_t)t->bottom + (int64_t)yo * 65536;
    for (int k = 0; k < n_yfrac (n); k++) {
        int64_t y = (int64_t)py * 65536 + y_first (n) + (int64_t)k * step_y (n);
        if (!(top <= y && y < bot)) continue;
        int64_t ye = y - (int64_t)yo * 65536;      /* row in the trapezoid's own coordinates */
        int64_t ax;
        edge_cmp (&t->left, ye, 0, &ax); if (ax + (int64_t)xo * 65536 > 0x7ffe0000LL || ax + (int64_t)xo * 65536 < -0x7ffe0000LL) *unrepresentable = 1;
        edge_cmp (&t->right, ye, 0, &ax); if (ax + (int64_t)xo * 65536 > 0x7ffe0000LL || ax + (int64_t)xo * 65536 < -0x7ffe0000LL) *unrepresentable = 1;
        for (int j = 0; j < n_xfrac (n); j++) {
            int64_t s = (int64_t)px * 65536 + x_first (n) + (int64_t)j * step_x (n) - (int64_t)xo * 65536;
            /* definitely inside: left edge < s-2 and right edge > s+2 ; definitely outside: left > s+2 or right < s-2 */
            int in_sure = edge_cmp (&t->left, ye, s - BAND, NULL) < 0 && edge_cmp (&t->right, ye, s + BAND, NULL) > 0;
            int out_sure = edge_cmp (&t->left, ye, s + BAND, NULL) > 0 || edge_cmp (&t->right, ye, s - BAND, NULL) < 0;
            if (in_sure) { l++; h++; } else if (!out_sure) h++;
        }
    }
    *lo = l; *hi = h;
}

/* are both edges of t representable as 32-bit 16.16 abscissae on every row of [top,bottom] (with room for pixel offsets)?
 * shapes that are not are the known edge-wrap class and are judged only by the safety oracle */
static int edges_representable (const pixman_trapezoid_t *t)
{
    if (!pixman_trapezoid_valid (t)) return 1;
    const pixman_line_fixed_t *e[2] = { &t->left, &t->right };
    for (int k = 0; k < 2; k++) { int64_t dx = (int64_t)e[k]->p2.x - e[k]->p1.x, dy = (int64_t)e[k]->p2.y - e[k]->p1.y; if (dx > 0x7ff00000LL || dx < -0x7ff00000LL || dy > 0x7ff00000LL || dy < -0x7ff00000LL) return 0; }
    for (int k = 0; k < 2; k++) for (int end = 0; end < 2; end++) {
        int64_t y = end ? t->bottom : t->top, ax;
        /* also the rows the edge walker starts from: one pixel row above the top */
        edge_cmp (e[k], y + (end ? 65536 : -65536), 0, &ax);
        if (ax > 0x70000000LL || ax < -0x70000000LL) return 0;
    }
    return 1;
}

static pixman_fixed_t fxr (vf_rng *r, double lo, double hi) { return (pixman_fixed_t)((lo + (hi - lo) * vf_unit (r)) * 65536.0); }

static void gen_trap (vf_rng *r, pixman_trapezoid_t *t, int w, int h, int hostile)
{
    int k = (int)(vf_next (r) % 10);
    double span = hostile && vf_chance (r, 1, 3) ? 32000 : (vf_chance (r, 1, 4) ? 300 : 12);
    t->top = fxr (r, -3, h); t->bottom = t->top + (pixman_fixed_t)vf_range (r, 1, (int64_t)(h + 4) * 65536);
    if (k == 0) t->bottom = t->top + (pixman_fixed_t)vf_range (r, 1, 3000);                 /* sub-pixel high */
    if (k == 1) { t->top &= ~0xffff; t->bottom = (t->bottom & ~0xffff) + 65536; }           /* whole rows */
    pixman_fixed_t y1 = t->top - (pixman_fixed_t)vf_range (r, 0, (int64_t)(vf_chance (r, 1, 2) ? 0 : 4 * 65536)), y2 = t->bottom + (pixman_fixed_t)vf_range (r, 0, (int64_t)(vf_chance (r, 1, 2) ? 1 : 4 * 65536));
    if (y2 <= y1) y2 = y1 + 1;
    t->left.p1.y = y1; t->left.p2.y = y2; t->right.p1.y = y1; t->right.p2.y = y2;
    if (vf_chance (r, 1, 4)) { t->right.p1.y = y1 - (pixman_fixed_t)vf_range (r, 0, 65536); t->right.p2.y = y2 + (pixman_fixed_t)vf_range (r, 1, 65536); }
    t->left.p1.x = fxr (r, -span, w + span / 2); t->left.p2.x = k == 2 ? t->left.p1.x : fxr (r, -span, w + span / 2);       /* k==2 vertical */
    if (k == 3) { t->left.p1.y = t->top; t->left.p2.y = t->top + 1 + (pixman_fixed_t)vf_range (r, 0, 40); }                /* nearly horizontal edge: dy = e.. */
    pixman_fixed_t wd1 = (pixman_fixed_t)vf_range (r, 0, (int64_t)(vf_chance (r, 1, 3) ? 65536 : (int64_t)(w + 6) * 65536)), wd2 = (pixman_fixed_t)vf_range (r, 0, (int64_t)(w + 6) * 65536);
    if (k == 4) wd1 = wd2 = (pixman_fixed_t)vf_range (r, 0, 4000);      /* sliver */
    t->right.p1.x = t->left.p1.x + wd1; t->right.p2.x = t->left.p2.x + wd2;
    if (k == 5) { t->left.p1.x &= ~0xffff; t->left.p2.x = t->left.p1.x; t->right.p1.x = (t->right.p1.x & ~0xffff) + 65536; t->right.p2.x = t->right.p1.x; }  /* pixel-aligned box */
    if (k == 6) { t->right.p1.x = t->left.p1.x + fxr (r, 20, 160); t->right.p2.x = t->left.p2.x + (t->right.p1.x - t->left.p1.x); }      /* parallel band, possibly very slanted */
    if (k == 7 || k == 8) {
        /* an edge of (nearly) integer slope that starts within a few 1/65536 of a sample position: the error term of the edge walker
         * stays below one step for many rows, and the abscissa sits on or next to a sample - the slopes for which a one-ulp error shows */
        static const int depths[] = { 8, 8, 4, 1 }; int n = depths[vf_next (r) % 4];
        pixman_line_fixed_t *e = k == 7 ? &t->left : &t->right;
        int px = (int)vf_range (r, 0, w > 1 ? w - 1 : 0), j = (int)(vf_next (r) % (unsigned)n_xfrac (n));
        static const int slopes[] = { 0, 0, 0, 1, -1, 2, -2, 0 }; int m = slopes[vf_next (r) % 8];
        e->p1.x = (pixman_fixed_t)(px * 65536 + x_first (n) + j * step_x (n) + vf_range (r, -3, 3));
        e->p2.x = (pixman_fixed_t)((int64_t)e->p1.x + (int64_t)m * ((int64_t)e->p2.y - e->p1.y) + vf_range (r, -40, 40));
        if (k == 7) { t->right.p1.x = e->p1.x + wd1 + 70000; t->right.p2.x = e->p2.x + wd2 + 70000; }
        else { t->left.p1.x = e->p1.x - wd1 - 70000; t->left.p2.x = e->p2.x - wd2 - 70000; }
    }
    if (k == 9) {
        /* a rectangle on whole pixels in both directions (what a caller drawing pixel-aligned boxes through the trapezoid interface sends) */
        int x1 = (int)vf_range (r, -2, w), y1b = (int)vf_range (r, -2, h), bw = (int)vf_range (r, 1, w + 2), bh = (int)vf_range (r, 1, h + 2);
        t->top = pixman_int_to_fixed (y1b); t->bottom = pixman_int_to_fixed (y1b + bh);
        t->left.p1.x = t->left.p2.x = pixman_int_to_fixed (x1); t->right.p1.x = t->right.p2.x = pixman_int_to_fixed (x1 + bw);
        pixman_fixed_t ext = vf_chance (r, 1, 2) ? 0 : (pixman_fixed_t)vf_range (r, 0, 3 * 65536);
        t->left.p1.y = t->right.p1.y = t->top - ext; t->left.p2.y = t->right.p2.y = t->bottom + ext;
    }
    if (t->left.p1.y == t->left.p2.y) t->left.p2.y++;
    if (t->right.p1.y == t->right.p2.y) t->right.p2.y++;
}

static pixman_format_code_t pick_alpha (vf_rng *r) { static const pixman_format_code_t f[] = { PIXMAN_a8, PIXMAN_a8, PIXMAN_a4, PIXMAN_a1 }; return VF_PICK (r, f); }
static int depth_of (pixman_format_code_t f) { return PIXMAN_FORMAT_A (f); }
static void tdesc (const pixman_trapezoid_t *t, char *b, size_t n)
{ snprintf (b, n, "top=%x bottom=%x left=(%x,%x)-(%x,%x) right=(%x,%x)-(%x,%x)", (unsigned)t->top, (unsigned)t->bottom, (unsigned)t->left.p1.x, (unsigned)t->left.p1.y, (unsigned)t->left.p2.x, (unsigned)t->left.p2.y, (unsigned)t->right.p1.x, (unsigned)t->right.p1.y, (unsigned)t->right.p2.x, (unsigned)t->right.p2.y); }

static int images_equal (const vf_buf *a, const vf_buf *b, int *fx, int *fy)
{
    uint32_t m = a->bpp <= 32 && rp_is_direct (a->fmt) ? rp_defined_mask (a->fmt) : 0xffffffffu;
    for (int y = 0; y < a->h; y++) for (int x = 0; x < a->w; x++) if ((vf_get_px (vf_buf_row (a, y), a->bpp, x) ^ vf_get_px (vf_buf_row (b, y), b->bpp, x)) & m) { *fx = x; *fy = y; return 0; }
    return 1;
}

/* K0: sample counting */
static void count_case (vf_rng *r)
{
    pixman_format_code_t f = pick_alpha (r); int n = depth_of (f);
    int w = (int)vf_range (r, 1, 40), h = (int)vf_range (r, 1, 12);
    if (vf_chance (r, 1, 8)) { w = (int)vf_range (r, 140, 420); h = (int)vf_range (r, 1, 4); vf_count ("wide_images", 1); }      /* spans of many whole words / vector blocks */
    vf_buf B; if (!vf_buf_alloc (&B, f, w, h, (int)(vf_next (r) % 2), 0, vf_default_place (r))) return;
    int prefilled = vf_chance (r, 1, 3);
    if (prefilled) vf_buf_fill_random (&B, r); else memset (B.base, 0, B.bytes);
    vf_buf_snapshot (&B);
    pixman_image_t *img = vf_buf_image (&B);
    pixman_trapezoid_t t; gen_trap (r, &t, w, h, 1);
    int xo = vf_chance (r, 1, 2) ? 0 : (int)vf_range (r, -5, 5), yo = vf_chance (r, 1, 2) ? 0 : (int)vf_range (r, -3, 3);
    char td[300]; tdesc (&t, td, sizeof td);
    vf_case_desc ("rasterize_trapezoid %s %dx%d offset=(%d,%d) %s prefilled=%d", rp_name (f), w, h, xo, yo, td, prefilled);
    vf_inflight ("rasterize_trapezoid %s %dx%d offset=(%d,%d) %s", rp_name (f), w, h, xo, yo, td);
    pixman_rasterize_trapezoid (img, &t, xo, yo);
    vf_count ("shapes", 1);
    if (FOCUS12 && pixman_trapezoid_valid (&t)) {
        long npx = 0, namb = 0, ncov = 0; int unrep = 0, bad = 0, bx = 0, by = 0, blo = 0, bhi = 0, got = 0, was = 0;
        int max = (1 << n) - 1;
        for (int y = 0; y < h && !bad; y++) for (int x = 0; x < w; x++) {
            int lo, hi; ref_coverage (&t, n, x, y, xo, yo, &lo, &hi, &unrep);
            int old = (int)vf_get_px (vf_buf_snaprow (&B, y), B.bpp, x), now = (int)vf_get_px (vf_buf_row (&B, y), B.bpp, x);
            int elo = old + lo > max ? max : old + lo, ehi = old + hi > max ? max : old + hi;
            npx++; if (lo != hi) namb++; if (hi) ncov++;
            if (now < elo || now > ehi) { bad = 1; bx = x; by = y; blo = elo; bhi = ehi; got = now; was = old; break; }
        }
        if (!edges_representable (&t)) unrep = 1;
        if (unrep) vf_count ("edge_x_not_representable_shapes", 1);
        vf_count ("evaluations", npx); vf_count ("pixels_ambiguous", namb); vf_count ("pixels_covered", ncov);
        if (ncov) vf_cell ("cells", vf_mix (vf_mix (n, w * 64 + h), vf_hash (&t, sizeof t, 5)));
        if (bad) { char key[64]; snprintf (key, sizeof key, unrep ? "C12:edge-x-not-representable:sample-count:a%d" : "C12:sample-count:a%d", n);
            vf_violation (key, "pixel (%d,%d) went from %d to %d; the sample grid gives a coverage that leads to [%d,%d]", bx, by, was, got, blo, bhi); }
    }
    pixman_image_unref (img); vf_buf_free (&B);
}

/* K1..K3: exact metamorphic oracles.  mode 0 horizontal split, 1 shared slanted edge, 2 pixel offset, 3 triangle decomposition */
static void meta_case (vf_rng *r)
{
    pixman_format_code_t f = pick_alpha (r);
    int w = (int)vf_range (r, 1, 40), h = (int)vf_range (r, 1, 12), mode = (int)(vf_next (r) % 5);
    if (vf_chance (r, 1, 8)) { w = (int)vf_range (r, 140, 420); h = (int)vf_range (r, 1, 4); vf_count ("wide_images", 1); }
    vf_buf A, B; if (!vf_buf_alloc (&A, f, w, h, 0, 0, vf_default_place (r))) return; if (!vf_buf_alloc (&B, f, w, h, 0, 0, vf_default_place (r))) { vf_buf_free (&A); return; }
    if (vf_chance (r, 1, 4)) { vf_buf_fill_random (&A, r); memcpy (B.base, A.base, A.bytes); } else { memset (A.base, 0, A.bytes); memset (B.base, 0, B.bytes); }
    pixman_image_t *ia = vf_buf_image (&A), *ib = vf_buf_image (&B);
    pixman_trapezoid_t t; gen_trap (r, &t, w, h, 0);
    char td[300]; tdesc (&t, td, sizeof td);
    static const char *mn[] = { "abutting-horizontal-split", "abutting-shared-edge", "whole-pixel-offset", "triangle-decomposition", "same-line-different-endpoints" };
    vf_case_desc ("%s %s %dx%d %s", mn[mode], rp_name (f), w, h, td);
    vf_inflight ("%s %s %dx%d %s", mn[mode], rp_name (f), w, h, td);
    int judged = 1;
    pixman_line_fixed_t mode4_line; memset (&mode4_line, 0, sizeof mode4_line); mode4_line.p2.y = 1; int mode4_unrep = 0;
    if (mode == 0) {
        pixman_trapezoid_t a = t, b = t;
        pixman_fixed_t cut = t.top + (pixman_fixed_t)vf_range (r, 0, (int64_t)t.bottom - t.top);
        if (vf_chance (r, 1, 3)) cut &= ~0xffff;
        if (cut <= t.top || cut >= t.bottom) judged = 0;
        a.bottom = cut; b.top = cut;
        pixman_rasterize_trapezoid (ia, &t, 0, 0);
        if (judged) { pixman_rasterize_trapezoid (ib, &a, 0, 0); pixman_rasterize_trapezoid (ib, &b, 0, 0); }
    } else if (mode == 1) {
        /* a line between the two edges: left part uses it as right edge, right part as left edge */
        pixman_line_fixed_t mid; double u = vf_unit (r), v = vf_unit (r);
        mid.p1.y = t.left.p1.y; mid.p2.y = t.left.p2.y;
        if (t.right.p1.y != t.left.p1.y || t.right.p2.y != t.left.p2.y) judged = 0;
        mid.p1.x = t.left.p1.x + (pixman_fixed_t)(((int64_t)t.right.p1.x - t.left.p1.x) * u); mid.p2.x = t.left.p2.x + (pixman_fixed_t)(((int64_t)t.right.p2.x - t.left.p2.x) * v);
        pixman_trapezoid_t a = t, b = t; a.right = mid; b.left = mid;
        pixman_rasterize_trapezoid (ia, &t, 0, 0);
        if (judged) { pixman_rasterize_trapezoid (ib, &a, 0, 0); pixman_rasterize_trapezoid (ib, &b, 0, 0); }
        /* with saturation the union and the two parts agree as long as no pixel saturates differently: only judge unsaturated destinations */
    } else if (mode == 4) {
        /* one edge line described by two different pairs of points P + i*(a,b): the shape, hence the coverage, is the same */
        pixman_trapezoid_t u;
        int64_t a = vf_chance (r, 1, 3) ? vf_range (r, -40, 40) : vf_range (r, -3000, 3000), b = vf_chance (r, 1, 3) ? vf_range (r, 1, 60) : vf_range (r, 1, 3000);
        if (vf_chance (r, 1, 4)) a = vf_chance (r, 1, 2) ? -1 : 1;
        int64_t span = ((int64_t)(h + 8) * 65536) / b + 2;
        int64_t px0 = (int64_t)vf_range (r, 0, (int64_t)w * 65536), py0 = (int64_t)vf_range (r, -2 * 65536, (int64_t)h * 65536);
        /* sit on / next to a sample column and a sample row now and then */
        int n = depth_of (f);
        if (vf_chance (r, 1, 2)) px0 = (px0 & ~0xffffLL) + x_first (n) + (int64_t)(vf_next (r) % n_xfrac (n)) * step_x (n) + vf_range (r, -1, 1);
        if (vf_chance (r, 1, 2)) py0 = (py0 & ~0xffffLL) + y_first (n) + (int64_t)(vf_next (r) % n_yfrac (n)) * step_y (n);
        int64_t i1 = vf_range (r, -span, span), j1 = i1 + vf_range (r, 1, span), i2 = vf_range (r, -span, span), j2 = i2 + vf_range (r, 1, span);
        if (vf_chance (r, 1, 2)) { i1 = vf_range (r, 1, 300); j1 = i1 + vf_range (r, 1, span); }      /* first description starts below the top: the walker steps backwards */
        pixman_line_fixed_t e1 = { { (pixman_fixed_t)(px0 + i1 * a), (pixman_fixed_t)(py0 + i1 * b) }, { (pixman_fixed_t)(px0 + j1 * a), (pixman_fixed_t)(py0 + j1 * b) } };
        pixman_line_fixed_t e2 = { { (pixman_fixed_t)(px0 + i2 * a), (pixman_fixed_t)(py0 + i2 * b) }, { (pixman_fixed_t)(px0 + j2 * a), (pixman_fixed_t)(py0 + j2 * b) } };
        int64_t lim = 0x70000000LL;
        if (llabs (px0 + i1 * a) > lim || llabs (px0 + j1 * a) > lim || llabs (px0 + i2 * a) > lim || llabs (px0 + j2 * a) > lim || llabs (py0 + j1 * b) > lim || llabs (py0 + j2 * b) > lim || llabs (py0 + i1 * b) > lim || llabs (py0 + i2 * b) > lim) judged = 0;
        t.top = (pixman_fixed_t)py0; t.bottom = t.top + (pixman_fixed_t)vf_range (r, 1, (int64_t)(h + 2) * 65536);
        int which = vf_chance (r, 1, 2);
        pixman_line_fixed_t other; other.p1.y = t.top - 65536; other.p2.y = t.bottom + 65536;
        other.p1.x = which ? (pixman_fixed_t)(px0 - (int64_t)vf_range (r, 1, 20 * 65536)) : (pixman_fixed_t)(px0 + (int64_t)vf_range (r, 1, 20 * 65536)); other.p2.x = other.p1.x + (pixman_fixed_t)(a * ((t.bottom - t.top + 131072) / b));
        u = t;
        mode4_line = e1;
        if (which) { t.right = e1; u.right = e2; t.left = other; u.left = other; } else { t.left = e1; u.left = e2; t.right = other; u.right = other; }
        tdesc (&t, td, sizeof td);
        vf_case_desc ("%s %s %dx%d %s | second description of the %s edge: (%x,%x)-(%x,%x)", mn[mode], rp_name (f), w, h, td, which ? "right" : "left", (unsigned)e2.p1.x, (unsigned)e2.p1.y, (unsigned)e2.p2.x, (unsigned)e2.p2.y);
        if (!edges_representable (&u) || !edges_representable (&t)) mode4_unrep = 1;
        if (judged) { pixman_rasterize_trapezoid (ia, &t, 0, 0); pixman_rasterize_trapezoid (ib, &u, 0, 0); }
    } else if (mode == 2) {
        int xo = (int)vf_range (r, -6, 6), yo = (int)vf_range (r, -4, 4);
        pixman_trapezoid_t s = t;
        s.top += yo * 65536; s.bottom += yo * 65536; s.left.p1.x += xo * 65536; s.left.p2.x += xo * 65536; s.right.p1.x += xo * 65536; s.right.p2.x += xo * 65536;
        s.left.p1.y += yo * 65536; s.left.p2.y += yo * 65536; s.right.p1.y += yo * 65536; s.right.p2.y += yo * 65536;
        pixman_rasterize_trapezoid (ia, &t, xo, yo);
        pixman_rasterize_trapezoid (ib, &s, 0, 0);
    } else {
        pixman_triangle_t tri; pixman_point_fixed_t p[3];
        for (int i = 0; i < 3; i++) { p[i].x = fxr (r, -6, w + 6); p[i].y = fxr (r, -4, h + 4); }
        /* small triangles: all three vertices within a pixel or two of each other (the orientation test works on small differences there) */
        if (vf_chance (r, 1, 4)) { double sp = vf_chance (r, 1, 2) ? 0.999 : 2.5; p[0].x = fxr (r, 0, w); p[0].y = fxr (r, 0, h);
            for (int i = 1; i < 3; i++) { p[i].x = p[0].x + fxr (r, -sp, sp); p[i].y = p[0].y + fxr (r, -sp, sp); } vf_count ("small_triangles", 1); }
        if (vf_chance (r, 1, 5)) p[1].y = p[0].y;
        tri.p1 = p[0]; tri.p2 = p[1]; tri.p3 = p[2];
        /* sort by y */
        for (int i = 0; i < 3; i++) for (int j = i + 1; j < 3; j++) if (p[j].y < p[i].y || (p[j].y == p[i].y && p[j].x < p[i].x)) { pixman_point_fixed_t q = p[i]; p[i] = p[j]; p[j] = q; }
        pixman_add_triangles (ia, 0, 0, 1, &tri);
        /* the long edge top->bot against top->mid and mid->bot */
        pixman_trapezoid_t a, b; int na = 0;
        i128 cross = ((i128)p[1].x - p[0].x) * ((i128)p[2].y - p[0].y) - ((i128)p[2].x - p[0].x) * ((i128)p[1].y - p[0].y);
        if (cross == 0) judged = 0;
        pixman_line_fixed_t longe = { p[0], p[2] }, e1 = { p[0], p[1] }, e2 = { p[1], p[2] };
        int mid_left = cross < 0 ? 0 : 1;  /* which side the middle vertex lies on is decided below by comparing x at mid.y */
        { int64_t xl; edge_cmp (&longe, p[1].y, 0, &xl); mid_left = p[1].x < xl || (p[0].y == p[2].y); }
        if (p[0].y != p[1].y) { a.top = p[0].y; a.bottom = p[1].y; if (mid_left) { a.left = e1; a.right = longe; } else { a.left = longe; a.right = e1; } na = 1; }
        int nb = 0;
        if (p[1].y != p[2].y) { b.top = p[1].y; b.bottom = p[2].y; if (mid_left) { b.left = e2; b.right = longe; } else { b.left = longe; b.right = e2; } nb = 1; }
        if (p[0].y == p[2].y) judged = 0;
        if (judged) { if (na) pixman_rasterize_trapezoid (ib, &a, 0, 0); if (nb) pixman_rasterize_trapezoid (ib, &b, 0, 0); }
        vf_case_desc ("%s %s %dx%d triangle (%x,%x) (%x,%x) (%x,%x)", mn[mode], rp_name (f), w, h, (unsigned)tri.p1.x, (unsigned)tri.p1.y, (unsigned)tri.p2.x, (unsigned)tri.p2.y, (unsigned)tri.p3.x, (unsigned)tri.p3.y);
    }
    vf_count ("shapes", 1);
    int unrep = (mode != 3 && !edges_representable (&t)) || mode4_unrep;
    if (unrep) vf_count ("edge_x_not_representable_shapes", 1);
    if (FOCUS12 && judged) {
        int fx, fy; vf_count ("evaluations", (long)w * h); vf_count ("metamorphic_cases", 1);
        vf_label ("meta_modes", "%s/a%d", mn[mode], depth_of (f));
        int nonzero = 0; for (size_t i = 0; i < A.bytes; i++) if (A.base[i]) { nonzero = 1; break; }
        if (nonzero) vf_cell ("cells", vf_mix (vf_mix (100 + mode, depth_of (f)), vf_hash (A.base, A.bytes, 3)));
        int differ = !images_equal (&A, &B, &fx, &fy);
        if (differ && mode == 4) {
            /* two descriptions of one line may be snapped to 1/65536 differently (the same resolution limit as the sample-count oracle):
             * a pixel may differ by at most the number of its samples that lie within 2/65536 of the line */
            int n = depth_of (f), explained = 1;
            for (int y = 0; y < h && explained; y++) for (int x = 0; x < w; x++) {
                int va = (int)vf_get_px (vf_buf_row (&A, y), A.bpp, x), vb = (int)vf_get_px (vf_buf_row (&B, y), B.bpp, x);
                if (va == vb) continue;
                int amb = 0;
                for (int k = 0; k < n_yfrac (n); k++) { int64_t yy = (int64_t)y * 65536 + y_first (n) + (int64_t)k * step_y (n);
                    if (!(t.top <= yy && yy < t.bottom)) continue;
                    for (int j = 0; j < n_xfrac (n); j++) { int64_t sx = (int64_t)x * 65536 + x_first (n) + (int64_t)j * step_x (n);
                        if (edge_cmp (&mode4_line, yy, sx - BAND, NULL) >= 0 && edge_cmp (&mode4_line, yy, sx + BAND, NULL) <= 0) amb++; } }
                int dv = va > vb ? va - vb : vb - va;
                if (dv > amb) { explained = 0; fx = x; fy = y; break; }
            }
            if (explained) { differ = 0; vf_count ("same_line_pairs_differing_only_at_snapped_samples", 1); }
        }
        if (differ) {
            char key[96]; snprintf (key, sizeof key, "C12:%s%s:a%d", unrep ? "edge-x-not-representable:" : "", mn[mode], depth_of (f));
            vf_violation (key, "pixel (%d,%d): %u in one rendering, %u in the other", fx, fy, vf_get_px (vf_buf_row (&A, fy), A.bpp, fx), vf_get_px (vf_buf_row (&B, fy), B.bpp, fx));
        }
    }
    pixman_image_unref (ia); pixman_image_unref (ib); vf_buf_free (&A); vf_buf_free (&B);
}

/* K4: composite_trapezoids / composite_triangles against mask-then-composite */
static const uint8_t zero_src_no_effect[] = { 0, 0, 1, 1, 1, 0, 0, 0, 1, 1, 0, 1, 1, 1 };   /* CLEAR SRC DST OVER OVER_REV IN IN_REV OUT OUT_REV ATOP ATOP_REV XOR ADD SATURATE */
static void composite_case (vf_rng *r)
{
    rq_request q1, q2; memset (&q1, 0, sizeof q1);
    unsigned prof = RQP_NO_INDEXED | RQP_NO_ALPHAMAP | RQP_NO_ACCESSORS | RQP_NARROW_ONLY | RQP_NO_GRADIENT;   /* gradient walkers step in single precision from the start of each span: not reproducible across different span origins */
    rq_gen_image (r, &q1.dst, 2, prof); rq_gen_image (r, &q1.src, 0, prof);
    /* a projective source whose w changes sign inside the destination has coordinates outside 16.16: composite32 refuses such a request depending on
     * the rectangle it is asked for, and the library's own route and the reference route ask for different rectangles - outside the statement */
    if (q1.src.tr_class == TR_PROJECTIVE) rq_gen_transform (r, &q1.src, TR_AFFINE, 0);
    int want_direct = vf_chance (r, 1, 4);
    pixman_format_code_t mf = pick_alpha (r);
    pixman_op_t op = vf_chance (r, 1, 2) ? PIXMAN_OP_OVER : (pixman_op_t)(vf_next (r) % 14);
    if (want_direct) {
        /* the direct route: ADD of an opaque source onto a destination of the mask's format.  It may only be taken without a destination clip and
         * without an effective source clip, so both kinds of clip are generated around it (clips that contain the shapes, clips that cut them) */
        op = PIXMAN_OP_ADD; q1.dst.fmt = mf;
        int dclip = (int)(vf_next (r) % 4);
        if (dclip == 0) { q1.dst.n_clip = 1; q1.dst.clip[0].x1 = 0; q1.dst.clip[0].y1 = 0; q1.dst.clip[0].x2 = q1.dst.w; q1.dst.clip[0].y2 = q1.dst.h; if (vf_chance (r, 1, 2)) { q1.dst.clip[0].x1 = (int)vf_range (r, 0, q1.dst.w / 2); q1.dst.clip[0].y2 = (int)vf_range (r, q1.dst.h / 2 + 1, q1.dst.h); } }
        else if (dclip >= 2) q1.dst.n_clip = 0;
        rq_image keep = q1.src;
        memset (&q1.src, 0, sizeof q1.src);
        if (vf_chance (r, 1, 3) && keep.kind == RQ_BITS) { q1.src = keep; q1.src.fmt = vf_chance (r, 1, 2) ? PIXMAN_x8r8g8b8 : PIXMAN_r5g6b5; q1.src.repeat = PIXMAN_REPEAT_NORMAL; q1.src.alpha_map = 0; }
        else { q1.src.kind = RQ_SOLID; q1.src.solid.alpha = 0xffff; q1.src.solid.red = (uint16_t)vf_next (r); pixman_transform_init_identity (&q1.src.tr); }
        int sclip = (int)(vf_next (r) % 3);
        if (sclip == 0) q1.src.n_clip = 0;
        else { q1.src.n_clip = 1 + (int)(vf_next (r) % 2); for (int i = 0; i < q1.src.n_clip; i++) { q1.src.clip[i].x1 = (int)vf_range (r, -2, q1.dst.w / 2); q1.src.clip[i].y1 = i * 3 + (int)vf_range (r, -1, 1); q1.src.clip[i].x2 = q1.src.clip[i].x1 + (int)vf_range (r, 1, q1.dst.w); q1.src.clip[i].y2 = q1.src.clip[i].y1 + (int)vf_range (r, 1, 3); }
               q1.src.clip_sources = !vf_chance (r, 1, 4); q1.src.has_client_clip_only = vf_chance (r, 1, 3); }
    }
    q1.dst.neg = 0;
    q2 = q1;
    vf_rng r1 = *r, r2 = *r;
    if (!rq_build (&q1, &r1)) return;
    if (!rq_build (&q2, &r2)) { rq_free (&q1); return; }
    vf_buf_snapshot (&q2.dst.buf);
    int n = (int)vf_range (r, 1, 4), use_tri = vf_chance (r, 1, 3);
    /* long lists: more shapes than any small fixed buffer holds (one saturating mask, one composite - not additive over the list) */
    if (vf_chance (r, 1, 10)) { n = vf_chance (r, 1, 2) ? (int)vf_range (r, 5, 20) : (int)vf_range (r, 30, 48); vf_count ("long_shape_lists", 1); }
    static pixman_trapezoid_t tr[48]; static pixman_triangle_t tri[48];
    for (int i = 0; i < n; i++) { gen_trap (r, &tr[i], q1.dst.w, q1.dst.h, 0);
        tri[i].p1.x = fxr (r, -6, q1.dst.w + 6); tri[i].p1.y = fxr (r, -4, q1.dst.h + 4); tri[i].p2.x = fxr (r, -6, q1.dst.w + 6); tri[i].p2.y = fxr (r, -4, q1.dst.h + 4); tri[i].p3.x = fxr (r, -6, q1.dst.w + 6); tri[i].p3.y = fxr (r, -4, q1.dst.h + 4); }
    int xs = (int)vf_range (r, -4, 6), ys = (int)vf_range (r, -3, 3), xd = (int)vf_range (r, -5, 5), yd = (int)vf_range (r, -3, 3);
    if (want_direct && q1.dst.n_clip && vf_chance (r, 1, 2)) {
        /* a destination clip that just contains the shapes where they are given (not where the offset puts them), set on both images */
        int64_t x1 = INT32_MAX, y1 = INT32_MAX, x2 = INT32_MIN, y2 = INT32_MIN;
        for (int i = 0; i < n; i++) {
            int64_t xv[4], yv[4]; int nv;
            if (!use_tri) { xv[0] = tr[i].left.p1.x; xv[1] = tr[i].left.p2.x; xv[2] = tr[i].right.p1.x; xv[3] = tr[i].right.p2.x; yv[0] = tr[i].top; yv[1] = tr[i].bottom; yv[2] = tr[i].top; yv[3] = tr[i].bottom; nv = 4; }
            else { xv[0] = tri[i].p1.x; xv[1] = tri[i].p2.x; xv[2] = tri[i].p3.x; yv[0] = tri[i].p1.y; yv[1] = tri[i].p2.y; yv[2] = tri[i].p3.y; nv = 3; }
            for (int k = 0; k < nv; k++) { if (xv[k] < x1) x1 = xv[k]; if (xv[k] > x2) x2 = xv[k]; if (yv[k] < y1) y1 = yv[k]; if (yv[k] > y2) y2 = yv[k]; }
        }
        pixman_region32_t reg; pixman_region32_init_rect (&reg, (int)(x1 >> 16) - 1, (int)(y1 >> 16) - 1, (unsigned)(((x2 + 0xffff) >> 16) - (x1 >> 16) + 2), (unsigned)(((y2 + 0xffff) >> 16) - (y1 >> 16) + 2));
        pixman_image_set_clip_region32 (q1.dst.img, &reg); pixman_image_set_clip_region32 (q2.dst.img, &reg); pixman_region32_fini (&reg);
        if (xd == 0 && yd == 0) xd = 2;
        vf_count ("direct_route_candidates_with_containing_clip", 1);
    }
    /* operators for which the library composites 'across the entire destination' (a zero source changes the destination, plus SATURATE and
     * everything beyond the 13 operators its table lists): with a non-zero destination offset it covers [x_dst, x_dst+width) only - a known
     * finding that is keyed separately below; most of these cases keep a zero offset */
    int whole_dest_class = op >= PIXMAN_OP_SATURATE || !zero_src_no_effect[op];
    if (whole_dest_class && vf_chance (r, 3, 4)) { xd = yd = 0; }
    static char desc[900]; rq_describe (&q1, desc, 500);
    vf_case_desc ("composite_%s n=%d op=%s mask_format=%s src_off=(%d,%d) dst_off=(%d,%d) | %s", use_tri ? "triangles" : "trapezoids", n, ro_op_name (op), rp_name (mf), xs, ys, xd, yd, desc);
    vf_inflight ("composite_%s n=%d op=%s mask_format=%s dst=%s %dx%d", use_tri ? "triangles" : "trapezoids", n, ro_op_name (op), rp_name (mf), rp_name (q1.dst.fmt), q1.dst.w, q1.dst.h);
    if (use_tri) pixman_composite_triangles (op, q1.src.img, q1.dst.img, mf, xs, ys, xd, yd, n, tri);
    else pixman_composite_trapezoids (op, q1.src.img, q1.dst.img, mf, xs, ys, xd, yd, n, tr);
    vf_count ("shapes", n);
    int repr = 1; for (int i = 0; i < n && !use_tri; i++) if (!edges_representable (&tr[i])) repr = 0;
    if (!repr) vf_count ("edge_x_not_representable_shapes", 1);
    if (FOCUS12) {
        /* reference route built from public calls: mask of the destination's size in destination space */
        pixman_image_t *mask = pixman_image_create_bits (mf, q2.dst.w, q2.dst.h, NULL, 0);
        if (mask) {
            if (use_tri) pixman_add_triangles (mask, xd, yd, n, tri);
            else for (int i = 0; i < n; i++) pixman_rasterize_trapezoid (mask, &tr[i], xd, yd);
            pixman_image_composite32 (op, q2.src.img, mask, q2.dst.img, xs - xd, ys - yd, 0, 0, 0, 0, q2.dst.w, q2.dst.h);
            pixman_image_unref (mask);
            vf_count ("evaluations", (long)q1.dst.w * q1.dst.h); vf_count ("composite_cases", 1);
            vf_label ("composite_op_mask", "%s/%s/%s", use_tri ? "tri" : "trap", ro_op_name (op), rp_name (mf));
            vf_cell ("cells", vf_mix (vf_mix (200 + use_tri, op * 16 + depth_of (mf)), vf_mix ((uint64_t)q1.dst.fmt, want_direct * 2 + (q1.dst.n_clip > 0) + 4 * (q1.src.n_clip > 0) + 8 * q1.src.clip_sources + 16 * q1.src.has_client_clip_only)));
            if (want_direct) vf_label ("direct_route_clips", "dst-clip=%d src-clip=%d clip_sources=%d client_clip=%d", q1.dst.n_clip > 0, q1.src.n_clip > 0, q1.src.clip_sources, !q1.src.has_client_clip_only);
            if (rq_digest (&q1) != rq_digest (&q2)) {
                int fx = -1, fy = -1; images_equal (&q1.dst.buf, &q2.dst.buf, &fx, &fy);
                char key[128]; snprintf (key, sizeof key, "C12:composite-%s-vs-mask-route:%s%s", use_tri ? "triangles" : "trapezoids", ro_op_name (op), want_direct ? ":direct-add-route" : "");
                if (!repr) snprintf (key, sizeof key, "C12:edge-x-not-representable:composite-vs-mask-route");
                if (repr && !use_tri && !whole_dest_class) {
                    /* the library sizes its temporary mask from the edge END POINTS; an edge that does not span [top,bottom] is extrapolated
                     * beyond them and coverage outside that box is lost: is the difference exactly that? */
                    int64_t bx1 = INT32_MAX, by1 = INT32_MAX, bx2 = INT32_MIN, by2 = INT32_MIN; int short_edge = 0;
                    for (int i = 0; i < n; i++) { const pixman_trapezoid_t *t = &tr[i]; if (!pixman_trapezoid_valid (t)) continue;
                        int64_t xs_[4] = { t->left.p1.x, t->left.p2.x, t->right.p1.x, t->right.p2.x };
                        for (int k = 0; k < 4; k++) { int64_t lo = xs_[k] >> 16, hi = (xs_[k] + 0xffff) >> 16; if (lo < bx1) bx1 = lo; if (hi > bx2) bx2 = hi; }
                        if ((t->top >> 16) < by1) by1 = t->top >> 16;
                        if ((((int64_t)t->bottom + 0xffff) >> 16) > by2) by2 = ((int64_t)t->bottom + 0xffff) >> 16;
                        const pixman_line_fixed_t *e[2] = { &t->left, &t->right };
                        for (int k = 0; k < 2; k++) { pixman_fixed_t ylo = e[k]->p1.y < e[k]->p2.y ? e[k]->p1.y : e[k]->p2.y, yhi = e[k]->p1.y < e[k]->p2.y ? e[k]->p2.y : e[k]->p1.y; if (ylo > t->top || yhi < t->bottom) short_edge = 1; } }
                    int explained = short_edge;
                    for (int y = 0; y < q1.dst.h && explained; y++) for (int x = 0; x < q1.dst.w; x++) {
                        uint32_t m = q1.dst.buf.bpp <= 32 && rp_is_direct (q1.dst.fmt) ? rp_defined_mask (q1.dst.fmt) : 0xffffffffu;
                        uint32_t a = vf_get_px (vf_buf_row (&q1.dst.buf, y), q1.dst.buf.bpp, x) & m, b = vf_get_px (vf_buf_row (&q2.dst.buf, y), q2.dst.buf.bpp, x) & m, o = vf_get_px (vf_buf_snaprow (&q2.dst.buf, y), q2.dst.buf.bpp, x) & m;
                        int inbox = x - xd >= bx1 && x - xd < bx2 && y - yd >= by1 && y - yd < by2;
                        if (inbox ? a != b : a != o) { explained = 0; break; }
                    }
                    if (explained) snprintf (key, sizeof key, "C12:composite-extents-from-edge-endpoints:%s", ro_op_name (op));
                }
                if (repr && whole_dest_class && (xd || yd)) {
                    /* is the difference exactly 'the library only handled the destination-sized box placed at the offset'? */
                    int explained = 1;
                    for (int y = 0; y < q1.dst.h && explained; y++) for (int x = 0; x < q1.dst.w; x++) {
                        uint32_t a = vf_get_px (vf_buf_row (&q1.dst.buf, y), q1.dst.buf.bpp, x), b = vf_get_px (vf_buf_row (&q2.dst.buf, y), q2.dst.buf.bpp, x), o = vf_get_px (vf_buf_snaprow (&q2.dst.buf, y), q2.dst.buf.bpp, x);
                        int inbox = x >= xd && x < xd + q1.dst.w && y >= yd && y < yd + q1.dst.h;
                        if (inbox ? a != b : a != o) { explained = 0; break; }
                    }
                    if (explained) snprintf (key, sizeof key, "C12:composite-whole-destination-box-ignores-offset:%s", ro_op_name (op));
                }
                char tds[700] = ""; int kk = 0; for (int i = 0; i < n && i < 2 && !use_tri; i++) { char one[300]; tdesc (&tr[i], one, sizeof one); kk += snprintf (tds + kk, sizeof tds - kk, " T%d{%s}", i, one); }
                vf_violation (key, "pixel (%d,%d): composite_%s leaves %x, rasterise-into-a-%s-mask-then-composite leaves %x (before: %x)%s", fx, fy, use_tri ? "triangles" : "trapezoids",
                              vf_get_px (vf_buf_row (&q1.dst.buf, fy), q1.dst.buf.bpp, fx), rp_name (mf), vf_get_px (vf_buf_row (&q2.dst.buf, fy), q2.dst.buf.bpp, fx), vf_get_px (vf_buf_snaprow (&q2.dst.buf, fy), q2.dst.buf.bpp, fx), tds);
            }
        }
    }
    rq_free (&q1); rq_free (&q2);
}

/* other direct entry points (safety, and equality add_trapezoids == rasterize_trapezoid loop) */
static void addtraps_case (vf_rng *r)
{
    pixman_format_code_t f = pick_alpha (r);
    int w = (int)vf_range (r, 1, 40), h = (int)vf_range (r, 1, 12);
    vf_buf A, B; if (!vf_buf_alloc (&A, f, w, h, 0, 0, vf_default_place (r))) return; if (!vf_buf_alloc (&B, f, w, h, 0, 0, vf_default_place (r))) { vf_buf_free (&A); return; }
    memset (A.base, 0, A.bytes); memset (B.base, 0, B.bytes);
    pixman_image_t *ia = vf_buf_image (&A), *ib = vf_buf_image (&B);
    int n = (int)vf_range (r, 1, 4); pixman_trapezoid_t tr[4]; pixman_trap_t tp[4];
    for (int i = 0; i < n; i++) { gen_trap (r, &tr[i], w, h, 1);
        tp[i].top.y = fxr (r, -3, h); tp[i].bot.y = tp[i].top.y + (pixman_fixed_t)vf_range (r, 0, (int64_t)(h + 3) * 65536);
        tp[i].top.l = fxr (r, -6, w); tp[i].top.r = tp[i].top.l + (pixman_fixed_t)vf_range (r, 0, (int64_t)(w + 6) * 65536); tp[i].bot.l = fxr (r, -6, w); tp[i].bot.r = tp[i].bot.l + (pixman_fixed_t)vf_range (r, 0, (int64_t)(w + 6) * 65536); }
    int xo = (int)vf_range (r, -4, 4), yo = (int)vf_range (r, -3, 3);
    vf_case_desc ("add_trapezoids vs rasterize_trapezoid loop, %s %dx%d n=%d offset=(%d,%d)", rp_name (f), w, h, n, xo, yo);
    vf_inflight ("add_trapezoids/add_traps %s %dx%d n=%d", rp_name (f), w, h, n);
    pixman_add_trapezoids (ia, (int16_t)xo, yo, n, tr);
    for (int i = 0; i < n; i++) pixman_rasterize_trapezoid (ib, &tr[i], xo, yo);
    vf_count ("shapes", n);
    int repr = 1; for (int i = 0; i < n; i++) if (!edges_representable (&tr[i])) repr = 0;
    if (FOCUS12) { int fx, fy; vf_count ("evaluations", (long)w * h);
        if (!images_equal (&A, &B, &fx, &fy)) vf_violation (repr ? "C12:add_trapezoids-vs-rasterize" : "C12:edge-x-not-representable:add_trapezoids-vs-rasterize", "pixel (%d,%d) differs", fx, fy); }
    /* pixman_add_traps: a list is the sum of its members (some of which cover no sample row: above or below the image, upside down,
     * a sliver between two sample rows) */
    for (int i = 0; i < n; i++) if (vf_chance (r, 1, 3)) { switch (vf_next (r) % 4) {
        case 0: tp[i].top.y = fxr (r, -9, -5); tp[i].bot.y = tp[i].top.y + 65536; break;
        case 1: tp[i].top.y = (pixman_fixed_t)((h + 3) * 65536); tp[i].bot.y = tp[i].top.y + 3 * 65536; break;
        case 2: { pixman_fixed_t t = tp[i].top.y; tp[i].top.y = tp[i].bot.y + 1; tp[i].bot.y = t; break; }
        default: tp[i].bot.y = tp[i].top.y + (pixman_fixed_t)vf_range (r, 0, 200); break; } }
    memset (A.base, 0, A.bytes); memset (B.base, 0, B.bytes);
    pixman_add_traps (ia, (int16_t)xo, (int16_t)yo, n, tp);
    for (int i = 0; i < n; i++) pixman_add_traps (ib, (int16_t)xo, (int16_t)yo, 1, &tp[i]);
    if (FOCUS12) { int fx, fy; vf_count ("evaluations", (long)w * h); vf_count ("add_traps_lists", 1);
        if (!images_equal (&A, &B, &fx, &fy)) vf_violation ("C12:add_traps-list-vs-members", "pixel (%d,%d): adding a list of %d traps gives %x, adding its members one by one %x", fx, fy, n,
                                                            vf_get_px (vf_buf_row (&A, fy), A.bpp, fx), vf_get_px (vf_buf_row (&B, fy), B.bpp, fx)); }
    pixman_image_unref (ia); pixman_image_unref (ib); vf_buf_free (&A); vf_buf_free (&B);
}

static void trap_case (long idx, vf_rng *r)
{
    for (int k = 0; k < 10; k++) {
        switch (vf_next (r) % 8) { case 0: case 1: case 2: count_case (r); break; case 3: case 4: case 5: meta_case (r); break; case 6: composite_case (r); break; default: if (vf_chance (r, 1, 2)) composite_case (r); else addtraps_case (r); break; }
    }
    if (idx < 2) vf_sample ("case %ld: 10 shapes over {sample-count oracle on a1/a4/a8, abutting splits, whole-pixel offsets, triangle decomposition, composite_trapezoids/triangles vs mask route, add_trapezoids}", idx);
}

static void init (void) { const char *b = getenv ("VF_TRAP_BAND"); if (b) BAND = atoi (b); }     /* development knob; registered runs use the default */
int main (int argc, char **argv) { return vf_main (argc, argv, "C12", init, trap_case, NULL); }
