/* Reference compositing equations (Render / PDF), written from the specifications.
 * (a) exact 8-bit integer rule for the Porter-Duff operators and ADD;
 * (b) real-valued evaluation of all 53 operators, with a hull over small input
 *     perturbations so that genuinely discontinuous operators never raise a false alarm. */
#ifndef REF_OPS_H
#define REF_OPS_H
#include "vf.h"

extern const pixman_op_t ro_ops[];
extern const int ro_nops;            /* 53 */
const char *ro_op_name (pixman_op_t op);
int ro_is_exact_op (pixman_op_t op);     /* CLEAR..ADD: the operators with an exact integer rule */
int ro_needs_float (pixman_op_t op);     /* evaluated in floating point even on narrow formats */
int ro_is_hsl (pixman_op_t op);
int ro_is_pdf_blend (pixman_op_t op);    /* MULTIPLY..HSL_LUMINOSITY */

/* mask modes */
enum { RO_NOMASK = 0, RO_UNIFIED = 1, RO_CA = 2 };

/* exact rule: channels a,r,g,b as 8-bit; returns result channels */
void ro_exact8 (pixman_op_t op, int mode, const uint8_t s[4], const uint8_t m[4], const uint8_t d[4], uint8_t out[4]);
/* mul(a,b) = round(a*b/255) to nearest */
static inline unsigned ro_mul8 (unsigned a, unsigned b) { unsigned t = a * b + 0x80; return (t + (t >> 8)) >> 8; }

/* real-valued: inputs premultiplied in [0,1] (a,r,g,b); mask likewise; output interval per channel */
void ro_real (pixman_op_t op, int mode, const double s[4], const double m[4], const double d[4], double lo[4], double hi[4]);

#endif
