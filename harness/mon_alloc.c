/* Monitor for C15 (fault enumeration): every scenario is first run once to count its allocations N,
 * then N times with the k-th allocation failing once and N times with the k-th and all later ones
 * failing.  Oracles: no crash (ASan), return values report the failure, a failed region operation
 * leaves a broken region that later operations propagate and fini accepts, successful calls give the
 * baseline result, nothing outside the request rectangle is written, and no block allocated during
 * the scenario is still live at its end. */
#include "vf.h"
#include "vf_alloc.h"
#include <math.h>

typedef struct { int bad; char msg[240]; uint64_t digest; int reported_failure; } res_t;
#define FAIL(r, ...) do { if (!(r)->bad) { (r)->bad = 1; snprintf ((r)->msg, sizeof (r)->msg, __VA_ARGS__); } } while (0)

static uint32_t px_a[64 * 64], px_b[64 * 64], px_c[2200 * 4], px_d[2200 * 4];
static uint64_t size_variant;       /* scenario size knob (thorough tier varies it) */

static void boxes_grid (pixman_box32_t *b, int n, int ox, int oy, int vertical)
{ for (int i = 0; i < n; i++) { if (vertical) { b[i].x1 = ox + i * 4; b[i].x2 = b[i].x1 + 2; b[i].y1 = oy; b[i].y2 = oy + 100; } else { b[i].y1 = oy + i * 4; b[i].y2 = b[i].y1 + 2; b[i].x1 = ox; b[i].x2 = ox + 100; } } }
static uint64_t reg_digest (pixman_region32_t *r) { int n; pixman_box32_t *b = pixman_region32_rectangles (r, &n); return vf_hash (b, n * sizeof *b, (uint64_t)n); }

/* after a region operation reported failure: the result must be the broken region */
static void check_broken (res_t *res, pixman_region32_t *d, const char *op)
{
    res->reported_failure = 1;
    if (pixman_region32_n_rects (d) != 0 || pixman_region32_not_empty (d)) { FAIL (res, "%s returned FALSE but the result is not the broken (empty) region", op); return; }
    pixman_region32_t other, out; pixman_region32_init_rect (&other, 1, 1, 5, 5); pixman_region32_init (&out);
    if (pixman_region32_union (&out, d, &other)) FAIL (res, "%s failed, but a later union with its result returned TRUE (broken region not propagated)", op);
    if (pixman_region32_intersect (&out, &other, d)) FAIL (res, "%s failed, but a later intersect with its result returned TRUE", op);
    pixman_region32_fini (&other); pixman_region32_fini (&out);
}

/* ---------------- region scenarios ---------------- */
static void sc_region_binary (res_t *res, int which)
{
    int n = 12 + (int)(size_variant % 20);
    pixman_box32_t b1[40], b2[40]; boxes_grid (b1, n, 0, 0, 1); boxes_grid (b2, n, 1, 1, 0);
    pixman_region32_t a, b, d; pixman_region32_init (&d);
    if (!pixman_region32_init_rects (&a, b1, n)) { res->reported_failure = 1; pixman_region32_fini (&a); pixman_region32_fini (&d); return; }
    if (!pixman_region32_init_rects (&b, b2, n)) { res->reported_failure = 1; pixman_region32_fini (&a); pixman_region32_fini (&b); pixman_region32_fini (&d); return; }
    static const char *nm[] = { "union", "subtract", "intersect", "inverse", "union-in-place", "copy" };
    pixman_bool_t ok; pixman_box32_t ib = { -5, -5, 200, 200 };
    switch (which) { case 0: ok = pixman_region32_union (&d, &a, &b); break; case 1: ok = pixman_region32_subtract (&d, &a, &b); break; case 2: ok = pixman_region32_intersect (&d, &a, &b); break;
    case 3: ok = pixman_region32_inverse (&d, &a, &ib); break; case 4: pixman_region32_copy (&d, &a); ok = pixman_region32_union (&d, &d, &b); break; default: ok = pixman_region32_copy (&d, &a); break; }
    if (!ok) check_broken (res, &d, nm[which]); else res->digest = reg_digest (&d);
    if (ok && !pixman_region32_selfcheck (&d)) FAIL (res, "%s returned TRUE with a malformed region", nm[which]);
    pixman_region32_fini (&a); pixman_region32_fini (&b); pixman_region32_fini (&d);
}
static void sc_union (res_t *r) { sc_region_binary (r, 0); }
static void sc_subtract (res_t *r) { sc_region_binary (r, 1); }
static void sc_intersect (res_t *r) { sc_region_binary (r, 2); }
static void sc_inverse (res_t *r) { sc_region_binary (r, 3); }
static void sc_union_inplace (res_t *r) { sc_region_binary (r, 4); }
static void sc_copy (res_t *r) { sc_region_binary (r, 5); }
/* the same operations into a result object that already owns a rectangle array (too small: 3 boxes, or larger than needed: 60 boxes) */
static void sc_region_into_populated (res_t *res, int which, int big)
{
    int n = 10 + (int)(size_variant % 14);
    pixman_box32_t b1[40], b2[40], b0[64]; boxes_grid (b1, n, 0, 0, 1); boxes_grid (b2, n, 1, 1, 0); boxes_grid (b0, big ? 60 : 3, 300, 300, 1);
    pixman_region32_t a, b, d;
    if (!pixman_region32_init_rects (&d, b0, big ? 60 : 3)) { res->reported_failure = 1; pixman_region32_fini (&d); return; }
    if (!pixman_region32_init_rects (&a, b1, n)) { res->reported_failure = 1; pixman_region32_fini (&a); pixman_region32_fini (&d); return; }
    if (!pixman_region32_init_rects (&b, b2, n)) { res->reported_failure = 1; pixman_region32_fini (&a); pixman_region32_fini (&b); pixman_region32_fini (&d); return; }
    static const char *nm[] = { "copy", "union", "subtract", "intersect", "inverse", "union_rect", "intersect-then-union" };
    pixman_bool_t ok; pixman_box32_t ib = { -5, -5, 200, 200 };
    switch (which) { case 0: ok = pixman_region32_copy (&d, &a); break; case 1: ok = pixman_region32_union (&d, &a, &b); break; case 2: ok = pixman_region32_subtract (&d, &a, &b); break;
    case 3: ok = pixman_region32_intersect (&d, &a, &b); break; case 4: ok = pixman_region32_inverse (&d, &a, &ib); break; case 5: ok = pixman_region32_union_rect (&d, &a, 1, 50, 300, 3); break;
    default: ok = pixman_region32_intersect (&d, &d, &a); if (ok) ok = pixman_region32_union (&d, &d, &b); break; }
    if (!ok) check_broken (res, &d, nm[which]); else res->digest = reg_digest (&d);
    if (ok && !pixman_region32_selfcheck (&d)) FAIL (res, "%s into a populated region returned TRUE with a malformed region", nm[which]);
    /* a failed operation must not have damaged its operands */
    if (!pixman_region32_selfcheck (&a) || !pixman_region32_selfcheck (&b) || pixman_region32_n_rects (&a) != n || pixman_region32_n_rects (&b) != n) FAIL (res, "%s changed its operands", nm[which]);
    /* the object stays usable: a broken or valid region can be reset and filled again */
    pixman_box32_t one = { 1, 2, 30, 40 }; pixman_region32_reset (&d, &one);
    if (pixman_region32_n_rects (&d) != 1 || !pixman_region32_contains_point (&d, 5, 5, NULL)) FAIL (res, "region not usable after %s", nm[which]);
    pixman_region32_fini (&a); pixman_region32_fini (&b); pixman_region32_fini (&d);
}
static void sc_pop_copy (res_t *r) { sc_region_into_populated (r, 0, 0); }
static void sc_pop_union (res_t *r) { sc_region_into_populated (r, 1, 0); }
static void sc_pop_subtract (res_t *r) { sc_region_into_populated (r, 2, 0); }
static void sc_pop_intersect (res_t *r) { sc_region_into_populated (r, 3, 0); }
static void sc_pop_inverse (res_t *r) { sc_region_into_populated (r, 4, 0); }
static void sc_pop_union_rect (res_t *r) { sc_region_into_populated (r, 5, 0); }
static void sc_pop_chain (res_t *r) { sc_region_into_populated (r, 6, 0); }
static void sc_bigpop_copy (res_t *r) { sc_region_into_populated (r, 0, 1); }
static void sc_bigpop_subtract (res_t *r) { sc_region_into_populated (r, 2, 1); }
/* 16-bit API: every binary operation into a populated result */
static void sc_region16_into_populated (res_t *res)
{
    pixman_box16_t b1[24], b2[24], b0[3] = { { 300, 300, 302, 400 }, { 304, 300, 306, 400 }, { 308, 300, 310, 400 } };
    for (int i = 0; i < 24; i++) { b1[i].x1 = (int16_t)(i * 4); b1[i].x2 = (int16_t)(i * 4 + 2); b1[i].y1 = 0; b1[i].y2 = 90; b2[i].y1 = (int16_t)(i * 4); b2[i].y2 = (int16_t)(i * 4 + 2); b2[i].x1 = 1; b2[i].x2 = 90; }
    pixman_region16_t a, b; int okab = pixman_region_init_rects (&a, b1, 24); int okb = pixman_region_init_rects (&b, b2, 24);
    if (!okab || !okb) { res->reported_failure = 1; pixman_region_fini (&a); pixman_region_fini (&b); return; }
    uint64_t dg = 0; pixman_box16_t ib = { -5, -5, 200, 200 };
    for (int which = 0; which < 5; which++) {
        pixman_region16_t d; if (!pixman_region_init_rects (&d, b0, 3)) { res->reported_failure = 1; pixman_region_fini (&d); continue; }
        pixman_bool_t ok = which == 0 ? pixman_region_copy (&d, &a) : which == 1 ? pixman_region_union (&d, &a, &b) : which == 2 ? pixman_region_intersect (&d, &a, &b) : which == 3 ? pixman_region_inverse (&d, &a, &ib) : pixman_region_subtract (&d, &b, &a);
        if (!ok) { res->reported_failure = 1; if (pixman_region_n_rects (&d) || pixman_region_not_empty (&d)) FAIL (res, "16-bit operation %d failed without leaving the broken region", which);
            pixman_region16_t o; pixman_region_init (&o); if (pixman_region_union (&o, &d, &a)) FAIL (res, "broken 16-bit region not propagated"); pixman_region_fini (&o); }
        else { int n; pixman_box16_t *bx = pixman_region_rectangles (&d, &n); dg = vf_hash (bx, n * sizeof *bx, dg + which); if (!pixman_region_selfcheck (&d)) FAIL (res, "16-bit operation %d returned TRUE with a malformed region", which); }
        pixman_region_fini (&d);
    }
    res->digest = dg;
    pixman_region_fini (&a); pixman_region_fini (&b);
}
/* init_from_image: a checkerboard-like a1 image (many rectangles, several reallocations) */
static void sc_region_from_image (res_t *res)
{
    static uint32_t bits[40 * 2]; for (int y = 0; y < 40; y++) { bits[y * 2] = (y & 2) ? 0x33333333u : 0xccccccccu; bits[y * 2 + 1] = (y & 4) ? 0x0f0f0f0fu : 0xf0f0f0f0u; }
    pixman_image_t *im = pixman_image_create_bits (PIXMAN_a1, 61, 40, bits, 8);
    if (!im) { res->reported_failure = 1; return; }
    pixman_region32_t d; pixman_region32_init_from_image (&d, im);
    /* void function: a failure shows as the broken (empty) region */
    if (pixman_region32_n_rects (&d) == 0) { res->reported_failure = 1; pixman_region32_t o, x; pixman_region32_init_rect (&o, 0, 0, 4, 4); pixman_region32_init (&x);
        if (vf_alloc_failed () && pixman_region32_union (&x, &d, &o)) FAIL (res, "init_from_image failed but its result is not the broken region"); pixman_region32_fini (&o); pixman_region32_fini (&x); }
    else { res->digest = reg_digest (&d); if (!pixman_region32_selfcheck (&d)) FAIL (res, "init_from_image produced a malformed region"); }
    pixman_region32_fini (&d);
    pixman_region16_t d16; pixman_region_init_from_image (&d16, im);
    if (pixman_region_n_rects (&d16) && !pixman_region_selfcheck (&d16)) FAIL (res, "16-bit init_from_image produced a malformed region");
    if (!pixman_region_n_rects (&d16)) res->reported_failure = 1;
    pixman_region_fini (&d16);
    pixman_image_unref (im);
}
static void sc_init_rects_validate (res_t *res)
{
    /* overlapping, unsorted boxes in two misaligned grids: init_rects has to validate (several reallocations) */
    static pixman_box32_t b[400]; int n = 100 + (int)(size_variant % 300);
    for (int i = 0; i < n; i++) { int k = (i * 37) % n; b[i].x1 = (k % 20) * 7 + (i & 1) * 3; b[i].y1 = (k / 20) * 5 + (i & 2); b[i].x2 = b[i].x1 + 9; b[i].y2 = b[i].y1 + 6; }
    pixman_region32_t d;
    if (!pixman_region32_init_rects (&d, b, n)) check_broken (res, &d, "init_rects"); else { res->digest = reg_digest (&d); if (!pixman_region32_selfcheck (&d)) FAIL (res, "init_rects returned TRUE with a malformed region"); }
    pixman_region32_fini (&d);
}
/* K pairs of tall boxes, each pair starting one row below the previous one: no pair can be appended to, or share a band with, an earlier one, so
 * validation scatters them into K partial regions of two boxes each (all owning heap data) and merges them pairwise over several passes */
static void sc_init_rects_many_partial_regions (res_t *res)
{
    static pixman_box32_t b[64]; int K = 4 + (int)(size_variant % 13);
    for (int k = 0; k < K; k++) { pixman_box32_t *a = &b[2 * k], *c = &b[2 * k + 1]; a->x1 = 10 * k; a->x2 = a->x1 + 5; c->x1 = 1000 + 10 * k; c->x2 = c->x1 + 5; a->y1 = c->y1 = k; a->y2 = c->y2 = k + 100; }
    pixman_region32_t d;
    if (!pixman_region32_init_rects (&d, b, 2 * K)) check_broken (res, &d, "init_rects"); else { res->digest = reg_digest (&d); if (!pixman_region32_selfcheck (&d)) FAIL (res, "init_rects returned TRUE with a malformed region"); }
    pixman_region32_fini (&d);
    /* the 16-bit variant through the image clip setter (copy_from_region16 + validate) */
    static pixman_box16_t b16[64]; for (int i = 0; i < 2 * K; i++) { b16[i].x1 = (int16_t)b[i].x1; b16[i].x2 = (int16_t)b[i].x2; b16[i].y1 = (int16_t)b[i].y1; b16[i].y2 = (int16_t)b[i].y2; }
    pixman_region16_t d16;
    if (!pixman_region_init_rects (&d16, b16, 2 * K)) res->reported_failure = 1; else if (!pixman_region_selfcheck (&d16)) FAIL (res, "16-bit init_rects returned TRUE with a malformed region");
    pixman_region_fini (&d16);
}
static void sc_union_rect_growth (res_t *res)
{
    pixman_region32_t d; pixman_region32_init (&d); int failed = 0;
    for (int i = 0; i < 40 && !failed; i++) if (!pixman_region32_union_rect (&d, &d, (i * 7) % 50, i * 3, 4, 2)) { failed = 1; check_broken (res, &d, "union_rect"); }
    if (!failed) res->digest = reg_digest (&d);
    pixman_region32_fini (&d);
}
static void sc_region16 (res_t *res)
{
    pixman_box16_t b1[24], b2[24]; for (int i = 0; i < 24; i++) { b1[i].x1 = (int16_t)(i * 4); b1[i].x2 = (int16_t)(i * 4 + 2); b1[i].y1 = 0; b1[i].y2 = 90; b2[i].y1 = (int16_t)(i * 4); b2[i].y2 = (int16_t)(i * 4 + 2); b2[i].x1 = 1; b2[i].x2 = 90; }
    pixman_region16_t a, b, d; pixman_region_init (&d);
    if (!pixman_region_init_rects (&a, b1, 24)) { res->reported_failure = 1; pixman_region_fini (&a); pixman_region_fini (&d); return; }
    if (!pixman_region_init_rects (&b, b2, 24)) { res->reported_failure = 1; pixman_region_fini (&a); pixman_region_fini (&b); pixman_region_fini (&d); return; }
    if (!pixman_region_subtract (&d, &a, &b)) { res->reported_failure = 1; if (pixman_region_n_rects (&d) || pixman_region_not_empty (&d)) FAIL (res, "16-bit subtract failed without leaving the broken region");
        pixman_region16_t o; pixman_region_init (&o); if (pixman_region_union (&o, &d, &a)) FAIL (res, "broken 16-bit region not propagated"); pixman_region_fini (&o); }
    else { int n; pixman_box16_t *bx = pixman_region_rectangles (&d, &n); res->digest = vf_hash (bx, n * sizeof *bx, 1); }
    pixman_region_fini (&a); pixman_region_fini (&b); pixman_region_fini (&d);
}

/* ---------------- image constructors / setters ---------------- */
static pixman_image_t *small_src (void) { return pixman_image_create_bits (PIXMAN_a8r8g8b8, 16, 8, px_a, 64); }
static void sc_create_bits (res_t *res)
{
    pixman_image_t *i = pixman_image_create_bits (PIXMAN_a8r8g8b8, 40, 9, NULL, 0);
    if (!i) { res->reported_failure = 1; return; }
    uint32_t *d = pixman_image_get_data (i); if (!d) FAIL (res, "create_bits returned an image without storage"); else { d[0] = 1; d[40 * 9 - 1] = 2; }
    pixman_image_unref (i); res->digest = 1;
}
static void sc_create_gradients (res_t *res)
{
    pixman_gradient_stop_t st[3] = { { 0, { 0xffff, 0, 0, 0xffff } }, { 0x8000, { 0, 0xffff, 0, 0x8000 } }, { 0x10000, { 0, 0, 0xffff, 0xffff } } };
    pixman_point_fixed_t p1 = { 0, 0 }, p2 = { 20 << 16, 5 << 16 };
    pixman_image_t *g[3] = { pixman_image_create_linear_gradient (&p1, &p2, st, 3), pixman_image_create_radial_gradient (&p1, &p2, 1 << 16, 9 << 16, st, 3), pixman_image_create_conical_gradient (&p2, 30 << 16, st, 3) };
    pixman_image_t *d = pixman_image_create_bits (PIXMAN_a8r8g8b8, 24, 4, px_b, 96);
    memset (px_b, 0, 96 * 4);
    for (int i = 0; i < 3; i++) { if (!g[i]) { res->reported_failure = 1; continue; } if (d) pixman_image_composite32 (PIXMAN_OP_OVER, g[i], NULL, d, 0, 0, 0, 0, 0, 0, 24, 4); pixman_image_unref (g[i]); }
    if (d) { res->digest = vf_hash (px_b, 96 * 4, 0); pixman_image_unref (d); } else res->reported_failure = 1;
}
static void sc_solid_and_setters (res_t *res)
{
    pixman_color_t c = { 0x1234, 0x5678, 0x9abc, 0xffff };
    pixman_image_t *s = pixman_image_create_solid_fill (&c), *b = small_src ();
    if (!s || !b) { res->reported_failure = 1; if (s) pixman_image_unref (s); if (b) pixman_image_unref (b); return; }
    pixman_transform_t t; pixman_transform_init_scale (&t, 3 << 15, 1 << 16);
    int fails = 0;
    if (!pixman_image_set_transform (b, &t)) fails++;
    pixman_fixed_t k[11] = { 3 << 16, 3 << 16, 7000, 7000, 7000, 7000, 9536, 7000, 7000, 7000, 7000 };
    if (!pixman_image_set_filter (b, PIXMAN_FILTER_CONVOLUTION, k, 11)) fails++;
    pixman_box32_t cb[6]; boxes_grid (cb, 6, 0, 0, 1); pixman_region32_t reg;
    if (pixman_region32_init_rects (&reg, cb, 6)) { if (!pixman_image_set_clip_region32 (b, &reg)) fails++; } else fails++;
    pixman_region32_fini (&reg);
    pixman_box16_t cb16[5] = { { 0, 0, 3, 3 }, { 5, 0, 8, 3 }, { 0, 5, 3, 8 }, { 5, 5, 8, 8 }, { 10, 1, 12, 7 } }; pixman_region16_t r16;
    if (pixman_region_init_rects (&r16, cb16, 5)) { if (!pixman_image_set_clip_region (s, &r16)) fails++; } else fails++;
    pixman_region_fini (&r16);
    if (fails) res->reported_failure = 1;
    /* the objects stay usable whatever failed */
    pixman_image_t *d = pixman_image_create_bits (PIXMAN_a8r8g8b8, 24, 4, px_b, 96); memset (px_b, 0x40, 96 * 4);
    if (d) { pixman_image_composite32 (PIXMAN_OP_OVER, b, s, d, 0, 0, 0, 0, 0, 0, 24, 4); if (!fails) res->digest = vf_hash (px_b, 96 * 4, 0); pixman_image_unref (d); } else res->reported_failure = 1;
    pixman_image_unref (s); pixman_image_unref (b);
}
static void sc_filter_create (res_t *res)
{
    int n = 0; pixman_fixed_t *p = pixman_filter_create_separable_convolution (&n, 3 << 15, 1 << 16, PIXMAN_KERNEL_LINEAR, PIXMAN_KERNEL_CUBIC, PIXMAN_KERNEL_BOX, PIXMAN_KERNEL_LINEAR, 2, 1);
    if (!p) { res->reported_failure = 1; return; }
    res->digest = vf_hash (p, n * sizeof *p, 0); free (p);
}

#define MARGIN_PATTERN 0x5a5a5a5au
static int margin_intact (const uint32_t *px, int stride_px, int w, int h, int x0, int y0, int rw, int rh)
{ for (int y = 0; y < h; y++) for (int x = 0; x < w; x++) if (!(x >= x0 && x < x0 + rw && y >= y0 && y < y0 + rh) && px[y * stride_px + x] != MARGIN_PATTERN) return 0; return 1; }
/* ONE drawing call per scenario: under any allocation failure every destination pixel is either untouched or what the failure-free call leaves
 * ("complete correctly or skip work").  The failure-free run comes first and records its result. */
#define ONCE_MAX (2200 * 6)
static uint32_t once_final[8][ONCE_MAX];
static void once_check (res_t *res, int slot, const uint32_t *px, int n, uint32_t initial, const char *what)
{
    if (!vf_alloc_failed ()) { memcpy (once_final[slot], px, (size_t)n * 4); return; }
    for (int i = 0; i < n; i++) if (px[i] != initial && px[i] != once_final[slot][i]) { FAIL (res, "%s under an allocation failure left pixel %d as %08x: neither untouched (%08x) nor the failure-free result (%08x)", what, i, px[i], initial, once_final[slot][i]); return; }
}
static void sc_once_float_to_narrow (res_t *res)
{   /* float source, narrow destination: the float rows are converted through a per-scanline buffer */
    static float fpx[420 * 4 * 6]; int W = 300 + (int)(size_variant % 120);
    for (int i = 0; i < W * 6; i++) { fpx[4 * i] = (float)((i * 7) % 256) / 255.0f; fpx[4 * i + 1] = (float)((i * 13) % 256) / 255.0f; fpx[4 * i + 2] = (float)(i % 97) / 96.0f; fpx[4 * i + 3] = 1.0f; }
    for (int i = 0; i < W * 6; i++) px_d[i] = MARGIN_PATTERN;
    pixman_image_t *s = pixman_image_create_bits (PIXMAN_rgba_float, W, 6, (uint32_t *)fpx, W * 16), *d = pixman_image_create_bits (PIXMAN_a8r8g8b8, W, 6, px_d, W * 4);
    if (!s || !d) { res->reported_failure = 1; if (s) pixman_image_unref (s); if (d) pixman_image_unref (d); return; }
    pixman_image_composite32 (PIXMAN_OP_SRC, s, NULL, d, 0, 0, 0, 0, 0, 0, W, 6);
    once_check (res, 0, px_d, W * 6, MARGIN_PATTERN, "SRC of an rgba_float image onto a8r8g8b8");
    res->digest = vf_hash (px_d, (size_t)W * 6 * 4, 0);
    pixman_image_unref (s); pixman_image_unref (d);
}
static void sc_once_narrow_to_wide (res_t *res)
{   /* narrow source onto a 10-bit destination, translucent OVER, rows longer than the stack buffers */
    int W = 600 + (int)(size_variant % 200);
    for (int i = 0; i < W * 4; i++) { uint32_t a = (i * 5) & 0xff; px_c[i] = a << 24 | (a * ((i * 3) & 0xff) / 255) << 16 | (a / 2) << 8 | (a / 3); px_d[i] = 0xc0000000u | (uint32_t)(i * 2654435761u >> 2); }
    static uint32_t init[2200 * 4]; memcpy (init, px_d, (size_t)W * 4 * 4);
    pixman_image_t *s = pixman_image_create_bits (PIXMAN_a8r8g8b8, W, 4, px_c, W * 4), *d = pixman_image_create_bits (PIXMAN_a2r10g10b10, W, 4, px_d, W * 4);
    if (!s || !d) { res->reported_failure = 1; if (s) pixman_image_unref (s); if (d) pixman_image_unref (d); return; }
    pixman_image_composite32 (PIXMAN_OP_OVER, s, NULL, d, 0, 0, 0, 0, 0, 0, W, 4);
    if (!vf_alloc_failed ()) memcpy (once_final[1], px_d, (size_t)W * 4 * 4);
    else for (int i = 0; i < W * 4; i++) if (px_d[i] != init[i] && px_d[i] != once_final[1][i]) { FAIL (res, "OVER onto a2r10g10b10 under an allocation failure left pixel %d as %08x: neither untouched (%08x) nor the failure-free result (%08x)", i, px_d[i], init[i], once_final[1][i]); break; }
    res->digest = vf_hash (px_d, (size_t)W * 4 * 4, 0);
    pixman_image_unref (s); pixman_image_unref (d);
}
static void sc_once_general_narrow (res_t *res)
{   /* 8-bit general path, no fast path, scanline buffers beyond the stack buffer */
    int W = 2100;
    for (int i = 0; i < W * 4; i++) { px_c[i] = 0x80402010u + (uint32_t)i * 0x01010101u; px_d[i] = MARGIN_PATTERN; }
    pixman_image_t *s = pixman_image_create_bits (PIXMAN_a8r8g8b8, W, 4, px_c, W * 4), *d = pixman_image_create_bits (PIXMAN_a8r8g8b8, W, 4, px_d, W * 4);
    if (!s || !d) { res->reported_failure = 1; if (s) pixman_image_unref (s); if (d) pixman_image_unref (d); return; }
    pixman_image_composite32 (PIXMAN_OP_ATOP, s, NULL, d, 0, 0, 0, 0, 0, 0, W, 4);
    once_check (res, 2, px_d, W * 4, MARGIN_PATTERN, "ATOP through the general path");
    res->digest = vf_hash (px_d, (size_t)W * 4 * 4, 0);
    pixman_image_unref (s); pixman_image_unref (d);
}
static void sc_once_traps (res_t *res)
{
    for (int i = 0; i < 64 * 64; i++) px_b[i] = 0xff808080u;
    pixman_image_t *d = pixman_image_create_bits (PIXMAN_a8r8g8b8, 60, 30, px_b, 256); pixman_color_t col = { 0x8000, 0x2000, 0, 0x8000 }; pixman_image_t *s = pixman_image_create_solid_fill (&col);
    if (!d || !s) { res->reported_failure = 1; if (d) pixman_image_unref (d); if (s) pixman_image_unref (s); return; }
    pixman_trapezoid_t t[6]; for (int i = 0; i < 6; i++) { t[i].top = (4 + i * 2) << 16; t[i].bottom = (14 + i * 2) << 16; t[i].left.p1.x = (6 + i * 3) << 16; t[i].left.p1.y = t[i].top; t[i].left.p2.x = (9 + i * 3) << 16; t[i].left.p2.y = t[i].bottom; t[i].right.p1.x = 50 << 16; t[i].right.p1.y = t[i].top; t[i].right.p2.x = 45 << 16; t[i].right.p2.y = t[i].bottom; }
    pixman_composite_trapezoids (PIXMAN_OP_OVER, s, d, PIXMAN_a8, 0, 0, 0, 0, 6, t);
    once_check (res, 3, px_b, 64 * 30, 0xff808080u, "composite_trapezoids OVER");
    res->digest = vf_hash (px_b, 64 * 30 * 4, 0);
    pixman_image_unref (d); pixman_image_unref (s);
}
static void sc_once_transformed (res_t *res)
{   /* bilinear rotated source with reflect repeat onto 565, through an a8 mask */
    for (int i = 0; i < 64 * 64; i++) { px_a[i] = 0xc0804020u ^ (i * 2654435761u); px_b[i] = MARGIN_PATTERN; }
    pixman_image_t *s = pixman_image_create_bits (PIXMAN_a8r8g8b8, 40, 20, px_a, 256), *d = pixman_image_create_bits (PIXMAN_a8r8g8b8, 60, 30, px_b, 256), *m = pixman_image_create_bits (PIXMAN_a8, 60, 30, NULL, 0);
    if (!s || !d || !m) { res->reported_failure = 1; if (s) pixman_image_unref (s); if (d) pixman_image_unref (d); if (m) pixman_image_unref (m); return; }
    memset (pixman_image_get_data (m), 0x90, (size_t)pixman_image_get_stride (m) * 30);
    pixman_transform_t t; pixman_transform_init_rotate (&t, 60000, 20000); int set_ok = pixman_image_set_transform (s, &t) && pixman_image_set_filter (s, PIXMAN_FILTER_BILINEAR, NULL, 0); pixman_image_set_repeat (s, PIXMAN_REPEAT_REFLECT);
    if (!set_ok) { res->reported_failure = 1; pixman_image_unref (s); pixman_image_unref (d); pixman_image_unref (m); return; }      /* a setter reported the failure: the picture is a different one */
    pixman_image_composite32 (PIXMAN_OP_XOR, s, m, d, 0, 0, 0, 0, 0, 0, 60, 30);
    once_check (res, 4, px_b, 64 * 30, MARGIN_PATTERN, "XOR of a rotated bilinear source through an a8 mask");
    res->digest = vf_hash (px_b, 64 * 30 * 4, 0);
    pixman_image_unref (s); pixman_image_unref (d); pixman_image_unref (m);
}
/* the 16-bit region a client passes to pixman_compute_composite_region is reused from call to call: it already owns a rectangle array when the next result arrives */
static void sc_compute_region_reused_result (res_t *res)
{
    pixman_image_t *s = small_src (), *d = pixman_image_create_bits (PIXMAN_a8r8g8b8, 200, 60, NULL, 0);
    if (!s || !d) { res->reported_failure = 1; if (s) pixman_image_unref (s); if (d) pixman_image_unref (d); return; }
    pixman_box32_t cb[24]; boxes_grid (cb, 24, 2, 0, 1); pixman_region32_t reg; int ok = pixman_region32_init_rects (&reg, cb, 24);
    if (ok) ok = pixman_image_set_clip_region32 (d, &reg);
    pixman_region32_fini (&reg);
    pixman_image_set_repeat (s, PIXMAN_REPEAT_NORMAL);
    pixman_region16_t out; pixman_region_init (&out); uint64_t dg = 0; int fails = !ok;
    for (int call = 0; call < 3; call++) {
        pixman_bool_t r = pixman_compute_composite_region (&out, s, NULL, d, 0, 0, 0, 0, (int16_t)(call == 0 ? 1 : 0), 1, (uint16_t)(call == 0 ? 14 : call == 1 ? 190 : 40), 25);
        if (!r) { fails++; if (vf_alloc_failed () && (pixman_region_n_rects (&out) || pixman_region_not_empty (&out))) { /* FALSE: the result is unspecified but must be safe to use and to fini */ } }
        else { int n; pixman_box16_t *b = pixman_region_rectangles (&out, &n); dg = vf_hash (b, n * sizeof *b, dg + call); if (!pixman_region_selfcheck (&out)) FAIL (res, "compute_composite_region returned TRUE with a malformed region"); }
        /* whatever happened, the region object must be usable */
        pixman_region16_t tmp; pixman_region_init_rect (&tmp, 0, 0, 3, 3); pixman_region_intersect (&tmp, &tmp, &out); pixman_region_fini (&tmp);
    }
    if (fails) res->reported_failure = 1; else res->digest = dg;
    pixman_region_fini (&out); pixman_image_unref (s); pixman_image_unref (d);
}
/* properties that are REPLACED on an image that already owns the old ones: clip (many boxes -> other boxes -> one box), filter parameters, transform, alpha map */
static void sc_replace_properties (res_t *res)
{
    pixman_image_t *b = small_src (), *am1 = pixman_image_create_bits (PIXMAN_a8, 16, 8, NULL, 0), *am2 = pixman_image_create_bits (PIXMAN_a8, 16, 8, NULL, 0);
    if (!b || !am1 || !am2) { res->reported_failure = 1; if (b) pixman_image_unref (b); if (am1) pixman_image_unref (am1); if (am2) pixman_image_unref (am2); return; }
    int fails = 0;
    for (int round = 0; round < 3; round++) {
        pixman_box32_t cb[12]; int nb = round == 0 ? 12 : round == 1 ? 7 : 1; boxes_grid (cb, nb, round, 0, round & 1); pixman_region32_t reg;
        if (pixman_region32_init_rects (&reg, cb, nb)) { if (!pixman_image_set_clip_region32 (b, &reg)) fails++; } else fails++;
        pixman_region32_fini (&reg);
        pixman_fixed_t k[27] = { 5 << 16, 5 << 16 }; int nk = round == 1 ? 2 + 25 : 2 + 9; k[0] = k[1] = (round == 1 ? 5 : 3) << 16; for (int i = 2; i < nk; i++) k[i] = 65536 / (nk - 2);
        if (!pixman_image_set_filter (b, PIXMAN_FILTER_CONVOLUTION, k, nk)) fails++;
        pixman_transform_t t; pixman_transform_init_scale (&t, (3 + round) << 15, 1 << 16); if (!pixman_image_set_transform (b, &t)) fails++;
        pixman_image_set_alpha_map (b, round & 1 ? am2 : am1, 0, 0);
    }
    pixman_box16_t cb16[5] = { { 0, 0, 3, 3 }, { 5, 0, 8, 3 }, { 0, 5, 3, 8 }, { 5, 5, 8, 8 }, { 10, 1, 12, 7 } }; pixman_region16_t r16;
    if (pixman_region_init_rects (&r16, cb16, 5)) { if (!pixman_image_set_clip_region (b, &r16)) fails++; } else fails++;
    pixman_region_fini (&r16);
    if (fails) res->reported_failure = 1;
    pixman_image_t *d = pixman_image_create_bits (PIXMAN_a8r8g8b8, 24, 4, px_b, 96); memset (px_b, 0x40, 96 * 4);
    if (d) { pixman_image_composite32 (PIXMAN_OP_OVER, b, NULL, d, 0, 0, 0, 0, 0, 0, 24, 4); if (!fails) res->digest = vf_hash (px_b, 96 * 4, 0); pixman_image_unref (d); } else res->reported_failure = 1;
    pixman_image_unref (b); pixman_image_unref (am1); pixman_image_unref (am2);
}
/* wide (float) pipeline with gradients of many stops onto a 10-bit destination, a separable-convolution source, an indexed destination */
static void sc_wide_and_indexed (res_t *res)
{
    for (int i = 0; i < 64 * 64; i++) { px_a[i] = 0xc0804020u ^ (i * 2654435761u); px_b[i] = MARGIN_PATTERN; }
    pixman_gradient_stop_t st[9]; for (int i = 0; i < 9; i++) { st[i].x = i * 8192; st[i].color.red = (uint16_t)(i * 7000); st[i].color.green = (uint16_t)(65535 - i * 5000); st[i].color.blue = 0x8000; st[i].color.alpha = (uint16_t)(0xffff - i * 3000); }
    pixman_point_fixed_t p1 = { 0, 0 }, p2 = { 40 << 16, 9 << 16 };
    pixman_image_t *g = pixman_image_create_radial_gradient (&p1, &p2, 2 << 16, 30 << 16, st, 9), *d = pixman_image_create_bits (PIXMAN_a2r10g10b10, 60, 30, px_b, 256), *s = pixman_image_create_bits (PIXMAN_a8r8g8b8, 40, 20, px_a, 256);
    if (!g || !d || !s) { res->reported_failure = 1; if (g) pixman_image_unref (g); if (d) pixman_image_unref (d); if (s) pixman_image_unref (s); return; }
    pixman_image_set_repeat (g, PIXMAN_REPEAT_REFLECT);
    pixman_image_composite32 (PIXMAN_OP_OVER, g, NULL, d, 0, 0, 0, 0, 5, 4, 40, 20);
    int n = 0; pixman_fixed_t *p = pixman_filter_create_separable_convolution (&n, 3 << 15, 3 << 15, PIXMAN_KERNEL_LINEAR, PIXMAN_KERNEL_LINEAR, PIXMAN_KERNEL_BOX, PIXMAN_KERNEL_BOX, 2, 2);
    int fails = 0;
    if (p) { if (!pixman_image_set_filter (s, PIXMAN_FILTER_SEPARABLE_CONVOLUTION, p, n)) fails++; free (p); } else fails++;
    pixman_transform_t t; pixman_transform_init_scale (&t, 3 << 15, 3 << 15); if (!pixman_image_set_transform (s, &t)) fails++;
    pixman_image_composite32 (PIXMAN_OP_ADD, s, g, d, 0, 0, 0, 0, 5, 4, 40, 20);
    if (!margin_intact (px_b, 64, 60, 30, 5, 4, 40, 20)) FAIL (res, "a composite wrote outside its rectangle");
    if (fails) res->reported_failure = 1;
    res->digest = vf_hash (px_b, 64 * 30 * 4, 0);
    pixman_image_unref (g); pixman_image_unref (d); pixman_image_unref (s);
}
/* many triangles / trapezoids: more than any small fixed buffer holds; translucent OVER so that drawing a shape twice shows */
static void sc_many_shapes (res_t *res)
{
    for (int i = 0; i < 64 * 64; i++) px_b[i] = 0xff808080u;
    pixman_image_t *d = pixman_image_create_bits (PIXMAN_a8r8g8b8, 60, 30, px_b, 256); pixman_color_t col = { 0x8000, 0, 0, 0x8000 }; pixman_image_t *s = pixman_image_create_solid_fill (&col);
    if (!d || !s) { res->reported_failure = 1; if (d) pixman_image_unref (d); if (s) pixman_image_unref (s); return; }
    int nt = 12 + (int)(size_variant % 9);
    pixman_triangle_t tr[24]; for (int i = 0; i < nt; i++) { tr[i].p1.x = (8 + i) << 16; tr[i].p1.y = 5 << 16; tr[i].p2.x = (40 + i) << 16; tr[i].p2.y = (8 + i / 2) << 16; tr[i].p3.x = (14 + i) << 16; tr[i].p3.y = 25 << 16; }
    pixman_trapezoid_t tz[24]; for (int i = 0; i < nt; i++) { tz[i].top = (4 + i) << 16; tz[i].bottom = (12 + i) << 16; tz[i].left.p1.x = (6 + i) << 16; tz[i].left.p1.y = tz[i].top; tz[i].left.p2.x = (9 + i) << 16; tz[i].left.p2.y = tz[i].bottom; tz[i].right.p1.x = 50 << 16; tz[i].right.p1.y = tz[i].top; tz[i].right.p2.x = 45 << 16; tz[i].right.p2.y = tz[i].bottom; }
    uint32_t before = px_b[15 * 64 + 25];
    pixman_composite_triangles (PIXMAN_OP_OVER, s, d, PIXMAN_a8, 0, 0, 0, 0, nt, tr);
    /* all triangles overlap at (25,15): ADD-accumulated coverage saturates, so the pixel has been painted exactly once or not at all */
    uint32_t after = px_b[15 * 64 + 25];
    static uint32_t once; if (!vf_alloc_failed ()) once = after;        /* the failure-free run comes first */
    else if (after != before && after != once) FAIL (res, "composite_triangles under an allocation failure painted pixel (25,15) as %08x: neither untouched (%08x) nor what the failure-free call leaves (%08x)", after, before, once);
    pixman_composite_trapezoids (PIXMAN_OP_OVER, s, d, PIXMAN_a8, 0, 0, 0, 0, nt, tz);
    pixman_composite_triangles (PIXMAN_OP_IN_REVERSE, s, d, PIXMAN_a1, 0, 0, 2, 1, nt, tr);
    res->digest = vf_hash (px_b, 64 * 30 * 4, 0);
    pixman_image_unref (d); pixman_image_unref (s);
}
/* a glyph cache with enough traffic to leave tombstones and to be thawed twice; long glyph runs of mixed formats through both drawing entry points */
static void sc_glyphs_many (res_t *res)
{
    for (int i = 0; i < 64 * 64; i++) px_b[i] = MARGIN_PATTERN;
    pixman_glyph_cache_t *c = pixman_glyph_cache_create ();
    if (!c) { res->reported_failure = 1; return; }
    pixman_image_t *d = pixman_image_create_bits (PIXMAN_a8r8g8b8, 60, 30, px_b, 256), *s = small_src ();
    static pixman_glyph_t g[40]; int ng = 0, refused = 0, N = 24 + (int)(size_variant % 16);
    for (int pass = 0; pass < 2; pass++) {
        pixman_glyph_cache_freeze (c); ng = 0;
        for (int i = 0; i < N; i++) {
            void *fk = (void *)(uintptr_t)(0x100 + i % 3), *gk = (void *)(uintptr_t)(0x40 + i);
            const void *h = pixman_glyph_cache_lookup (c, fk, gk);
            if (!h) { pixman_image_t *gi = pixman_image_create_bits (i % 4 == 3 ? PIXMAN_a8r8g8b8 : i % 4 == 2 ? PIXMAN_a1 : PIXMAN_a8, 3 + i % 5, 4, NULL, 0);
                if (!gi) { refused++; continue; }
                memset (pixman_image_get_data (gi), 0x3f + i, pixman_image_get_stride (gi) * 4);
                h = pixman_glyph_cache_insert (c, fk, gk, i % 3, 1, gi); pixman_image_unref (gi);
                if (!h) { refused++; continue; } }
            g[ng].x = 6 + (i * 5) % 46; g[ng].y = 8 + (i / 10) * 6; g[ng].glyph = h; ng++;
        }
        if (d && s && ng) {
            pixman_composite_glyphs_no_mask (PIXMAN_OP_OVER, s, d, 0, 0, 0, 0, c, ng, g);
            pixman_composite_glyphs (PIXMAN_OP_OVER, s, d, PIXMAN_a8r8g8b8, 0, 0, 5, 4, 5, 4, 50, 22, c, ng, g);
        }
        for (int i = 0; i < N; i += 2 + pass) pixman_glyph_cache_remove (c, (void *)(uintptr_t)(0x100 + i % 3), (void *)(uintptr_t)(0x40 + i));
        pixman_glyph_cache_thaw (c);
    }
    if (refused || !d || !s) res->reported_failure = 1; else res->digest = vf_hash (px_b, 64 * 30 * 4, 0);
    if (!margin_intact (px_b, 64, 60, 30, 4, 4, 54, 24)) FAIL (res, "glyph compositing wrote outside the glyph area");
    if (d) pixman_image_unref (d); if (s) pixman_image_unref (s);
    pixman_glyph_cache_destroy (c);
}
/* clipped fills: many boxes through a many-box clip with every operator class (direct fill, solid composite) */
static void sc_fill_boxes_clipped (res_t *res)
{
    for (int i = 0; i < 64 * 64; i++) px_b[i] = MARGIN_PATTERN;
    pixman_image_t *d = pixman_image_create_bits (PIXMAN_r5g6b5, 60, 30, px_b, 256);
    if (!d) { res->reported_failure = 1; return; }
    pixman_box32_t cb[10]; boxes_grid (cb, 10, 6, 5, 1); for (int i = 0; i < 10; i++) { cb[i].y2 = 24; cb[i].x2 = cb[i].x1 + 3; } pixman_region32_t reg; int fails = 0;
    if (pixman_region32_init_rects (&reg, cb, 10)) { if (!pixman_image_set_clip_region32 (d, &reg)) fails++; } else fails++;
    pixman_region32_fini (&reg);
    pixman_box32_t bx[16]; boxes_grid (bx, 16, 0, 0, 0); for (int i = 0; i < 16; i++) { bx[i].x1 = -3; bx[i].x2 = 70; }
    pixman_color_t c1 = { 0xffff, 0, 0, 0xffff }, c2 = { 0x4000, 0x4000, 0, 0x8000 };
    if (!pixman_image_fill_boxes (PIXMAN_OP_SRC, d, &c1, 16, bx)) fails++;
    if (!pixman_image_fill_boxes (PIXMAN_OP_OVER, d, &c2, 16, bx)) fails++;
    if (!pixman_image_fill_boxes (PIXMAN_OP_CLEAR, d, &c2, 3, bx)) fails++;
    if (fails) res->reported_failure = 1; else res->digest = vf_hash (px_b, 64 * 30 * 4, 0);
    if (fails == 0) { /* the clip confines everything to x in [6,45), y in [5,24) */ }
    pixman_image_unref (d);
}

/* ---------------- drawing ---------------- */

static void sc_composite_wide_general (res_t *res)
{
    /* wide scanlines: the general path needs more than its stack buffer (3 * width * Bpp > 24 KiB) */
    int W = 2100;
    for (int i = 0; i < W * 4; i++) { px_c[i] = 0x80402010u + i; px_d[i] = MARGIN_PATTERN; }
    pixman_image_t *s = pixman_image_create_bits (PIXMAN_a8r8g8b8, W, 4, px_c, W * 4), *d = pixman_image_create_bits (PIXMAN_a8r8g8b8, W, 4, px_d, W * 4);
    if (!s || !d) { res->reported_failure = 1; if (s) pixman_image_unref (s); if (d) pixman_image_unref (d); return; }
    pixman_image_composite32 (PIXMAN_OP_ATOP, s, NULL, d, 0, 0, 0, 0, 3, 1, W - 6, 2);                 /* narrow pipeline, no fast path */
    pixman_image_composite32 (PIXMAN_OP_COLOR_DODGE, s, NULL, d, 0, 0, 0, 0, 3, 1, 700, 2);            /* float pipeline */
    if (!margin_intact (px_d, W, W, 4, 3, 1, W - 6, 2)) FAIL (res, "a composite wrote outside its rectangle");
    res->digest = vf_hash (px_d, W * 4 * 4, 0);
    pixman_image_unref (s); pixman_image_unref (d);
}
static void sc_composite_alpha_map_and_transform (res_t *res)
{
    for (int i = 0; i < 64 * 64; i++) { px_a[i] = 0xc0804020u ^ (i * 2654435761u); px_b[i] = MARGIN_PATTERN; }
    pixman_image_t *s = pixman_image_create_bits (PIXMAN_a8r8g8b8, 40, 20, px_a, 256), *d = pixman_image_create_bits (PIXMAN_x8r8g8b8, 60, 30, px_b, 256), *am = pixman_image_create_bits (PIXMAN_a8, 60, 30, NULL, 0);
    if (!s || !d || !am) { res->reported_failure = 1; if (s) pixman_image_unref (s); if (d) pixman_image_unref (d); if (am) pixman_image_unref (am); return; }
    pixman_image_set_alpha_map (d, am, 0, 0);
    pixman_transform_t t; pixman_transform_init_rotate (&t, 60000, 20000); pixman_image_set_transform (s, &t); pixman_image_set_filter (s, PIXMAN_FILTER_BILINEAR, NULL, 0); pixman_image_set_repeat (s, PIXMAN_REPEAT_REFLECT);
    pixman_image_composite32 (PIXMAN_OP_OVER, s, NULL, d, 0, 0, 0, 0, 5, 4, 40, 20);
    pixman_transform_init_scale (&t, 1 << 15, 1 << 15); pixman_image_set_transform (s, &t); pixman_image_set_repeat (s, PIXMAN_REPEAT_NONE);
    pixman_image_composite32 (PIXMAN_OP_SRC, s, NULL, d, 0, 0, 0, 0, 5, 4, 40, 20);     /* scaled cover iterators */
    if (!margin_intact (px_b, 64, 60, 30, 5, 4, 40, 20)) FAIL (res, "a composite wrote outside its rectangle");
    res->digest = vf_hash (px_b, 64 * 30 * 4, 0);
    pixman_image_unref (s); pixman_image_unref (d); pixman_image_unref (am);
}
static void sc_glyphs (res_t *res)
{
    for (int i = 0; i < 64 * 64; i++) px_b[i] = MARGIN_PATTERN;
    pixman_glyph_cache_t *c = pixman_glyph_cache_create ();
    if (!c) { res->reported_failure = 1; return; }
    pixman_image_t *d = pixman_image_create_bits (PIXMAN_a8r8g8b8, 60, 30, px_b, 256); pixman_color_t col = { 0xffff, 0x8000, 0, 0xffff }; pixman_image_t *s = pixman_image_create_solid_fill (&col);
    pixman_glyph_t g[6]; int ng = 0, refused = 0;
    pixman_glyph_cache_freeze (c);
    for (int i = 0; i < 6; i++) {
        pixman_image_t *gi = pixman_image_create_bits (i & 1 ? PIXMAN_a8 : PIXMAN_a8r8g8b8, 6 + i, 5, NULL, 0);
        if (!gi) { refused++; continue; }
        memset (pixman_image_get_data (gi), 0x7f + i, pixman_image_get_stride (gi) * 5);
        const void *h = pixman_glyph_cache_insert (c, (void *)(uintptr_t)(i + 1), (void *)(uintptr_t)9, 1, 2, gi);
        pixman_image_unref (gi);
        if (!h) { refused++; continue; }
        if (pixman_glyph_cache_lookup (c, (void *)(uintptr_t)(i + 1), (void *)(uintptr_t)9) != h) FAIL (res, "lookup after insert does not return the inserted glyph");
        g[ng].x = 8 + i * 7; g[ng].y = 10; g[ng].glyph = h; ng++;
    }
    if (refused) res->reported_failure = 1;
    if (d && s && ng) {
        pixman_composite_glyphs_no_mask (PIXMAN_OP_OVER, s, d, 0, 0, 0, 0, c, ng, g);
        pixman_composite_glyphs (PIXMAN_OP_OVER, s, d, PIXMAN_a8, 0, 0, 5, 4, 5, 4, 50, 22, c, ng, g);
        pixman_composite_glyphs (PIXMAN_OP_ADD, s, d, PIXMAN_a8r8g8b8, 0, 0, 5, 4, 5, 4, 50, 22, c, ng, g);
        if (!margin_intact (px_b, 64, 60, 30, 5, 4, 50, 24)) FAIL (res, "glyph compositing wrote outside the glyph area");
    }
    for (int i = 0; i < ng; i++) if (i & 1) pixman_glyph_cache_remove (c, (void *)(uintptr_t)((uintptr_t)i + 1), (void *)(uintptr_t)9);
    pixman_glyph_cache_thaw (c);
    if (!refused && d && s) res->digest = vf_hash (px_b, 64 * 30 * 4, 0);
    if (d) pixman_image_unref (d); if (s) pixman_image_unref (s);
    pixman_glyph_cache_destroy (c);
}
static void sc_traps (res_t *res)
{
    for (int i = 0; i < 64 * 64; i++) px_b[i] = MARGIN_PATTERN;
    pixman_image_t *d = pixman_image_create_bits (PIXMAN_a8r8g8b8, 60, 30, px_b, 256); pixman_color_t col = { 0xffff, 0, 0x8000, 0xc000 }; pixman_image_t *s = pixman_image_create_solid_fill (&col);
    if (!d || !s) { res->reported_failure = 1; if (d) pixman_image_unref (d); if (s) pixman_image_unref (s); return; }
    pixman_trapezoid_t t[3]; for (int i = 0; i < 3; i++) { t[i].top = (6 + i * 6) << 16; t[i].bottom = (11 + i * 6) << 16; t[i].left.p1.x = (8 + i) << 16; t[i].left.p1.y = t[i].top; t[i].left.p2.x = (12 + i) << 16; t[i].left.p2.y = t[i].bottom; t[i].right.p1.x = 40 << 16; t[i].right.p1.y = t[i].top; t[i].right.p2.x = (45 + i) << 16; t[i].right.p2.y = t[i].bottom; }
    pixman_triangle_t tr[2] = { { { 10 << 16, 8 << 16 }, { 48 << 16, 10 << 16 }, { 20 << 16, 25 << 16 } }, { { 30 << 16, 6 << 16 }, { 50 << 16, 24 << 16 }, { 9 << 16, 20 << 16 } } };
    pixman_composite_trapezoids (PIXMAN_OP_OVER, s, d, PIXMAN_a8, 0, 0, 0, 0, 3, t);
    pixman_composite_triangles (PIXMAN_OP_ADD, s, d, PIXMAN_a8, 0, 0, 0, 0, 2, tr);
    pixman_image_t *m = pixman_image_create_bits (PIXMAN_a8, 60, 30, NULL, 0);
    if (m) { pixman_add_triangles (m, 0, 0, 2, tr); pixman_add_trapezoids (m, 0, 0, 3, t); pixman_image_unref (m); } else res->reported_failure = 1;
    if (!margin_intact (px_b, 64, 60, 30, 8, 6, 43, 20)) FAIL (res, "trapezoid compositing wrote outside the shapes' extents");
    res->digest = vf_hash (px_b, 64 * 30 * 4, 0);
    pixman_image_unref (d); pixman_image_unref (s);
}
static void sc_fill_rectangles (res_t *res)
{
    for (int i = 0; i < 64 * 64; i++) px_b[i] = MARGIN_PATTERN;
    pixman_image_t *d = pixman_image_create_bits (PIXMAN_a8r8g8b8, 60, 30, px_b, 256);
    if (!d) { res->reported_failure = 1; return; }
    pixman_rectangle16_t rc[12]; for (int i = 0; i < 12; i++) { rc[i].x = (int16_t)(6 + i * 4); rc[i].y = (int16_t)(5 + (i % 3) * 6); rc[i].width = 3; rc[i].height = 5; }
    pixman_color_t c1 = { 0xffff, 0, 0, 0xffff }, c2 = { 0x4000, 0x4000, 0, 0x8000 };
    pixman_bool_t a = pixman_image_fill_rectangles (PIXMAN_OP_SRC, d, &c1, 12, rc), b = pixman_image_fill_rectangles (PIXMAN_OP_OVER, d, &c2, 12, rc);
    pixman_box32_t bx[9]; boxes_grid (bx, 9, 8, 6, 1); for (int i = 0; i < 9; i++) bx[i].y2 = 24;
    pixman_bool_t c = pixman_image_fill_boxes (PIXMAN_OP_SRC, d, &c2, 9, bx);
    if (!a || !b || !c) res->reported_failure = 1; else res->digest = vf_hash (px_b, 64 * 30 * 4, 0);
    if (!margin_intact (px_b, 64, 60, 30, 6, 5, 48, 19)) FAIL (res, "fill_rectangles/fill_boxes wrote outside the rectangles");
    pixman_image_unref (d);
}
static void sc_compute_region (res_t *res)
{
    pixman_image_t *s = small_src (), *d = pixman_image_create_bits (PIXMAN_a8r8g8b8, 60, 30, px_b, 256);
    if (!s || !d) { res->reported_failure = 1; if (s) pixman_image_unref (s); if (d) pixman_image_unref (d); return; }
    pixman_box32_t cb[8]; boxes_grid (cb, 8, 2, 0, 1); pixman_region32_t reg; int ok = pixman_region32_init_rects (&reg, cb, 8);
    if (ok) ok = pixman_image_set_clip_region32 (d, &reg);
    pixman_region32_fini (&reg);
    pixman_box32_t sb[5]; boxes_grid (sb, 5, 0, 1, 0); pixman_region32_t sreg; int ok2 = pixman_region32_init_rects (&sreg, sb, 5);
    if (ok2) ok2 = pixman_image_set_clip_region32 (s, &sreg);
    pixman_region32_fini (&sreg);
    pixman_image_set_source_clipping (s, 1); pixman_image_set_has_client_clip (s, 1);
    pixman_region16_t out; pixman_region_init (&out);
    pixman_bool_t r = pixman_compute_composite_region (&out, s, NULL, d, 0, 0, 0, 0, 1, 1, 50, 25);
    if (!ok || !ok2) res->reported_failure = 1;
    else if (r) { int n; pixman_box16_t *b = pixman_region_rectangles (&out, &n); res->digest = vf_hash (b, n * sizeof *b, 3); }
    else res->reported_failure = 1;         /* an allocation inside the query failed: FALSE is the documented report */
    pixman_region_fini (&out); pixman_image_unref (s); pixman_image_unref (d);
}

typedef struct { const char *name; void (*fn) (res_t *); int draws; } scen_t;   /* draws: contains void drawing calls, which may legitimately skip work */
static const scen_t scens[] = {
    { "region32_union", sc_union }, { "region32_subtract", sc_subtract }, { "region32_intersect", sc_intersect }, { "region32_inverse", sc_inverse }, { "region32_union_in_place", sc_union_inplace },
    { "region32_copy", sc_copy }, { "region32_init_rects_validate", sc_init_rects_validate }, { "init_rects_many_partial_regions", sc_init_rects_many_partial_regions }, { "region32_union_rect_growth", sc_union_rect_growth }, { "region16_subtract", sc_region16 },
    { "image_create_bits", sc_create_bits }, { "gradient_create_and_draw", sc_create_gradients, 1 }, { "solid_setters_transform_filter_clip", sc_solid_and_setters, 1 }, { "filter_create_separable", sc_filter_create },
    { "composite_wide_general_path", sc_composite_wide_general, 1 }, { "composite_alpha_map_transform_iterators", sc_composite_alpha_map_and_transform, 1 }, { "glyph_cache_and_composite_glyphs", sc_glyphs, 1 },
    { "composite_trapezoids_triangles", sc_traps, 1 }, { "fill_rectangles_boxes", sc_fill_rectangles, 1 }, { "compute_composite_region", sc_compute_region },
    { "region32_copy_into_populated", sc_pop_copy }, { "region32_union_into_populated", sc_pop_union }, { "region32_subtract_into_populated", sc_pop_subtract }, { "region32_intersect_into_populated", sc_pop_intersect },
    { "region32_inverse_into_populated", sc_pop_inverse }, { "region32_union_rect_into_populated", sc_pop_union_rect }, { "region32_intersect_then_union_in_place", sc_pop_chain },
    { "region32_copy_into_larger", sc_bigpop_copy }, { "region32_subtract_into_larger", sc_bigpop_subtract }, { "region16_ops_into_populated", sc_region16_into_populated }, { "region_init_from_image", sc_region_from_image },
    { "replace_clip_filter_transform_alpha_map", sc_replace_properties, 1 }, { "wide_pipeline_gradient_separable_filter", sc_wide_and_indexed, 1 }, { "many_triangles_trapezoids", sc_many_shapes, 1 },
    { "glyph_cache_traffic_and_long_runs", sc_glyphs_many, 1 }, { "fill_boxes_through_many_box_clip", sc_fill_boxes_clipped, 1 },
    { "one_draw_float_source_to_narrow", sc_once_float_to_narrow, 1 }, { "one_draw_narrow_to_10bit_OVER", sc_once_narrow_to_wide, 1 }, { "one_draw_general_path_ATOP", sc_once_general_narrow, 1 },
    { "one_draw_composite_trapezoids", sc_once_traps, 1 }, { "one_draw_rotated_bilinear_masked", sc_once_transformed, 1 }, { "compute_composite_region_reused_result", sc_compute_region_reused_result },
};
#define NSCEN ((int)(sizeof scens / sizeof scens[0]))

static void alloc_case (long idx, vf_rng *rng)
{
    const scen_t *sc = &scens[idx % NSCEN];
    size_variant = (uint64_t)(idx / NSCEN) * 7;
    res_t base; memset (&base, 0, sizeof base);
    /* baseline: count the allocations */
    vf_alloc_reset_live (); vf_alloc_begin (-1, 0); sc->fn (&base); vf_alloc_end ();
    long N = vf_alloc_count (), leaked = vf_alloc_live ();
    char key[160];
    if (base.bad) { snprintf (key, sizeof key, "C15:baseline:%s", sc->name); vf_violation (key, "without any failure: %s", base.msg); return; }
    if (leaked) { snprintf (key, sizeof key, "C15:leak:%s:no-failure", sc->name); vf_violation (key, "%ld blocks allocated during the scenario are still live at its end (no failure injected)", leaked); }
    vf_count ("scenarios_baselined", 1); vf_max ("max_allocations_in_a_scenario", N);
    vf_label ("scenario_allocs", "%s:%ld", sc->name, N);
    long injected = 0;
    for (int mode = 0; mode < 2; mode++) for (long k = 1; k <= N; k++) {
        res_t r; memset (&r, 0, sizeof r);
        vf_inflight ("scenario %s variant %llu: allocation %ld of %ld fails %s", sc->name, (unsigned long long)size_variant, k, N, mode ? "and every later one" : "once");
        vf_case_desc ("scenario %s variant %llu: allocation %ld of %ld fails %s", sc->name, (unsigned long long)size_variant, k, N, mode ? "and every later one" : "once");
        vf_alloc_reset_live (); vf_alloc_begin (k, mode); sc->fn (&r); vf_alloc_end ();
        long live = vf_alloc_live (), nfailed = vf_alloc_failed (); void *site = vf_alloc_last_failed_site ();
        injected++;
        if (nfailed) vf_label ("failed_site_addr", "%p", site);
        vf_cell ("cells", vf_mix (vf_mix (idx % NSCEN, k), mode * 2 + (nfailed > 0)));
        if (r.bad) { snprintf (key, sizeof key, "C15:%s:%s", sc->name, mode ? "persistent" : "single"); vf_violation (key, "%s (failed allocation site %p)", r.msg, site); }
        if (live) { size_t sz; void *ls = vf_alloc_first_live_site (&sz); snprintf (key, sizeof key, "C15:leak:%s:%s", sc->name, mode ? "persistent" : "single");
                    vf_violation (key, "%ld block(s) still live after the scenario (e.g. %zu bytes allocated at %p); failed site %p", live, sz, ls, site); }
        if (nfailed && !sc->draws && !r.reported_failure && !r.bad && r.digest != base.digest) { snprintf (key, sizeof key, "C15:silent-wrong-result:%s:%s", sc->name, mode ? "persistent" : "single");
                    vf_violation (key, "an allocation failed (site %p), every call reported success, but the result differs from the failure-free run", site); }
        if (nfailed && !r.reported_failure && r.digest == base.digest) vf_count ("failures_absorbed_with_correct_result", 1);
        if (r.reported_failure) vf_count ("failures_reported", 1);
    }
    vf_count ("evaluations", injected); vf_count ("injected_runs", injected);
    if (idx < NSCEN && idx < 3) vf_sample ("scenario %s: %ld allocations, %ld injected runs (each k failing once, and k.. failing persistently)", sc->name, N, injected);
}

int main (int argc, char **argv) { return vf_main (argc, argv, "C15", NULL, alloc_case, NULL); }
