/* Monitor for C15 (fault enumeration): every scenario is first run once to count its allocations N,
 * then N times with the k-th allocation failing once and N times with the k-th and all later ones
 * failing.  Oracles: no crash (ASan), return values report the failure, a failed region operation
 * leaves a broken region that later operations propagate and fini accepts, successful calls give the
 * baseline result, nothing outside the request rectangle is written, and no block allocated during
 * the scenario is still live at its end. */
#include "vf.h"
#include "vf_alloc.h"
#include <math.h>

typedef struct { int bad; char msg[240]; uint64_t digest; int reported_failure; } res_t;
#define FAIL(r, ...) do { if (!(r)->bad) { (r)->bad = 1; snprintf ((r)->msg, sizeof (r)->msg, __VA_ARGS__); } } while (0)

static uint32_t px_a[64 * 64], px_b[64 * 64], px_c[2200 * 4], px_d[2200 * 4];
static uint64_t size_variant;       /* scenario size knob (thorough tier varies it) */

static void boxes_grid (pixman_box32_t *b, int n, int ox, int oy, int vertical)
{ for (int i = 0; i < n; i++) { if (vertical) { b[i].x1 = ox + i * 4; b[i].x2 = b[i].x1 + 2; b[i].y1 = oy; b[i].y2 = oy + 100; } else { b[i].y1 = oy + i * 4; b[i].y2 = b[i].y1 + 2; b[i].x1 = ox; b[i].x2 = ox + 100; } } }
static uint64_t reg_digest (pixman_region32_t *r) { int n; pixman_box32_t *b = pixman_region32_rectangles (r, &n); return vf_hash (b, n * sizeof *b, (uint64_t)n); }

/* after a region operation reported failure: the result must be the broken region */
static void check_broken (res_t *res, pixman_region32_t *d, const char *op)
{
    res->reported_failure = 1;
    if (pixman_region32_n_rects (d) != 0 || pixman_region32_not_empty (d)) { FAIL (res, "%s returned FALSE but the result is not the broken (empty) region", op); return; }
    pixman_region32_t other, out; pixman_region32_init_rect (&other, 1, 1, 5, 5); pixman_region32_init (&out);
    if (pixman_region32_union (&out, d, &other)) FAIL (res, "%s failed, but a later union with its result returned TRUE (broken region not propagated)", op);
    if (pixman_region32_intersect (&out, &other, d)) FAIL (res, "%s failed, but a later intersect with its result returned TRUE", op);
    pixman_region32_fini (&other); pixman_region32_fini (&out);
}

/* ---------------- region scenarios ---------------- */
static void sc_region_binary (res_t *res, int which)
{
    int n = 12 + (int)(size_variant % 20);
    pixman_box32_t b1[40], b2[40]; boxes_grid (b1, n, 0, 0, 1); boxes_grid (b2, n, 1, 1, 0);
    pixman_region32_t a, b, d; pixman_region32_init (&d);
    if (!pixman_region32_init_rects (&a, b1, n)) { res->reported_failure = 1; pixman_region32_fini (&a); pixman_region32_fini (&d); return; }
    if (!pixman_region32_init_rects (&b, b2, n)) { res->reported_failure = 1; pixman_region32_fini (&a); pixman_region32_fini (&b); pixman_region32_fini (&d); return; }
    static const char *nm[] = { "union", "subtract", "intersect", "inverse", "union-in-place", "copy" };
    pixman_bool_t ok; pixman_box32_t ib = { -5, -5, 200, 200 };
    switch (which) { case 0: ok = pixman_region32_union (&d, &a, &b); break; case 1: ok = pixman_region32_subtract (&d, &a, &b); break; case 2: ok = pixman_region32_intersect (&d, &a, &b); break;
    case 3: ok = pixman_region32_inverse (&d, &a, &ib); break; case 4: pixman_region32_copy (&d, &a); ok = pixman_region32_union (&d, &d, &b); break; default: ok = pixman_region32_copy (&d, &a); break; }
    if (!ok) check_broken (res, &d, nm[which]); else res->digest = reg_digest (&d);
    if (ok && !pixman_region32_selfcheck (&d)) FAIL (res, "%s returned TRUE with a malformed region", nm[which]);
    pixman_region32_fini (&a); pixman_region32_fini (&b); pixman_region32_fini (&d);
}
static void sc_union (res_t *r) { sc_region_binary (r, 0); }
static void sc_subtract (res_t *r) { sc_region_binary (r, 1); }
static void sc_intersect (res_t *r) { sc_region_binary (r, 2); }
static void sc_inverse (res_t *r) { sc_region_binary (r, 3); }
static void sc_union_inplace (res_t *r) { sc_region_binary (r, 4); }
static void sc_copy (res_t *r) { sc_region_binary (r, 5); }
static void sc_init_rects_validate (res_t *res)
{
    /* overlapping, unsorted boxes in two misaligned grids: init_rects has to validate (several reallocations) */
    static pixman_box32_t b[400]; int n = 100 + (int)(size_variant % 300);
    for (int i = 0; i < n; i++) { int k = (i * 37) % n; b[i].x1 = (k % 20) * 7 + (i & 1) * 3; b[i].y1 = (k / 20) * 5 + (i & 2); b[i].x2 = b[i].x1 + 9; b[i].y2 = b[i].y1 + 6; }
    pixman_region32_t d;
    if (!pixman_region32_init_rects (&d, b, n)) check_broken (res, &d, "init_rects"); else { res->digest = reg_digest (&d); if (!pixman_region32_selfcheck (&d)) FAIL (res, "init_rects returned TRUE with a malformed region"); }
    pixman_region32_fini (&d);
}
/* K pairs of tall boxes, each pair starting one row below the previous one: no pair can be appended to, or share a band with, an earlier one, so
 * validation scatters them into K partial regions of two boxes each (all owning heap data) and merges them pairwise over several passes */
static void sc_init_rects_many_partial_regions (res_t *res)
{
    static pixman_box32_t b[64]; int K = 4 + (int)(size_variant % 13);
    for (int k = 0; k < K; k++) { pixman_box32_t *a = &b[2 * k], *c = &b[2 * k + 1]; a->x1 = 10 * k; a->x2 = a->x1 + 5; c->x1 = 1000 + 10 * k; c->x2 = c->x1 + 5; a->y1 = c->y1 = k; a->y2 = c->y2 = k + 100; }
    pixman_region32_t d;
    if (!pixman_region32_init_rects (&d, b, 2 * K)) check_broken (res, &d, "init_rects"); else { res->digest = reg_digest (&d); if (!pixman_region32_selfcheck (&d)) FAIL (res, "init_rects returned TRUE with a malformed region"); }
    pixman_region32_fini (&d);
    /* the 16-bit variant through the image clip setter (copy_from_region16 + validate) */
    static pixman_box16_t b16[64]; for (int i = 0; i < 2 * K; i++) { b16[i].x1 = (int16_t)b[i].x1; b16[i].x2 = (int16_t)b[i].x2; b16[i].y1 = (int16_t)b[i].y1; b16[i].y2 = (int16_t)b[i].y2; }
    pixman_region16_t d16;
    if (!pixman_region_init_rects (&d16, b16, 2 * K)) res->reported_failure = 1; else if (!pixman_region_selfcheck (&d16)) FAIL (res, "16-bit init_rects returned TRUE with a malformed region");
    pixman_region_fini (&d16);
}
static void sc_union_rect_growth (res_t *res)
{
    pixman_region32_t d; pixman_region32_init (&d); int failed = 0;
    for (int i = 0; i < 40 && !failed; i++) if (!pixman_region32_union_rect (&d, &d, (i * 7) % 50, i * 3, 4, 2)) { failed = 1; check_broken (res, &d, "union_rect"); }
    if (!failed) res->digest = reg_digest (&d);
    pixman_region32_fini (&d);
}
static void sc_region16 (res_t *res)
{
    pixman_box16_t b1[24], b2[24]; for (int i = 0; i < 24; i++) { b1[i].x1 = (int16_t)(i * 4); b1[i].x2 = (int16_t)(i * 4 + 2); b1[i].y1 = 0; b1[i].y2 = 90; b2[i].y1 = (int16_t)(i * 4); b2[i].y2 = (int16_t)(i * 4 + 2); b2[i].x1 = 1; b2[i].x2 = 90; }
    pixman_region16_t a, b, d; pixman_region_init (&d);
    if (!pixman_region_init_rects (&a, b1, 24)) { res->reported_failure = 1; pixman_region_fini (&a); pixman_region_fini (&d); return; }
    if (!pixman_region_init_rects (&b, b2, 24)) { res->reported_failure = 1; pixman_region_fini (&a); pixman_region_fini (&b); pixman_region_fini (&d); return; }
    if (!pixman_region_subtract (&d, &a, &b)) { res->reported_failure = 1; if (pixman_region_n_rects (&d) || pixman_region_not_empty (&d)) FAIL (res, "16-bit subtract failed without leaving the broken region");
        pixman_region16_t o; pixman_region_init (&o); if (pixman_region_union (&o, &d, &a)) FAIL (res, "broken 16-bit region not propagated"); pixman_region_fini (&o); }
    else { int n; pixman_box16_t *bx = pixman_region_rectangles (&d, &n); res->digest = vf_hash (bx, n * sizeof *bx, 1); }
    pixman_region_fini (&a); pixman_region_fini (&b); pixman_region_fini (&d);
}

/* ---------------- image constructors / setters ---------------- */
static pixman_image_t *small_src (void) { return pixman_image_create_bits (PIXMAN_a8r8g8b8, 16, 8, px_a, 64); }
static void sc_create_bits (res_t *res)
{
    pixman_image_t *i = pixman_image_create_bits (PIXMAN_a8r8g8b8, 40, 9, NULL, 0);
    if (!i) { res->reported_failure = 1; return; }
    uint32_t *d = pixman_image_get_data (i); if (!d) FAIL (res, "create_bits returned an image without storage"); else { d[0] = 1; d[40 * 9 - 1] = 2; }
    pixman_image_unref (i); res->digest = 1;
}
static void sc_create_gradients (res_t *res)
{
    pixman_gradient_stop_t st[3] = { { 0, { 0xffff, 0, 0, 0xffff } }, { 0x8000, { 0, 0xffff, 0, 0x8000 } }, { 0x10000, { 0, 0, 0xffff, 0xffff } } };
    pixman_point_fixed_t p1 = { 0, 0 }, p2 = { 20 << 16, 5 << 16 };
    pixman_image_t *g[3] = { pixman_image_create_linear_gradient (&p1, &p2, st, 3), pixman_image_create_radial_gradient (&p1, &p2, 1 << 16, 9 << 16, st, 3), pixman_image_create_conical_gradient (&p2, 30 << 16, st, 3) };
    pixman_image_t *d = pixman_image_create_bits (PIXMAN_a8r8g8b8, 24, 4, px_b, 96);
    memset (px_b, 0, 96 * 4);
    for (int i = 0; i < 3; i++) { if (!g[i]) { res->reported_failure = 1; continue; } if (d) pixman_image_composite32 (PIXMAN_OP_OVER, g[i], NULL, d, 0, 0, 0, 0, 0, 0, 24, 4); pixman_image_unref (g[i]); }
    if (d) { res->digest = vf_hash (px_b, 96 * 4, 0); pixman_image_unref (d); } else res->reported_failure = 1;
}
static void sc_solid_and_setters (res_t *res)
{
    pixman_color_t c = { 0x1234, 0x5678, 0x9abc, 0xffff };
    pixman_image_t *s = pixman_image_create_solid_fill (&c), *b = small_src ();
    if (!s || !b) { res->reported_failure = 1; if (s) pixman_image_unref (s); if (b) pixman_image_unref (b); return; }
    pixman_transform_t t; pixman_transform_init_scale (&t, 3 << 15, 1 << 16);
    int fails = 0;
    if (!pixman_image_set_transform (b, &t)) fails++;
    pixman_fixed_t k[11] = { 3 << 16, 3 << 16, 7000, 7000, 7000, 7000, 9536, 7000, 7000, 7000, 7000 };
    if (!pixman_image_set_filter (b, PIXMAN_FILTER_CONVOLUTION, k, 11)) fails++;
    pixman_box32_t cb[6]; boxes_grid (cb, 6, 0, 0, 1); pixman_region32_t reg;
    if (pixman_region32_init_rects (&reg, cb, 6)) { if (!pixman_image_set_clip_region32 (b, &reg)) fails++; } else fails++;
    pixman_region32_fini (&reg);
    pixman_box16_t cb16[5] = { { 0, 0, 3, 3 }, { 5, 0, 8, 3 }, { 0, 5, 3, 8 }, { 5, 5, 8, 8 }, { 10, 1, 12, 7 } }; pixman_region16_t r16;
    if (pixman_region_init_rects (&r16, cb16, 5)) { if (!pixman_image_set_clip_region (s, &r16)) fails++; } else fails++;
    pixman_region_fini (&r16);
    if (fails) res->reported_failure = 1;
    /* the objects stay usable whatever failed */
    pixman_image_t *d = pixman_image_create_bits (PIXMAN_a8r8g8b8, 24, 4, px_b, 96); memset (px_b, 0x40, 96 * 4);
    if (d) { pixman_image_composite32 (PIXMAN_OP_OVER, b, s, d, 0, 0, 0, 0, 0, 0, 24, 4); if (!fails) res->digest = vf_hash (px_b, 96 * 4, 0); pixman_image_unref (d); } else res->reported_failure = 1;
    pixman_image_unref (s); pixman_image_unref (b);
}
static void sc_filter_create (res_t *res)
{
    int n = 0; pixman_fixed_t *p = pixman_filter_create_separable_convolution (&n, 3 << 15, 1 << 16, PIXMAN_KERNEL_LINEAR, PIXMAN_KERNEL_CUBIC, PIXMAN_KERNEL_BOX, PIXMAN_KERNEL_LINEAR, 2, 1);
    if (!p) { res->reported_failure = 1; return; }
    res->digest = vf_hash (p, n * sizeof *p, 0); free (p);
}

/* ---------------- drawing ---------------- */
#define MARGIN_PATTERN 0x5a5a5a5au
static int margin_intact (const uint32_t *px, int stride_px, int w, int h, int x0, int y0, int rw, int rh)
{ for (int y = 0; y < h; y++) for (int x = 0; x < w; x++) if (!(x >= x0 && x < x0 + rw && y >= y0 && y < y0 + rh) && px[y * stride_px + x] != MARGIN_PATTERN) return 0; return 1; }

static void sc_composite_wide_general (res_t *res)
{
    /* wide scanlines: the general path needs more than its stack buffer (3 * width * Bpp > 24 KiB) */
    int W = 2100;
    for (int i = 0; i < W * 4; i++) { px_c[i] = 0x80402010u + i; px_d[i] = MARGIN_PATTERN; }
    pixman_image_t *s = pixman_image_create_bits (PIXMAN_a8r8g8b8, W, 4, px_c, W * 4), *d = pixman_image_create_bits (PIXMAN_a8r8g8b8, W, 4, px_d, W * 4);
    if (!s || !d) { res->reported_failure = 1; if (s) pixman_image_unref (s); if (d) pixman_image_unref (d); return; }
    pixman_image_composite32 (PIXMAN_OP_ATOP, s, NULL, d, 0, 0, 0, 0, 3, 1, W - 6, 2);                 /* narrow pipeline, no fast path */
    pixman_image_composite32 (PIXMAN_OP_COLOR_DODGE, s, NULL, d, 0, 0, 0, 0, 3, 1, 700, 2);            /* float pipeline */
    if (!margin_intact (px_d, W, W, 4, 3, 1, W - 6, 2)) FAIL (res, "a composite wrote outside its rectangle");
    res->digest = vf_hash (px_d, W * 4 * 4, 0);
    pixman_image_unref (s); pixman_image_unref (d);
}
static void sc_composite_alpha_map_and_transform (res_t *res)
{
    for (int i = 0; i < 64 * 64; i++) { px_a[i] = 0xc0804020u ^ (i * 2654435761u); px_b[i] = MARGIN_PATTERN; }
    pixman_image_t *s = pixman_image_create_bits (PIXMAN_a8r8g8b8, 40, 20, px_a, 256), *d = pixman_image_create_bits (PIXMAN_x8r8g8b8, 60, 30, px_b, 256), *am = pixman_image_create_bits (PIXMAN_a8, 60, 30, NULL, 0);
    if (!s || !d || !am) { res->reported_failure = 1; if (s) pixman_image_unref (s); if (d) pixman_image_unref (d); if (am) pixman_image_unref (am); return; }
    pixman_image_set_alpha_map (d, am, 0, 0);
    pixman_transform_t t; pixman_transform_init_rotate (&t, 60000, 20000); pixman_image_set_transform (s, &t); pixman_image_set_filter (s, PIXMAN_FILTER_BILINEAR, NULL, 0); pixman_image_set_repeat (s, PIXMAN_REPEAT_REFLECT);
    pixman_image_composite32 (PIXMAN_OP_OVER, s, NULL, d, 0, 0, 0, 0, 5, 4, 40, 20);
    pixman_transform_init_scale (&t, 1 << 15, 1 << 15); pixman_image_set_transform (s, &t); pixman_image_set_repeat (s, PIXMAN_REPEAT_NONE);
    pixman_image_composite32 (PIXMAN_OP_SRC, s, NULL, d, 0, 0, 0, 0, 5, 4, 40, 20);     /* scaled cover iterators */
    if (!margin_intact (px_b, 64, 60, 30, 5, 4, 40, 20)) FAIL (res, "a composite wrote outside its rectangle");
    res->digest = vf_hash (px_b, 64 * 30 * 4, 0);
    pixman_image_unref (s); pixman_image_unref (d); pixman_image_unref (am);
}
static void sc_glyphs (res_t *res)
{
    for (int i = 0; i < 64 * 64; i++) px_b[i] = MARGIN_PATTERN;
    pixman_glyph_cache_t *c = pixman_glyph_cache_create ();
    if (!c) { res->reported_failure = 1; return; }
    pixman_image_t *d = pixman_image_create_bits (PIXMAN_a8r8g8b8, 60, 30, px_b, 256); pixman_color_t col = { 0xffff, 0x8000, 0, 0xffff }; pixman_image_t *s = pixman_image_create_solid_fill (&col);
    pixman_glyph_t g[6]; int ng = 0, refused = 0;
    pixman_glyph_cache_freeze (c);
    for (int i = 0; i < 6; i++) {
        pixman_image_t *gi = pixman_image_create_bits (i & 1 ? PIXMAN_a8 : PIXMAN_a8r8g8b8, 6 + i, 5, NULL, 0);
        if (!gi) { refused++; continue; }
        memset (pixman_image_get_data (gi), 0x7f + i, pixman_image_get_stride (gi) * 5);
        const void *h = pixman_glyph_cache_insert (c, (void *)(uintptr_t)(i + 1), (void *)(uintptr_t)9, 1, 2, gi);
        pixman_image_unref (gi);
        if (!h) { refused++; continue; }
        if (pixman_glyph_cache_lookup (c, (void *)(uintptr_t)(i + 1), (void *)(uintptr_t)9) != h) FAIL (res, "lookup after insert does not return the inserted glyph");
        g[ng].x = 8 + i * 7; g[ng].y = 10; g[ng].glyph = h; ng++;
    }
    if (refused) res->reported_failure = 1;
    if (d && s && ng) {
        pixman_composite_glyphs_no_mask (PIXMAN_OP_OVER, s, d, 0, 0, 0, 0, c, ng, g);
        pixman_composite_glyphs (PIXMAN_OP_OVER, s, d, PIXMAN_a8, 0, 0, 5, 4, 5, 4, 50, 22, c, ng, g);
        pixman_composite_glyphs (PIXMAN_OP_ADD, s, d, PIXMAN_a8r8g8b8, 0, 0, 5, 4, 5, 4, 50, 22, c, ng, g);
        if (!margin_intact (px_b, 64, 60, 30, 5, 4, 50, 24)) FAIL (res, "glyph compositing wrote outside the glyph area");
    }
    for (int i = 0; i < ng; i++) if (i & 1) pixman_glyph_cache_remove (c, (void *)(uintptr_t)((uintptr_t)i + 1), (void *)(uintptr_t)9);
    pixman_glyph_cache_thaw (c);
    if (!refused && d && s) res->digest = vf_hash (px_b, 64 * 30 * 4, 0);
    if (d) pixman_image_unref (d); if (s) pixman_image_unref (s);
    pixman_glyph_cache_destroy (c);
}
static void sc_traps (res_t *res)
{
    for (int i = 0; i < 64 * 64; i++) px_b[i] = MARGIN_PATTERN;
    pixman_image_t *d = pixman_image_create_bits (PIXMAN_a8r8g8b8, 60, 30, px_b, 256); pixman_color_t col = { 0xffff, 0, 0x8000, 0xc000 }; pixman_image_t *s = pixman_image_create_solid_fill (&col);
    if (!d || !s) { res->reported_failure = 1; if (d) pixman_image_unref (d); if (s) pixman_image_unref (s); return; }
    pixman_trapezoid_t t[3]; for (int i = 0; i < 3; i++) { t[i].top = (6 + i * 6) << 16; t[i].bottom = (11 + i * 6) << 16; t[i].left.p1.x = (8 + i) << 16; t[i].left.p1.y = t[i].top; t[i].left.p2.x = (12 + i) << 16; t[i].left.p2.y = t[i].bottom; t[i].right.p1.x = 40 << 16; t[i].right.p1.y = t[i].top; t[i].right.p2.x = (45 + i) << 16; t[i].right.p2.y = t[i].bottom; }
    pixman_triangle_t tr[2] = { { { 10 << 16, 8 << 16 }, { 48 << 16, 10 << 16 }, { 20 << 16, 25 << 16 } }, { { 30 << 16, 6 << 16 }, { 50 << 16, 24 << 16 }, { 9 << 16, 20 << 16 } } };
    pixman_composite_trapezoids (PIXMAN_OP_OVER, s, d, PIXMAN_a8, 0, 0, 0, 0, 3, t);
    pixman_composite_triangles (PIXMAN_OP_ADD, s, d, PIXMAN_a8, 0, 0, 0, 0, 2, tr);
    pixman_image_t *m = pixman_image_create_bits (PIXMAN_a8, 60, 30, NULL, 0);
    if (m) { pixman_add_triangles (m, 0, 0, 2, tr); pixman_add_trapezoids (m, 0, 0, 3, t); pixman_image_unref (m); } else res->reported_failure = 1;
    if (!margin_intact (px_b, 64, 60, 30, 8, 6, 43, 20)) FAIL (res, "trapezoid compositing wrote outside the shapes' extents");
    res->digest = vf_hash (px_b, 64 * 30 * 4, 0);
    pixman_image_unref (d); pixman_image_unref (s);
}
static void sc_fill_rectangles (res_t *res)
{
    for (int i = 0; i < 64 * 64; i++) px_b[i] = MARGIN_PATTERN;
    pixman_image_t *d = pixman_image_create_bits (PIXMAN_a8r8g8b8, 60, 30, px_b, 256);
    if (!d) { res->reported_failure = 1; return; }
    pixman_rectangle16_t rc[12]; for (int i = 0; i < 12; i++) { rc[i].x = (int16_t)(6 + i * 4); rc[i].y = (int16_t)(5 + (i % 3) * 6); rc[i].width = 3; rc[i].height = 5; }
    pixman_color_t c1 = { 0xffff, 0, 0, 0xffff }, c2 = { 0x4000, 0x4000, 0, 0x8000 };
    pixman_bool_t a = pixman_image_fill_rectangles (PIXMAN_OP_SRC, d, &c1, 12, rc), b = pixman_image_fill_rectangles (PIXMAN_OP_OVER, d, &c2, 12, rc);
    pixman_box32_t bx[9]; boxes_grid (bx, 9, 8, 6, 1); for (int i = 0; i < 9; i++) bx[i].y2 = 24;
    pixman_bool_t c = pixman_image_fill_boxes (PIXMAN_OP_SRC, d, &c2, 9, bx);
    if (!a || !b || !c) res->reported_failure = 1; else res->digest = vf_hash (px_b, 64 * 30 * 4, 0);
    if (!margin_intact (px_b, 64, 60, 30, 6, 5, 48, 19)) FAIL (res, "fill_rectangles/fill_boxes wrote outside the rectangles");
    pixman_image_unref (d);
}
static void sc_compute_region (res_t *res)
{
    pixman_image_t *s = small_src (), *d = pixman_image_create_bits (PIXMAN_a8r8g8b8, 60, 30, px_b, 256);
    if (!s || !d) { res->reported_failure = 1; if (s) pixman_image_unref (s); if (d) pixman_image_unref (d); return; }
    pixman_box32_t cb[8]; boxes_grid (cb, 8, 2, 0, 1); pixman_region32_t reg; int ok = pixman_region32_init_rects (&reg, cb, 8);
    if (ok) ok = pixman_image_set_clip_region32 (d, &reg);
    pixman_region32_fini (&reg);
    pixman_box32_t sb[5]; boxes_grid (sb, 5, 0, 1, 0); pixman_region32_t sreg; int ok2 = pixman_region32_init_rects (&sreg, sb, 5);
    if (ok2) ok2 = pixman_image_set_clip_region32 (s, &sreg);
    pixman_region32_fini (&sreg);
    pixman_image_set_source_clipping (s, 1); pixman_image_set_has_client_clip (s, 1);
    pixman_region16_t out; pixman_region_init (&out);
    pixman_bool_t r = pixman_compute_composite_region (&out, s, NULL, d, 0, 0, 0, 0, 1, 1, 50, 25);
    if (!ok || !ok2) res->reported_failure = 1;
    else if (r) { int n; pixman_box16_t *b = pixman_region_rectangles (&out, &n); res->digest = vf_hash (b, n * sizeof *b, 3); }
    else res->reported_failure = 1;         /* an allocation inside the query failed: FALSE is the documented report */
    pixman_region_fini (&out); pixman_image_unref (s); pixman_image_unref (d);
}

typedef struct { const char *name; void (*fn) (res_t *); int draws; } scen_t;   /* draws: contains void drawing calls, which may legitimately skip work */
static const scen_t scens[] = {
    { "region32_union", sc_union }, { "region32_subtract", sc_subtract }, { "region32_intersect", sc_intersect }, { "region32_inverse", sc_inverse }, { "region32_union_in_place", sc_union_inplace },
    { "region32_copy", sc_copy }, { "region32_init_rects_validate", sc_init_rects_validate }, { "init_rects_many_partial_regions", sc_init_rects_many_partial_regions }, { "region32_union_rect_growth", sc_union_rect_growth }, { "region16_subtract", sc_region16 },
    { "image_create_bits", sc_create_bits }, { "gradient_create_and_draw", sc_create_gradients, 1 }, { "solid_setters_transform_filter_clip", sc_solid_and_setters, 1 }, { "filter_create_separable", sc_filter_create },
    { "composite_wide_general_path", sc_composite_wide_general, 1 }, { "composite_alpha_map_transform_iterators", sc_composite_alpha_map_and_transform, 1 }, { "glyph_cache_and_composite_glyphs", sc_glyphs, 1 },
    { "composite_trapezoids_triangles", sc_traps, 1 }, { "fill_rectangles_boxes", sc_fill_rectangles, 1 }, { "compute_composite_region", sc_compute_region },
};
#define NSCEN ((int)(sizeof scens / sizeof scens[0]))

static void alloc_case (long idx, vf_rng *rng)
{
    const scen_t *sc = &scens[idx % NSCEN];
    size_variant = (uint64_t)(idx / NSCEN) * 7;
    res_t base; memset (&base, 0, sizeof base);
    /* baseline: count the allocations */
    vf_alloc_reset_live (); vf_alloc_begin (-1, 0); sc->fn (&base); vf_alloc_end ();
    long N = vf_alloc_count (), leaked = vf_alloc_live ();
    char key[160];
    if (base.bad) { snprintf (key, sizeof key, "C15:baseline:%s", sc->name); vf_violation (key, "without any failure: %s", base.msg); return; }
    if (leaked) { snprintf (key, sizeof key, "C15:leak:%s:no-failure", sc->name); vf_violation (key, "%ld blocks allocated during the scenario are still live at its end (no failure injected)", leaked); }
    vf_count ("scenarios_baselined", 1); vf_max ("max_allocations_in_a_scenario", N);
    vf_label ("scenario_allocs", "%s:%ld", sc->name, N);
    long injected = 0;
    for (int mode = 0; mode < 2; mode++) for (long k = 1; k <= N; k++) {
        res_t r; memset (&r, 0, sizeof r);
        vf_inflight ("scenario %s variant %llu: allocation %ld of %ld fails %s", sc->name, (unsigned long long)size_variant, k, N, mode ? "and every later one" : "once");
        vf_case_desc ("scenario %s variant %llu: allocation %ld of %ld fails %s", sc->name, (unsigned long long)size_variant, k, N, mode ? "and every later one" : "once");
        vf_alloc_reset_live (); vf_alloc_begin (k, mode); sc->fn (&r); vf_alloc_end ();
        long live = vf_alloc_live (), nfailed = vf_alloc_failed (); void *site = vf_alloc_last_failed_site ();
        injected++;
        if (nfailed) vf_label ("failed_site_addr", "%p", site);
        vf_cell ("cells", vf_mix (vf_mix (idx % NSCEN, k), mode * 2 + (nfailed > 0)));
        if (r.bad) { snprintf (key, sizeof key, "C15:%s:%s", sc->name, mode ? "persistent" : "single"); vf_violation (key, "%s (failed allocation site %p)", r.msg, site); }
        if (live) { size_t sz; void *ls = vf_alloc_first_live_site (&sz); snprintf (key, sizeof key, "C15:leak:%s:%s", sc->name, mode ? "persistent" : "single");
                    vf_violation (key, "%ld block(s) still live after the scenario (e.g. %zu bytes allocated at %p); failed site %p", live, sz, ls, site); }
        if (nfailed && !sc->draws && !r.reported_failure && !r.bad && r.digest != base.digest) { snprintf (key, sizeof key, "C15:silent-wrong-result:%s:%s", sc->name, mode ? "persistent" : "single");
                    vf_violation (key, "an allocation failed (site %p), every call reported success, but the result differs from the failure-free run", site); }
        if (nfailed && !r.reported_failure && r.digest == base.digest) vf_count ("failures_absorbed_with_correct_result", 1);
        if (r.reported_failure) vf_count ("failures_reported", 1);
    }
    vf_count ("evaluations", injected); vf_count ("injected_runs", injected);
    if (idx < NSCEN && idx < 3) vf_sample ("scenario %s: %ld allocations, %ld injected runs (each k failing once, and k.. failing persistently)", sc->name, N, injected);
}

int main (int argc, char **argv) { return vf_main (argc, argv, "C15", NULL, alloc_case, NULL); }
