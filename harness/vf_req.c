#include "vf_req.h"
#include "ref_pixel.h"
#include <math.h>

const char *rq_tr_name[] = { "none", "identity", "int-translate", "frac-translate", "scale+", "scale+-", "rot90", "rot180", "rot270", "affine", "projective" };
const char *rq_filter_name (int f)
{
    switch (f) { case PIXMAN_FILTER_FAST: return "FAST"; case PIXMAN_FILTER_GOOD: return "GOOD"; case PIXMAN_FILTER_BEST: return "BEST"; case PIXMAN_FILTER_NEAREST: return "NEAREST";
    case PIXMAN_FILTER_BILINEAR: return "BILINEAR"; case PIXMAN_FILTER_CONVOLUTION: return "CONVOLUTION"; case PIXMAN_FILTER_SEPARABLE_CONVOLUTION: return "SEPARABLE"; default: return "?"; }
}
const char *rq_repeat_name (int r) { static const char *n[] = { "NONE", "NORMAL", "PAD", "REFLECT" }; return r >= 0 && r < 4 ? n[r] : "?"; }

#define P(x) PIXMAN_##x
const pixman_format_code_t rq_dst_formats[] = {
    P (a8r8g8b8), P (x8r8g8b8), P (a8b8g8r8), P (x8b8g8r8), P (b8g8r8a8), P (b8g8r8x8), P (r8g8b8a8), P (r8g8b8x8), P (x14r6g6b6),
    P (x2r10g10b10), P (a2r10g10b10), P (x2b10g10r10), P (a2b10g10r10), P (a8r8g8b8_sRGB), P (r8g8b8), P (b8g8r8),
    P (r5g6b5), P (b5g6r5), P (a1r5g5b5), P (x1r5g5b5), P (a1b5g5r5), P (x1b5g5r5), P (a4r4g4b4), P (x4r4g4b4), P (a4b4g4r4), P (x4b4g4r4),
    P (a8), P (r3g3b2), P (b2g3r3), P (a2r2g2b2), P (a2b2g2r2), P (x4a4), P (a4), P (r1g2b1), P (b1g2r1), P (a1r1g1b1), P (a1b1g1r1), P (a1),
    P (c8), P (g8), P (c4), P (g4), P (g1), P (x4c4), P (x4g4), P (rgba_float), P (rgb_float),
};
const int rq_n_dst_formats = sizeof rq_dst_formats / sizeof rq_dst_formats[0];
const pixman_format_code_t rq_src_formats[] = {
    P (a8r8g8b8), P (x8r8g8b8), P (a8b8g8r8), P (x8b8g8r8), P (b8g8r8a8), P (b8g8r8x8), P (r8g8b8a8), P (r8g8b8x8), P (x14r6g6b6),
    P (x2r10g10b10), P (a2r10g10b10), P (x2b10g10r10), P (a2b10g10r10), P (a8r8g8b8_sRGB), P (r8g8b8), P (b8g8r8),
    P (r5g6b5), P (b5g6r5), P (a1r5g5b5), P (x1r5g5b5), P (a1b5g5r5), P (x1b5g5r5), P (a4r4g4b4), P (x4r4g4b4), P (a4b4g4r4), P (x4b4g4r4),
    P (a8), P (r3g3b2), P (b2g3r3), P (a2r2g2b2), P (a2b2g2r2), P (x4a4), P (a4), P (r1g2b1), P (b1g2r1), P (a1r1g1b1), P (a1b1g1r1), P (a1),
    P (c8), P (g8), P (c4), P (g4), P (g1), P (x4c4), P (x4g4), P (rgba_float), P (rgb_float),
};
const int rq_n_src_formats = sizeof rq_src_formats / sizeof rq_src_formats[0];

static pixman_format_code_t pick_format (vf_rng *r, int role, unsigned profile)
{
    static const pixman_format_code_t common_d[] = { P (a8r8g8b8), P (x8r8g8b8), P (r5g6b5), P (a8), P (a8b8g8r8), P (x8b8g8r8), P (r8g8b8), P (b5g6r5), P (a1r5g5b5), P (a4), P (a1) };
    static const pixman_format_code_t common_m[] = { P (a8), P (a8r8g8b8), P (a1), P (a4), P (x8r8g8b8), P (a8b8g8r8) };
    for (;;) {
        pixman_format_code_t f;
        if (vf_chance (r, 3, 5)) f = role == 1 ? VF_PICK (r, common_m) : VF_PICK (r, common_d);
        else f = role == 2 ? rq_dst_formats[vf_next (r) % rq_n_dst_formats] : rq_src_formats[vf_next (r) % rq_n_src_formats];
        if ((profile & RQP_NARROW_ONLY) && rp_is_wide (f)) continue;
        if ((profile & RQP_NO_INDEXED) && rp_is_indexed (f)) continue;
        return f;
    }
}

/* ------------------------------------------------------------------ transforms / filters */
static pixman_fixed_t frand (vf_rng *r, double lo, double hi) { return (pixman_fixed_t)((lo + (hi - lo) * vf_unit (r)) * 65536.0); }

/* rotations about a point that is not on the pixel grid: translations with fractions 1/4, 1/2 (a sample exactly between two pixels), 3/4 */
#define ROT_FRACTION(t, r) do { if (vf_chance (r, 1, 2)) { (t)->matrix[0][2] += (pixman_fixed_t)(vf_next (r) % 4) * 0x4000; (t)->matrix[1][2] += (pixman_fixed_t)(vf_next (r) % 4) * 0x4000; } } while (0)
void rq_gen_transform (vf_rng *r, rq_image *im, int cls, unsigned profile)
{
    pixman_transform_t *t = &im->tr;
    im->tr_class = cls;
    pixman_transform_init_identity (t);
    double big = (profile & RQP_HOSTILE) ? 1.0 : 0.0;
    switch (cls) {
    case TR_NONE: case TR_IDENTITY: break;
    case TR_INT_TRANSLATE: t->matrix[0][2] = (pixman_fixed_t)(vf_range (r, -6, 12) * 65536); t->matrix[1][2] = (pixman_fixed_t)(vf_range (r, -6, 12) * 65536); break;
    case TR_FRAC_TRANSLATE:
        t->matrix[0][2] = frand (r, -4, 8); t->matrix[1][2] = frand (r, -4, 8);
        if (vf_chance (r, 1, 3)) { t->matrix[0][2] = (t->matrix[0][2] & ~0xffff) | 0x8000; }     /* exactly on .5 */
        if (vf_chance (r, 1, 4)) { t->matrix[1][2] = (t->matrix[1][2] & ~0xffff) | (vf_chance (r, 1, 2) ? 1 : 0xffff); }
        break;
    case TR_SCALE_POS: case TR_SCALE_ANY: {
        static const double sc[] = { 0.25, 0.5, 0.75, 1.0, 1.5, 2.0, 3.0, 1.0 / 3, 0.999, 1.001 };
        double sx = vf_chance (r, 1, 2) ? VF_PICK (r, sc) : 0.1 + 3.5 * vf_unit (r), sy = vf_chance (r, 1, 2) ? VF_PICK (r, sc) : 0.1 + 3.5 * vf_unit (r);
        if (vf_chance (r, 1, 3)) sy = 1.0;
        if (cls == TR_SCALE_ANY) { if (vf_chance (r, 1, 2)) sx = -sx; if (vf_chance (r, 1, 2)) sy = -sy; }
        if (big > 0 && vf_chance (r, 1, 4)) { sx *= vf_chance (r, 1, 2) ? 4000 : 1.0 / 4000; }
        t->matrix[0][0] = (pixman_fixed_t)(sx * 65536); t->matrix[1][1] = (pixman_fixed_t)(sy * 65536);
        if (!t->matrix[0][0]) t->matrix[0][0] = 1;
        if (!t->matrix[1][1]) t->matrix[1][1] = 1;
        t->matrix[0][2] = frand (r, -3, 6) + (sx < 0 ? 20 * 65536 : 0); t->matrix[1][2] = frand (r, -3, 6) + (sy < 0 ? 8 * 65536 : 0);
        if (vf_chance (r, 1, 3)) { t->matrix[0][2] &= ~0xffff; t->matrix[1][2] &= ~0xffff; }
        /* translations on a 1/4 grid: samples land exactly on pixel centres and pixel edges */
        if (vf_chance (r, 1, 2)) { t->matrix[0][2] = (t->matrix[0][2] & ~0xffff) | (vf_next (r) % 4) * 0x4000; t->matrix[1][2] = (t->matrix[1][2] & ~0xffff) | (vf_next (r) % 4) * 0x4000;
            /* ... and one unit (1/65536) to either side of such a position: the tie-breaking epsilon of the nearest rule, repeat wrap-around at exactly the width */
            if (vf_chance (r, 1, 3)) t->matrix[0][2] += vf_chance (r, 1, 2) ? 1 : -1;
            if (vf_chance (r, 1, 5)) t->matrix[1][2] += vf_chance (r, 1, 2) ? 1 : -1; }
        break; }
    case TR_ROT90: t->matrix[0][0] = 0; t->matrix[0][1] = -65536; t->matrix[1][0] = 65536; t->matrix[1][1] = 0;
        t->matrix[0][2] = (pixman_fixed_t)(vf_range (r, 2, 14) * 65536); t->matrix[1][2] = (pixman_fixed_t)(vf_range (r, -3, 3) * 65536); ROT_FRACTION (t, r); break;
    case TR_ROT180: t->matrix[0][0] = -65536; t->matrix[1][1] = -65536;
        t->matrix[0][2] = (pixman_fixed_t)(vf_range (r, 4, 40) * 65536); t->matrix[1][2] = (pixman_fixed_t)(vf_range (r, 1, 8) * 65536); ROT_FRACTION (t, r); break;
    case TR_ROT270: t->matrix[0][0] = 0; t->matrix[0][1] = 65536; t->matrix[1][0] = -65536; t->matrix[1][1] = 0;
        t->matrix[0][2] = (pixman_fixed_t)(vf_range (r, -3, 3) * 65536); t->matrix[1][2] = (pixman_fixed_t)(vf_range (r, 4, 40) * 65536); ROT_FRACTION (t, r); break;
    case TR_AFFINE:
        t->matrix[0][0] = frand (r, -2, 2); t->matrix[0][1] = frand (r, -1.5, 1.5); t->matrix[1][0] = frand (r, -1.5, 1.5); t->matrix[1][1] = frand (r, -2, 2);
        t->matrix[0][2] = frand (r, -8, 16); t->matrix[1][2] = frand (r, -8, 16);
        if (big > 0 && vf_chance (r, 1, 3)) { t->matrix[0][2] = frand (r, -32767, 32767); t->matrix[0][0] = frand (r, -30000, 30000); }
        break;
    default: /* projective */
        t->matrix[0][0] = frand (r, 0.5, 1.5); t->matrix[0][1] = frand (r, -0.3, 0.3); t->matrix[1][0] = frand (r, -0.3, 0.3); t->matrix[1][1] = frand (r, 0.5, 1.5);
        t->matrix[0][2] = frand (r, -4, 8); t->matrix[1][2] = frand (r, -4, 8);
        t->matrix[2][0] = (pixman_fixed_t)vf_range (r, -600, 600); t->matrix[2][1] = (pixman_fixed_t)vf_range (r, -600, 600);
        t->matrix[2][2] = vf_chance (r, 1, 2) ? 65536 : frand (r, 0.6, 1.8);
        if (big > 0 && vf_chance (r, 1, 3)) { t->matrix[2][0] = (pixman_fixed_t)vf_range (r, -70000, 70000); t->matrix[2][2] = (pixman_fixed_t)vf_range (r, -70000, 70000); }
        break;
    }
}

void rq_gen_filter (vf_rng *r, rq_image *im, int filter)
{
    im->filter = filter; im->n_params = 0;
    if (filter == PIXMAN_FILTER_CONVOLUTION) {
        static const int dims[][2] = { { 3, 3 }, { 1, 1 }, { 2, 2 }, { 5, 3 }, { 1, 4 }, { 3, 1 }, { 4, 4 } };
        int k = (int)(vf_next (r) % 7), w = dims[k][0], h = dims[k][1];
        im->params[0] = pixman_int_to_fixed (w); im->params[1] = pixman_int_to_fixed (h);
        int style = (int)(vf_next (r) % 3);
        for (int i = 0; i < w * h; i++) {
            double c = style == 0 ? 1.0 / (w * h) : style == 1 ? (vf_unit (r) * 2.5 - 0.9) / (w * h) * 2 : (i == (w * h) / 2 ? 2.0 : -1.0 / (w * h));
            im->params[2 + i] = (pixman_fixed_t)(c * 65536);
        }
        im->n_params = 2 + w * h;
    } else if (filter == PIXMAN_FILTER_SEPARABLE_CONVOLUTION) {
        static const pixman_kernel_t ks[] = { PIXMAN_KERNEL_BOX, PIXMAN_KERNEL_LINEAR, PIXMAN_KERNEL_CUBIC, PIXMAN_KERNEL_LANCZOS2, PIXMAN_KERNEL_GAUSSIAN, PIXMAN_KERNEL_IMPULSE };
        int n = 0;
        pixman_fixed_t sx = frand (r, 0.6, 2.2), sy = frand (r, 0.6, 2.2);
        pixman_fixed_t *p = pixman_filter_create_separable_convolution (&n, sx, sy, VF_PICK (r, ks), VF_PICK (r, ks), VF_PICK (r, ks), VF_PICK (r, ks), (int)vf_range (r, 0, 3), (int)vf_range (r, 0, 3));
        if (p && n <= RQ_MAX_PARAMS) { memcpy (im->params, p, n * sizeof *p); im->n_params = n; }
        else im->filter = PIXMAN_FILTER_BILINEAR;
        free (p);
    }
}

static void gen_clip (vf_rng *r, rq_image *im, int w, int h, int many)
{
    int n = many ? (int)vf_range (r, 1, RQ_MAX_CLIP) : (int)vf_range (r, 1, 3);
    im->n_clip = n;
    if (vf_chance (r, 1, 14)) {       /* a clip that is set but empty (e.g. a fully obscured window) */
        im->n_clip = 1; im->clip[0].x1 = im->clip[0].x2 = (int)vf_range (r, 0, w); im->clip[0].y1 = im->clip[0].y2 = (int)vf_range (r, 0, h);
        return;
    }
    for (int i = 0; i < n; i++) {
        int x1 = (int)vf_range (r, -2, w), y1 = (int)vf_range (r, -1, h);
        int x2 = x1 + (int)vf_range (r, 1, w / 2 + 3), y2 = y1 + (int)vf_range (r, 1, h / 2 + 2);
        im->clip[i].x1 = x1; im->clip[i].y1 = y1; im->clip[i].x2 = x2; im->clip[i].y2 = y2;
    }
}

static void gen_gradient (vf_rng *r, rq_image *im)
{
    im->n_stops = (int)vf_range (r, 1, 6);
    double pos = 0;
    for (int i = 0; i < im->n_stops; i++) {
        pos += vf_chance (r, 1, 4) ? 0 : vf_unit (r) * (1.0 - pos) * 0.7;
        if (i == im->n_stops - 1 && vf_chance (r, 1, 2)) pos = 1.0;
        im->stops[i].x = (pixman_fixed_t)(pos * 65536);
        im->stops[i].color.red = (uint16_t)vf_next (r); im->stops[i].color.green = (uint16_t)vf_next (r); im->stops[i].color.blue = (uint16_t)vf_next (r);
        im->stops[i].color.alpha = vf_chance (r, 1, 2) ? 0xffff : (uint16_t)vf_next (r);
    }
    im->p1.x = frand (r, -10, 30); im->p1.y = frand (r, -5, 10); im->p2.x = frand (r, -10, 40); im->p2.y = frand (r, -5, 10);
    im->r1 = frand (r, 0, 10); im->r2 = frand (r, 0, 30); im->angle = frand (r, -400, 400);
    if (vf_chance (r, 1, 8)) im->p2 = im->p1;
    if (vf_chance (r, 1, 8)) im->r2 = im->r1;
}

void rq_gen_image (vf_rng *r, rq_image *im, int role, unsigned profile)
{
    memset (im, 0, sizeof *im);
    im->pixseed = vf_next (r);
    im->pixstyle = (profile & RQP_OPAQUE_BIAS) ? 1 : (int)(vf_next (r) % 4);
    if (role == 2) {
        im->kind = RQ_BITS; im->fmt = pick_format (r, 2, profile);
        im->w = vf_chance (r, 1, 6) ? (int)vf_range (r, 1, 4) : (int)vf_range (r, 1, 70); im->h = (int)vf_range (r, 1, 5);
        if (vf_chance (r, 1, 10)) im->h = (int)vf_range (r, 6, 20);
        im->pad = (int)(vf_next (r) % 3); im->neg = vf_chance (r, 1, 8);
        if (!(profile & RQP_SIMPLE_DEST)) {
            if (vf_chance (r, 1, (profile & RQP_CLIPPY) ? 2 : 5)) gen_clip (r, im, im->w, im->h, profile & RQP_CLIPPY);
            if (!(profile & RQP_NO_ALPHAMAP) && vf_chance (r, 1, 16)) { im->alpha_map = 1; im->am_x = (int)vf_range (r, -3, 3); im->am_y = (int)vf_range (r, -2, 2); im->am_w = (int)vf_range (r, 1, im->w + 3); im->am_h = (int)vf_range (r, 1, im->h + 2); }
            if (!(profile & RQP_NO_ACCESSORS) && vf_chance (r, 1, 12)) im->accessors = 1;
        }
        return;
    }
    int k = (int)(vf_next (r) % 16);
    im->kind = k < 11 ? RQ_BITS : k < 14 ? RQ_SOLID : RQ_LINEAR + (int)(vf_next (r) % 3);
    if ((profile & RQP_NO_GRADIENT) && im->kind >= RQ_LINEAR) im->kind = RQ_BITS;
    if (im->kind == RQ_SOLID) {
        im->solid.alpha = vf_chance (r, 1, 3) ? 0xffff : (uint16_t)vf_next (r);
        im->solid.red = (uint16_t)vf_next (r); im->solid.green = (uint16_t)vf_next (r); im->solid.blue = (uint16_t)vf_next (r);
        if (vf_chance (r, 1, 2)) { im->solid.red = (uint16_t)((uint32_t)im->solid.red * im->solid.alpha / 65535); im->solid.green = (uint16_t)((uint32_t)im->solid.green * im->solid.alpha / 65535); im->solid.blue = (uint16_t)((uint32_t)im->solid.blue * im->solid.alpha / 65535); }
        if (role == 1 && vf_chance (r, 1, 3)) im->ca = 1;
        return;
    }
    if (im->kind >= RQ_LINEAR) gen_gradient (r, im);
    else {
        im->fmt = pick_format (r, role, profile);
        im->w = vf_chance (r, 1, 8) ? (int)vf_range (r, 1, 2) : (int)vf_range (r, 1, 40); im->h = vf_chance (r, 1, 8) ? 1 : (int)vf_range (r, 1, 12);
        if (vf_chance (r, 1, 7)) im->w = (int)vf_range (r, 60, 200);       /* wider than the small-source special cases of the repeat fast paths */
        im->pad = (int)(vf_next (r) % 3); im->neg = vf_chance (r, 1, 8);
        if (!(profile & RQP_NO_ALPHAMAP) && vf_chance (r, 1, 20)) { im->alpha_map = 1; im->am_x = (int)vf_range (r, -2, 2); im->am_y = (int)vf_range (r, -2, 2); im->am_w = (int)vf_range (r, 1, im->w + 2); im->am_h = (int)vf_range (r, 1, im->h + 2); }
        if (!(profile & RQP_NO_ACCESSORS) && vf_chance (r, 1, 12)) im->accessors = 1;
    }
    /* transform: half of the sources are untransformed */
    int cls = TR_NONE;
    if (vf_chance (r, 1, 2)) { static const int w[] = { 1, 2, 3, 4, 4, 5, 6, 7, 8, 9, 9, 10, 4, 4, 5 }; cls = VF_PICK (r, w); }
    rq_gen_transform (r, im, cls, profile);
    static const int filters[] = { PIXMAN_FILTER_NEAREST, PIXMAN_FILTER_NEAREST, PIXMAN_FILTER_BILINEAR, PIXMAN_FILTER_BILINEAR, PIXMAN_FILTER_FAST, PIXMAN_FILTER_GOOD, PIXMAN_FILTER_BEST,
                                   PIXMAN_FILTER_CONVOLUTION, PIXMAN_FILTER_SEPARABLE_CONVOLUTION };
    rq_gen_filter (r, im, cls == TR_NONE && vf_chance (r, 3, 4) ? PIXMAN_FILTER_NEAREST : VF_PICK (r, filters));
    im->repeat = (int)(vf_next (r) % 4);
    if (cls == TR_NONE && vf_chance (r, 1, 2)) im->repeat = PIXMAN_REPEAT_NONE;
    if (role == 1 && vf_chance (r, 1, 3)) im->ca = 1;
    if (vf_chance (r, 1, (profile & RQP_CLIPPY) ? 3 : 12)) { gen_clip (r, im, im->kind == RQ_BITS ? im->w : 30, im->kind == RQ_BITS ? im->h : 8, profile & RQP_CLIPPY); im->clip_sources = vf_chance (r, 2, 3); im->has_client_clip_only = vf_chance (r, 1, 6); }
}

void rq_gen_geometry (vf_rng *r, rq_request *q, unsigned profile)
{
    rq_image *d = &q->dst;
    int k = (int)(vf_next (r) % 8);
    if (k < 4) { q->dx = 0; q->dy = 0; q->w = d->w; q->h = d->h; }
    else if (k < 6) { q->dx = (int)vf_range (r, 0, d->w - 1); q->dy = (int)vf_range (r, 0, d->h - 1); q->w = (int)vf_range (r, 1, d->w - q->dx); q->h = (int)vf_range (r, 1, d->h - q->dy); }
    else { q->dx = (int)vf_range (r, -5, d->w + 2); q->dy = (int)vf_range (r, -3, d->h + 1); q->w = (int)vf_range (r, 0, d->w + 8); q->h = (int)vf_range (r, 0, d->h + 4); }
    q->sx = (int)vf_range (r, -3, 8); q->sy = (int)vf_range (r, -2, 4); q->mx = (int)vf_range (r, -3, 8); q->my = (int)vf_range (r, -2, 4);
    if (vf_chance (r, 1, 2)) { q->sx = q->sy = 0; }
    if (vf_chance (r, 1, 2)) { q->mx = q->my = 0; }
    if (profile & RQP_HOSTILE) {
        if (vf_chance (r, 1, 6)) { q->sx = (int)vf_range (r, -40000, 40000); q->sy = (int)vf_range (r, -40000, 40000); }
        if (vf_chance (r, 1, 10)) { q->dx = (int)vf_range (r, -70000, 70000); q->w = (int)vf_range (r, 0, 140000); }
        if (vf_chance (r, 1, 20)) { q->sx = vf_chance (r, 1, 2) ? INT32_MAX - (int)vf_range (r, 0, 100) : INT32_MIN + (int)vf_range (r, 0, 100); }
    }
    /* an untransformed bits mask that covers the request (unified-alpha mask fast paths need it) */
    if (q->has_mask && !q->pixbuf && q->mask.kind == RQ_BITS && q->mask.tr_class == TR_NONE && q->w > 0 && q->h > 0 && q->w < 400 && q->h < 64 && vf_chance (r, 2, 3)) {
        if (q->mx < 0) q->mx = 0;
        if (q->my < 0) q->my = 0;
        q->mask.w = q->mx + q->w + (int)vf_range (r, 0, 2); q->mask.h = q->my + q->h + (int)vf_range (r, 0, 1);
    }
    /* very wide sources: positions close to the ends of the 16.16 range (scaled NONE/PAD fast paths) */
    if (q->src.kind == RQ_BITS && (q->src.tr_class == TR_SCALE_POS || q->src.tr_class == TR_SCALE_ANY || q->src.tr_class == TR_NONE) && q->src.alpha_map == 0 && vf_chance (r, 1, 25)) {
        rq_image *s = &q->src;
        s->w = (int)vf_range (r, 12000, 32767); s->h = (int)vf_range (r, 1, 2);
        /* ... and sources on either side of the largest size the library accepts (0x7ffe): above it the request has to be dropped, whatever the repeat mode */
        if (vf_chance (r, 1, 3)) s->w = vf_chance (r, 1, 2) ? (int)vf_range (r, 32760, 32775) : (int)vf_range (r, 32768, 70000);
        if (PIXMAN_FORMAT_BPP (s->fmt) > 32) s->fmt = PIXMAN_a8r8g8b8;
        if (s->tr_class != TR_NONE && vf_chance (r, 1, 5)) {
            /* the same, vertically: a very tall source walked by a y scale */
            int t = s->w; s->w = s->h; s->h = t;
            double sc = (double)s->h / (q->h > 0 ? q->h : 1) * (0.3 + vf_unit (r));
            s->tr.matrix[1][1] = (pixman_fixed_t)(sc * 65536) * (s->tr.matrix[1][1] < 0 ? -1 : 1);
            s->tr.matrix[1][2] = s->tr.matrix[1][1] < 0 ? pixman_int_to_fixed (s->h - (int)vf_range (r, 0, 3000)) : -(pixman_fixed_t)(vf_range (r, 0, 3000) * 65536);
            s->tr.matrix[0][0] = 65536; s->tr.matrix[0][2] = 0;
            q->sx = 0; q->sy = (int)vf_range (r, 0, 3);
            return;
        }
        if (s->tr_class != TR_NONE && s->w > 32767 && vf_chance (r, 3, 4)) {
            /* a modest scale and a start inside the first 32767 columns: every coordinate the request samples is representable, only the image is too big */
            static const double scs[] = { 0.5, 1.0, 1.5, 2.0, 3.0, 0.999 };
            double sc = vf_chance (r, 1, 2) ? VF_PICK (r, scs) : 0.3 + 3.7 * vf_unit (r); int neg = s->tr.matrix[0][0] < 0;
            int span = (int)(sc * ((q->w > 0 ? q->w : 1) + 8)) + 2, start = (int)vf_range (r, 0, 30000 - span > 0 ? 30000 - span : 0);
            if (vf_chance (r, 1, 3)) start = (int)vf_range (r, 0, 40);
            s->tr.matrix[0][0] = (pixman_fixed_t)(sc * 65536) * (neg ? -1 : 1);
            s->tr.matrix[0][2] = pixman_int_to_fixed (neg ? start + span : start) + (pixman_fixed_t)(vf_next (r) % 65536);
            s->tr.matrix[1][1] = 65536; s->tr.matrix[1][2] = 0;
            if (vf_chance (r, 1, 2)) { s->filter = vf_chance (r, 2, 3) ? PIXMAN_FILTER_NEAREST : PIXMAN_FILTER_BILINEAR; s->n_params = 0; }
            q->sx = (int)vf_range (r, 0, 3); q->sy = 0;
            return;
        }
        if (s->tr_class != TR_NONE) {
            double sc = (double)s->w / (q->w > 0 ? q->w : 1) * (0.3 + vf_unit (r));
            s->tr.matrix[0][0] = (pixman_fixed_t)(sc * 65536) * (s->tr.matrix[0][0] < 0 ? -1 : 1);
            s->tr.matrix[0][2] = s->tr.matrix[0][0] < 0 ? pixman_int_to_fixed (s->w - (int)vf_range (r, 0, 3000)) : -(pixman_fixed_t)(vf_range (r, 0, 3000) * 65536);
            s->tr.matrix[1][1] = 65536; s->tr.matrix[1][2] = 0;
        }
        q->sx = (int)vf_range (r, 0, 3); q->sy = 0;
        return;
    }
    /* try to make an untransformed / scaled bits source cover everything it is sampled at */
    q->cover = 0;
    rq_image *s = &q->src;
    if (s->kind == RQ_BITS && s->tr_class <= TR_ROT270 && vf_chance (r, 1, 2) && q->w > 0 && q->h > 0) {      /* quarter turns map boxes onto boxes too */
        pixman_vector_t c[2] = { { { pixman_int_to_fixed (q->sx), pixman_int_to_fixed (q->sy), 65536 } }, { { pixman_int_to_fixed (q->sx + q->w), pixman_int_to_fixed (q->sy + q->h), 65536 } } };
        if (s->tr_class != TR_NONE) { pixman_transform_point (&s->tr, &c[0]); pixman_transform_point (&s->tr, &c[1]); }
        int x0 = pixman_fixed_to_int (c[0].vector[0] < c[1].vector[0] ? c[0].vector[0] : c[1].vector[0]) - 2, x1 = pixman_fixed_to_int (c[0].vector[0] > c[1].vector[0] ? c[0].vector[0] : c[1].vector[0]) + 3;
        int y0 = pixman_fixed_to_int (c[0].vector[1] < c[1].vector[1] ? c[0].vector[1] : c[1].vector[1]) - 2, y1 = pixman_fixed_to_int (c[0].vector[1] > c[1].vector[1] ? c[0].vector[1] : c[1].vector[1]) + 3;
        if (x1 - x0 <= 400 && y1 - y0 <= 60) {
            /* shift the source so that [x0,x1)x[y0,y1) becomes [0,w)x[0,h) */
            if (s->tr_class == TR_NONE) { q->sx -= x0; q->sy -= y0; }
            else { s->tr.matrix[0][2] -= pixman_int_to_fixed (x0); s->tr.matrix[1][2] -= pixman_int_to_fixed (y0); }
            s->w = x1 - x0; s->h = y1 - y0; q->cover = 1;
        }
    }
}

void rq_generate (vf_rng *r, rq_request *q, unsigned profile)
{
    memset (q, 0, sizeof *q);
    static const pixman_op_t common[] = { PIXMAN_OP_SRC, PIXMAN_OP_OVER, PIXMAN_OP_OVER, PIXMAN_OP_ADD, PIXMAN_OP_IN, PIXMAN_OP_OUT_REVERSE, PIXMAN_OP_OVER_REVERSE, PIXMAN_OP_IN_REVERSE };
    if (vf_chance (r, 2, 3)) q->op = VF_PICK (r, common);
    else { int o = (int)(vf_next (r) % 63); if ((o > 0x0d && o < 0x10) || (o > 0x1b && o < 0x20) || (o > 0x2b && o < 0x30) || o > 0x3e) o = PIXMAN_OP_OVER; q->op = (pixman_op_t)o; }
    rq_gen_image (r, &q->dst, 2, profile);
    rq_gen_image (r, &q->src, 0, profile);
    q->has_mask = vf_chance (r, 1, 2);
    if (q->has_mask) rq_gen_image (r, &q->mask, 1, profile);
    rq_gen_geometry (r, q, profile);
}

/* ------------------------------------------------------------------ building */
static uint32_t acc_read (const void *src, int size)
{
    switch (size) { case 1: return *(const uint8_t *)src; case 2: { uint16_t v; memcpy (&v, src, 2); return v; } default: { uint32_t v; memcpy (&v, src, 4); return v; } }
}
static void acc_write (void *dst, uint32_t value, int size)
{
    switch (size) { case 1: *(uint8_t *)dst = (uint8_t)value; break; case 2: { uint16_t v = (uint16_t)value; memcpy (dst, &v, 2); break; } default: memcpy (dst, &value, 4); break; }
}

static void fill_pixels (vf_buf *b, uint64_t seed, int style)
{
    vf_rng pr; vf_rng_seed (&pr, seed, 0x5eed, (uint64_t)style);
    vf_buf_fill_random (b, &pr);
    if (rp_is_float (b->fmt)) {
        int n = b->bpp / 32;
        for (int y = 0; y < b->h; y++) { float *row = (float *)vf_buf_row (b, y);
            for (int x = 0; x < b->w; x++) { float a = style == 1 && vf_chance (&pr, 3, 4) ? 1.0f : (float)vf_unit (&pr);
                for (int c = 0; c < 3; c++) row[x * n + c] = (float)vf_unit (&pr) * a;
                if (n == 4) row[x * n + 3] = a; } }
        return;
    }
    if (style == 0 || b->bpp > 32) return;
    int sh[4], bits[4]; int direct = rp_is_direct (b->fmt); if (direct) rp_layout (b->fmt, sh, bits);
    uint32_t constant = vf_u32 (&pr);
    for (int y = 0; y < b->h; y++) {
        uint8_t *row = vf_buf_row (b, y);
        for (int x = 0; x < b->w; x++) {
            uint32_t v = vf_get_px (row, b->bpp, x);
            if (style == 1 && direct && bits[0] && vf_chance (&pr, 3, 4)) v |= ((1u << bits[0]) - 1) << sh[0];
            if (style == 2 && vf_chance (&pr, 3, 5)) v = vf_chance (&pr, 1, 4) ? 0xffffffffu : 0;
            if (style == 3) v = constant;
            vf_put_px (row, b->bpp, x, v);
        }
    }
}

/* a coherent palette: distinct entries, and ent[] maps every entry's own colour back to its index
 * (so that reading a pixel and storing it again is the identity, as with real palettes) */
pixman_indexed_t *rq_make_palette (pixman_format_code_t f, uint64_t seed)
{
    pixman_indexed_t *p = calloc (1, sizeof *p); if (!p) return NULL;
    vf_rng r; vf_rng_seed (&r, seed, 0x9a1e, 7);
    int depth = PIXMAN_FORMAT_BPP (f) == 8 && PIXMAN_FORMAT_DEPTH (f) ? PIXMAN_FORMAT_DEPTH (f) : PIXMAN_FORMAT_BPP (f), n = 1 << depth;
    int gray = PIXMAN_FORMAT_TYPE (f) == PIXMAN_TYPE_GRAY;
    static __thread int16_t owner[32768];       /* per thread: C16 builds requests in several threads */
    for (int i = 0; i < 32768; i++) owner[i] = -1;
    p->color = !gray;
    for (int i = 0; i < n; i++) {
        for (;;) {
            uint32_t c = gray ? (vf_u32 (&r) & 0xff) * 0x010101u : (vf_u32 (&r) & 0xffffff);
            if (gray && n == 256) c = (uint32_t)((i * 37 + 11) & 0xff) * 0x010101u;
            unsigned key = gray ? (((c >> 16 & 0xff) * 153 + (c >> 8 & 0xff) * 301 + (c & 0xff) * 58) >> 2) : (((c >> 9) & 0x7c00) | ((c >> 6) & 0x03e0) | ((c >> 3) & 0x001f));
            if (owner[key] >= 0) continue;
            owner[key] = (int16_t)i; p->rgba[i] = 0xff000000u | c; break;
        }
    }
    for (int i = n; i < 256; i++) p->rgba[i] = p->rgba[i % n];
    /* every other key maps to the entry owning the nearest lower key (deterministic, total) */
    int last = 0; for (int k = 0; k < 32768; k++) if (owner[k] >= 0) { last = owner[k]; break; }
    for (int k = 0; k < 32768; k++) { if (owner[k] >= 0) last = owner[k]; p->ent[k] = (uint8_t)last; }
    return p;
}

static int build_image (rq_image *im, vf_rng *r, int role)
{
    im->img = NULL; im->amap = NULL; im->live_params = NULL; im->palette = NULL;
    if (im->kind == RQ_SOLID) im->img = pixman_image_create_solid_fill (&im->solid);
    else if (im->kind == RQ_LINEAR) im->img = pixman_image_create_linear_gradient (&im->p1, &im->p2, im->stops, im->n_stops);
    else if (im->kind == RQ_RADIAL) im->img = pixman_image_create_radial_gradient (&im->p1, &im->p2, im->r1, im->r2, im->stops, im->n_stops);
    else if (im->kind == RQ_CONICAL) im->img = pixman_image_create_conical_gradient (&im->p1, im->angle, im->stops, im->n_stops);
    else {
        if (!vf_buf_alloc (&im->buf, im->fmt, im->w, im->h, im->pad, im->neg, vf_default_place (r))) return 0;
        fill_pixels (&im->buf, im->pixseed, im->pixstyle);
        im->img = vf_buf_image (&im->buf);
    }
    if (!im->img) return 0;
    if (im->kind == RQ_BITS && rp_is_indexed (im->fmt)) { im->palette = rq_make_palette (im->fmt, im->pixseed); if (!im->palette) return 0; pixman_image_set_indexed (im->img, im->palette); }
    if (role == 2 && im->repeat != PIXMAN_REPEAT_NONE) pixman_image_set_repeat (im->img, im->repeat);   /* a repeat on a destination only affects its opacity flags */
    if (role != 2) {
        if (im->tr_class != TR_NONE) pixman_image_set_transform (im->img, &im->tr);
        if (im->n_params) { im->live_params = malloc (im->n_params * sizeof (pixman_fixed_t)); memcpy (im->live_params, im->params, im->n_params * sizeof (pixman_fixed_t)); }
        pixman_image_set_filter (im->img, im->filter, im->live_params, im->n_params);
        pixman_image_set_repeat (im->img, im->repeat);
        if (im->ca) pixman_image_set_component_alpha (im->img, 1);
        if (im->clip_sources) pixman_image_set_source_clipping (im->img, 1);
    }
    if (im->n_clip) {
        pixman_region32_t reg; pixman_region32_init_rects (&reg, im->clip, im->n_clip);
        pixman_image_set_clip_region32 (im->img, &reg);
        pixman_region32_fini (&reg);
    }
    if (role != 2) pixman_image_set_has_client_clip (im->img, !im->has_client_clip_only);   /* always, so that the flag follows the record even when a clip arrives later */
    if (im->alpha_map && im->kind == RQ_BITS) {
        if (!vf_buf_alloc (&im->abuf, PIXMAN_a8, im->am_w, im->am_h, 0, 0, vf_default_place (r))) return 0;
        fill_pixels (&im->abuf, im->pixseed ^ 0xa1fa, 0);
        im->amap = vf_buf_image (&im->abuf);
        if (!im->amap) return 0;
        pixman_image_set_alpha_map (im->img, im->amap, (int16_t)im->am_x, (int16_t)im->am_y);
    }
    if (im->accessors && im->kind == RQ_BITS && PIXMAN_FORMAT_BPP (im->fmt) <= 32) pixman_image_set_accessors (im->img, acc_read, acc_write);    /* accessors only exist for <= 32 bpp (the call is refused with a logged error otherwise) */
    return 1;
}

static void free_image (rq_image *im)
{
    if (im->img) pixman_image_unref (im->img);
    if (im->amap) pixman_image_unref (im->amap);
    if (im->buf.map) vf_buf_free (&im->buf);
    if (im->abuf.map) vf_buf_free (&im->abuf);
    free (im->live_params); free (im->palette);
    im->img = im->amap = NULL; im->live_params = NULL; im->palette = NULL;
}

int rq_build (rq_request *q, vf_rng *r)
{
    if (!build_image (&q->dst, r, 2) || !build_image (&q->src, r, 0)) { rq_free (q); return 0; }
    if (q->pixbuf) {
        /* the mask is a second image object over the source's storage */
        memset (&q->mask, 0, sizeof q->mask); q->mask.kind = RQ_BITS; q->mask.fmt = q->pixbuf == 1 ? PIXMAN_a8b8g8r8 : PIXMAN_a8r8g8b8; q->mask.w = q->src.w; q->mask.h = q->src.h;
        q->mask.repeat = q->src.repeat; q->has_mask = 1;
        q->mask.img = pixman_image_create_bits_no_clear (q->mask.fmt, q->src.w, q->src.h, q->src.buf.bits, q->src.buf.stride);
        if (!q->mask.img) { rq_free (q); return 0; }
        pixman_image_set_repeat (q->mask.img, q->src.repeat);
        q->mx = q->sx; q->my = q->sy;
        /* the two views need not be used at the same offsets (then it is an ordinary source/mask pair, not the "pixbuf" special case);
         * offsets that coincide across the axes are included on purpose */
        switch (vf_next (r) % 6) {
        case 0: if (q->sx >= 0 && q->sx + q->h <= q->src.h) q->sy = q->sx; q->mx = q->sx; q->my = q->sy + (q->sy + q->h < q->src.h ? 1 : q->sy > 0 ? -1 : 0); break;
        case 1: q->mx = q->sy; q->my = q->sx; break;
        case 2: q->mx = q->sx + (q->sx + q->w < q->src.w ? 1 : 0); break;
        default: break;
        }
        return 1;
    }
    if (q->has_mask && !build_image (&q->mask, r, 1)) { rq_free (q); return 0; }
    return 1;
}
/* make the pixels of a built direct-colour image premultiplied-valid (colour <= alpha as real values) */
void rq_make_premultiplied (rq_image *im)
{
    if (im->kind != RQ_BITS || !im->buf.map || im->buf.bpp > 32 || !rp_is_direct (im->fmt)) return;
    int sh[4], bits[4]; rp_layout (im->fmt, sh, bits);
    if (!bits[0]) return;
    uint32_t amax = (1u << bits[0]) - 1;
    for (int y = 0; y < im->h; y++) for (int x = 0; x < im->w; x++) {
        uint8_t *row = vf_buf_row (&im->buf, y); uint32_t raw = vf_get_px (row, im->buf.bpp, x), av = (raw >> sh[0]) & amax;
        for (int c = 1; c < 4; c++) if (bits[c]) {
            uint32_t mx = (1u << bits[c]) - 1, v = (raw >> sh[c]) & mx;
            uint32_t lim = (uint32_t)((uint64_t)av * mx / amax);
            if (v > lim) raw = (raw & ~(mx << sh[c])) | (lim << sh[c]);
        }
        vf_put_px (row, im->buf.bpp, x, raw);
    }
}
void rq_free (rq_request *q) { free_image (&q->src); free_image (&q->dst); if (q->has_mask) free_image (&q->mask); }

void rq_run (rq_request *q)
{
    pixman_image_composite32 (q->op, q->src.img, q->has_mask ? q->mask.img : NULL, q->dst.img, q->sx, q->sy, q->mx, q->my, q->dx, q->dy, q->w, q->h);
}

static uint64_t digest_buf (const vf_buf *b, uint64_t h)
{
    uint32_t mask = b->bpp <= 32 ? rp_defined_mask (b->fmt) : 0xffffffffu;
    if (rp_is_indexed (b->fmt)) mask = b->bpp >= 32 ? 0xffffffffu : (1u << b->bpp) - 1;
    for (int y = 0; y < b->h; y++) {
        const uint8_t *row = vf_buf_row (b, y);
        if (b->bpp <= 32) { for (int x = 0; x < b->w; x++) h = vf_mix (h, vf_get_px (row, b->bpp, x) & mask); }
        else h = vf_hash (row, (size_t)b->w * b->bpp / 8, h);
        size_t used = ((size_t)b->w * b->bpp + 7) / 8;
        if (used < (size_t)b->rowbytes && b->bpp >= 8) h = vf_hash (row + used, b->rowbytes - used, h);
    }
    return h;
}
uint64_t rq_digest (const rq_request *q)
{
    uint64_t h;
    if (q->dst.amap && q->dst.buf.bpp <= 32 && rp_is_direct (q->dst.fmt)) {
        /* with an alpha map attached the image's own alpha field is not part of its value */
        const vf_buf *b = &q->dst.buf; int sh[4], bits[4]; rp_layout (b->fmt, sh, bits);
        uint32_t mask = rp_defined_mask (b->fmt); if (bits[0]) mask &= ~(((1u << bits[0]) - 1) << sh[0]);
        h = 0x1234;
        for (int y = 0; y < b->h; y++) for (int x = 0; x < b->w; x++) h = vf_mix (h, vf_get_px (vf_buf_row (b, y), b->bpp, x) & mask);
    } else if (q->dst.amap && q->dst.fmt == PIXMAN_rgba_float) {
        /* same for the floating-point format: r, g, b are the value, the fourth float is the ignored own alpha */
        const vf_buf *b = &q->dst.buf; h = 0x1234;
        for (int y = 0; y < b->h; y++) { const uint32_t *row = (const uint32_t *)vf_buf_row (b, y); for (int x = 0; x < b->w; x++) { h = vf_mix (h, row[4 * x]); h = vf_mix (h, row[4 * x + 1]); h = vf_mix (h, row[4 * x + 2]); } }
    } else h = digest_buf (&q->dst.buf, 0x1234);
    if (q->dst.amap) h = digest_buf (&q->dst.abuf, h);
    return h;
}

static int img_desc (const rq_image *im, char *b, size_t n, int role)
{
    int k = 0;
    if (im->kind == RQ_SOLID) k = snprintf (b, n, "solid(%04x,%04x,%04x,%04x)%s", im->solid.alpha, im->solid.red, im->solid.green, im->solid.blue, im->ca ? " CA" : "");
    else if (im->kind >= RQ_LINEAR) k = snprintf (b, n, "%s-gradient(%d stops)", im->kind == RQ_LINEAR ? "linear" : im->kind == RQ_RADIAL ? "radial" : "conical", im->n_stops);
    else k = snprintf (b, n, "%s %dx%d pad=%d%s style=%d", rp_name (im->fmt), im->w, im->h, im->pad, im->neg ? " negstride" : "", im->pixstyle);
    if (im->kind != RQ_SOLID && role != 2)
        k += snprintf (b + k, n - k, " tr=%s[%x %x %x;%x %x %x;%x %x %x] %s %s%s", rq_tr_name[im->tr_class], (unsigned)im->tr.matrix[0][0], (unsigned)im->tr.matrix[0][1], (unsigned)im->tr.matrix[0][2],
                       (unsigned)im->tr.matrix[1][0], (unsigned)im->tr.matrix[1][1], (unsigned)im->tr.matrix[1][2], (unsigned)im->tr.matrix[2][0], (unsigned)im->tr.matrix[2][1], (unsigned)im->tr.matrix[2][2],
                       rq_filter_name (im->filter), rq_repeat_name (im->repeat), im->ca ? " CA" : "");
    if (im->n_clip) k += snprintf (b + k, n - k, " clip=%d%s", im->n_clip, im->clip_sources ? "(clip_sources)" : "");
    if (im->alpha_map) k += snprintf (b + k, n - k, " alphamap(%d,%d %dx%d)", im->am_x, im->am_y, im->am_w, im->am_h);
    if (im->accessors) k += snprintf (b + k, n - k, " accessors");
    return k;
}
void rq_describe (const rq_request *q, char *out, size_t outn)
{
    /* formatted into a buffer that is always large enough (the pieces add their lengths up), then truncated to the caller's size */
    char buf[6000]; size_t n = sizeof buf;
    int k = snprintf (buf, n, "op=%d src={", (int)q->op);
    k += img_desc (&q->src, buf + k, n - k, 0);
    k += snprintf (buf + k, n - k, "} mask={");
    if (q->has_mask) k += img_desc (&q->mask, buf + k, n - k, 1);
    k += snprintf (buf + k, n - k, "} dst={");
    k += img_desc (&q->dst, buf + k, n - k, 2);
    snprintf (buf + k, n - k, "} src_xy=(%d,%d) mask_xy=(%d,%d) dst=(%d,%d %dx%d)%s", q->sx, q->sy, q->mx, q->my, q->dx, q->dy, q->w, q->h, q->cover ? " cover" : "");
    snprintf (out, outn, "%s", buf);
}
static const char *kind_label (const rq_image *im)
{
    return im->kind == RQ_SOLID ? "solid" : im->kind == RQ_LINEAR ? "linear" : im->kind == RQ_RADIAL ? "radial" : im->kind == RQ_CONICAL ? "conical" : rp_name (im->fmt);
}
/* NORMAL-repeat sources so wide that width + one transform step leaves the 16.16 range: the scaled
 * fast paths walk such sources with 32-bit fixed-point abscissae (known finding, keyed separately) */
static int normal_repeat_step_overflow (const rq_image *im)
{
    if (im->kind != RQ_BITS || im->repeat != PIXMAN_REPEAT_NORMAL || im->tr_class == TR_NONE) return 0;
    int64_t ux = im->tr.matrix[0][0] < 0 ? -(int64_t)im->tr.matrix[0][0] : im->tr.matrix[0][0], uy = im->tr.matrix[1][1] < 0 ? -(int64_t)im->tr.matrix[1][1] : im->tr.matrix[1][1];
    return (int64_t)im->w * 65536 + ux > INT32_MAX || (int64_t)im->h * 65536 + uy > INT32_MAX;
}
void rq_label (const rq_request *q, char *buf, size_t n)
{
    if (normal_repeat_step_overflow (&q->src) || (q->has_mask && normal_repeat_step_overflow (&q->mask))) {
        snprintf (buf, n, "normal-repeat-width-plus-step-beyond-16.16/%s-%s", q->src.kind == RQ_BITS ? rq_tr_name[q->src.tr_class] : "-", q->src.kind == RQ_BITS ? rq_filter_name (q->src.filter) : "-");
        return;
    }
    /* a linear-gradient mask under an untransformed NORMAL-repeat bits source: the tiled-repeat whole-operation fast path composites such a
     * request in horizontal pieces, and the affine linear gradient computes t = trunc(t0) + trunc(inc * i) from the start of each piece, so
     * its last bit depends on where a piece starts (known finding, keyed separately) */
    if (q->has_mask && q->mask.kind == RQ_LINEAR && q->src.kind == RQ_BITS && q->src.repeat == PIXMAN_REPEAT_NORMAL && (q->src.tr_class == TR_NONE || q->src.tr_class == TR_IDENTITY)) {
        snprintf (buf, n, "linear-gradient-mask-under-tiled-normal-repeat-source/op%d/%s/%s", (int)q->op, kind_label (&q->src), kind_label (&q->dst));
        return;
    }
    snprintf (buf, n, "op%d/%s/%s/%s/%s-%s-%s", (int)q->op, kind_label (&q->src), q->has_mask ? kind_label (&q->mask) : "-", kind_label (&q->dst),
              q->src.kind == RQ_SOLID ? "-" : rq_tr_name[q->src.tr_class], q->src.kind == RQ_SOLID ? "-" : rq_filter_name (q->src.filter), q->src.kind == RQ_SOLID ? "-" : rq_repeat_name (q->src.repeat));
}
uint64_t rq_cell (const rq_request *q)
{
    uint64_t h = vf_mix (q->op, q->src.kind * 64 + (q->has_mask ? q->mask.kind + 1 : 0));
    h = vf_mix (h, (uint32_t)q->src.fmt); h = vf_mix (h, q->has_mask ? (uint32_t)q->mask.fmt : 0); h = vf_mix (h, (uint32_t)q->dst.fmt);
    h = vf_mix (h, q->src.tr_class * 1000 + q->src.filter * 10 + q->src.repeat);
    h = vf_mix (h, (q->dst.n_clip > 0) + 2 * q->cover + 4 * (q->has_mask && q->mask.ca) + 8 * q->src.accessors + 16 * q->dst.accessors + 32 * (q->src.alpha_map | q->dst.alpha_map));
    return h;
}
