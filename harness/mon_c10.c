/* Monitor for C10: per-format codec (decode/encode against the reference codec), round trips,
 * store footprint, scanline vs single-pixel readers, accessor images on a fake base address. */
#include "vf.h"
#include "vf_req.h"
#include "ref_pixel.h"
#include <math.h>
#include <sys/mman.h>

#define CHUNK 4096
enum { K_DECODE8, K_DECODEF, K_ENCODE8, K_ROUNDTRIP, K_FOOTPRINT, K_YUV, K_LATEWRAP, K_COPY, NKINDS };
static const char *kname[] = { "decode-to-a8r8g8b8", "decode-to-float", "encode-from-a8r8g8b8", "round-trip", "store-footprint", "yuv", "accessors-installed-after-first-use", "copies-of-runs" };

static pixman_format_code_t fmts[64]; static int nfmts;

/* ---------- translating accessors: the image's bits pointer is a fake, unmapped address ---------- */
static uint8_t *fake_base; static size_t fake_len = 1 << 24;
static uint8_t *real_base; static size_t real_len;
static long acc_reads, acc_writes, acc_oob;
static uint32_t tr_read (const void *src, int size)
{
    size_t off = (size_t)((const uint8_t *)src - fake_base);
    acc_reads++;
    if (off + size > real_len) { acc_oob++; return 0; }
    const uint8_t *p = real_base + off;
    switch (size) { case 1: return *p; case 2: { uint16_t v; memcpy (&v, p, 2); return v; } default: { uint32_t v; memcpy (&v, p, 4); return v; } }
}
static void tr_write (void *dst, uint32_t value, int size)
{
    size_t off = (size_t)((uint8_t *)dst - fake_base);
    acc_writes++;
    if (off + size > real_len) { acc_oob++; return; }
    uint8_t *p = real_base + off;
    switch (size) { case 1: *p = (uint8_t)value; break; case 2: { uint16_t v = (uint16_t)value; memcpy (p, &v, 2); break; } default: memcpy (p, &value, 4); break; }
}
/* image over buffer b whose every access must go through the callbacks */
static pixman_image_t *accessor_image (vf_buf *b)
{
    real_base = b->base; real_len = b->bytes;
    uint32_t *fake_bits = (uint32_t *)(fake_base + ((uint8_t *)b->bits - b->base));
    pixman_image_t *img = pixman_image_create_bits_no_clear (b->fmt, b->w, b->h, fake_bits, b->stride);
    if (img) pixman_image_set_accessors (img, tr_read, tr_write);
    return img;
}

static void init (void)
{
    for (int i = 0; i < rp_nformats; i++) {
        pixman_format_code_t c = rp_formats[i].code;
        if (pixman_format_supported_source (c) || rp_is_float (c)) fmts[nfmts++] = c;
    }
    fake_base = mmap (NULL, fake_len, PROT_NONE, MAP_PRIVATE | MAP_ANONYMOUS | MAP_NORESERVE, -1, 0);
    if (fake_base == MAP_FAILED) vf_fatal ("cannot reserve the fake accessor range");
}

static uint32_t value_for (pixman_format_code_t f, long chunk, int i, vf_rng *r)
{
    int bpp = PIXMAN_FORMAT_BPP (f);
    if (bpp <= 16) return (uint32_t)((chunk * CHUNK + i) & ((1u << bpp) - 1));
    /* 24/32 bpp: every value of each byte lane with the others random, plus random words */
    uint32_t v = vf_u32 (r);
    int lane = (i / 256) % 5;
    if (lane < 4) v = (v & ~(0xffu << (8 * lane))) | ((uint32_t)(i & 0xff) << (8 * lane));
    if (chunk % 4 == 1 && (i & 1)) v = (i & 2) ? 0xffffffffu : 0;
    return bpp == 24 ? v & 0xffffff : v;
}

static int is_yuv (pixman_format_code_t f) { int t = PIXMAN_FORMAT_TYPE (f); return t == PIXMAN_TYPE_YUY2 || t == PIXMAN_TYPE_YV12; }

static uint32_t expect_decode8 (pixman_format_code_t f, uint32_t raw, const pixman_indexed_t *pal)
{
    if (rp_is_indexed (f)) return pal->rgba[raw & 0xff];
    uint8_t p[4]; rp_decode8 (f, raw, p);
    return (uint32_t)p[0] << 24 | (uint32_t)p[1] << 16 | (uint32_t)p[2] << 8 | p[3];
}
static uint32_t expect_encode8 (pixman_format_code_t f, uint32_t argb, const pixman_indexed_t *pal)
{
    if (rp_is_indexed (f)) {
        unsigned key = PIXMAN_FORMAT_TYPE (f) == PIXMAN_TYPE_GRAY ? (((argb >> 16 & 0xff) * 153 + (argb >> 8 & 0xff) * 301 + (argb & 0xff) * 58) >> 2)
                                                                  : (((argb >> 9) & 0x7c00) | ((argb >> 6) & 0x03e0) | ((argb >> 3) & 0x001f));
        uint32_t e = pal->ent[key];
        int bpp = PIXMAN_FORMAT_BPP (f); if (bpp == 1) e &= 1; if (bpp == 4) e &= 0xf;
        return e;
    }
    uint8_t p[4] = { (uint8_t)(argb >> 24), (uint8_t)(argb >> 16), (uint8_t)(argb >> 8), (uint8_t)argb };
    return rp_encode8 (f, p);
}

static void src_to (pixman_image_t *s, pixman_image_t *d, int sx, int n) { pixman_image_composite32 (PIXMAN_OP_SRC, s, NULL, d, sx, 0, 0, 0, 0, 0, n, 1); }

/* accessors that are not the identity on the storage (every byte kept XOR 0x5a), for images that are wrapped only after they were used */
static long xor_reads, xor_writes;
static uint32_t xor_read (const void *src, int size)
{ xor_reads++; switch (size) { case 1: return *(const uint8_t *)src ^ 0x5au; case 2: { uint16_t v; memcpy (&v, src, 2); return v ^ 0x5a5au; } default: { uint32_t v; memcpy (&v, src, 4); return v ^ 0x5a5a5a5au; } } }
static void xor_write (void *dst, uint32_t value, int size)
{ xor_writes++; switch (size) { case 1: *(uint8_t *)dst = (uint8_t)(value ^ 0x5a); break; case 2: { uint16_t v = (uint16_t)(value ^ 0x5a5a); memcpy (dst, &v, 2); break; } default: value ^= 0x5a5a5a5au; memcpy (dst, &value, 4); break; } }

static void latewrap_case (pixman_format_code_t f, long chunk, vf_rng *r, pixman_indexed_t *pal)
{
    int bpp = PIXMAN_FORMAT_BPP (f), w = 24; char key[160];
    vf_buf S, D0, D1, D2, D3;
    if (!vf_buf_alloc (&S, f, w, 1, 0, 0, VF_PLACE_END)) return;
    vf_buf_alloc (&D0, PIXMAN_a8r8g8b8, w, 1, 0, 0, VF_PLACE_END); vf_buf_alloc (&D1, PIXMAN_a8r8g8b8, w, 1, 0, 0, VF_PLACE_END); vf_buf_alloc (&D2, PIXMAN_a8r8g8b8, w, 1, 0, 0, VF_PLACE_END); vf_buf_alloc (&D3, PIXMAN_a8r8g8b8, w, 1, 0, 0, VF_PLACE_END);
    for (int i = 0; i < w; i++) vf_put_px (vf_buf_row (&S, 0), bpp, i, value_for (f, chunk, i, r));
    pixman_image_t *a = vf_buf_image (&S), *d0 = vf_buf_image (&D0), *d1 = vf_buf_image (&D1), *d2 = vf_buf_image (&D2), *d3 = vf_buf_image (&D3);
    if (pal) pixman_image_set_indexed (a, pal);
    int reader_only = (int)(chunk & 1);
    /* as a source: direct, then wrapped (reader only, or both callbacks), then unwrapped again */
    src_to (a, d0, 0, w);
    pixman_image_set_accessors (a, xor_read, reader_only ? NULL : xor_write);
    xor_reads = 0; src_to (a, d1, 0, w); long reads_late = xor_reads;
    pixman_image_t *b = vf_buf_image (&S); if (pal) pixman_image_set_indexed (b, pal);
    pixman_image_set_accessors (b, xor_read, reader_only ? NULL : xor_write); src_to (b, d2, 0, w);
    pixman_image_set_accessors (a, NULL, NULL); src_to (a, d3, 0, w);
    vf_count ("evaluations", 3 * w); vf_count ("late_wrap_cases", 1);
    for (int x = 0; x < w; x++) {
        uint32_t v1 = ((uint32_t *)D1.base)[x], v2 = ((uint32_t *)D2.base)[x], v0 = ((uint32_t *)D0.base)[x], v3 = ((uint32_t *)D3.base)[x];
        if (v1 != v2) { snprintf (key, sizeof key, "C10:accessors-installed-after-first-use-ignored:%s", rp_name (f)); vf_violation (key, "pixel %d reads %08x through an image that was used directly and then given %s, %08x through a fresh image with the same callbacks (%ld callback reads)", x, v1, reader_only ? "a read callback only" : "both callbacks", v2, reads_late); break; }
        if (v3 != v0) { snprintf (key, sizeof key, "C10:accessors-removed-but-still-used:%s", rp_name (f)); vf_violation (key, "pixel %d reads %08x after the callbacks were removed again, %08x before they were installed", x, v3, v0); break; }
    }
    if (reads_late == 0) { snprintf (key, sizeof key, "C10:accessors-installed-after-first-use-not-called:%s", rp_name (f)); vf_violation (key, "the read callback installed after the first use was never called while %d pixels were fetched", w); }
    /* as a destination (formats that can be written): direct store, then wrapped, compared with a fresh wrapped image */
    if (pixman_format_supported_destination (f) && !rp_is_indexed (f)) {
        vf_buf T1, T2, C; if (vf_buf_alloc (&T1, f, w, 1, 0, 0, VF_PLACE_END) && vf_buf_alloc (&T2, f, w, 1, 0, 0, VF_PLACE_END) && vf_buf_alloc (&C, PIXMAN_a8r8g8b8, w, 1, 0, 0, VF_PLACE_END)) {
            vf_buf_fill_random (&C, r); memset (T1.base, 0, T1.bytes); memset (T2.base, 0, T2.bytes);
            pixman_image_t *c = vf_buf_image (&C), *t1 = vf_buf_image (&T1), *t2 = vf_buf_image (&T2);
            src_to (c, t1, 0, w);                                             /* first use: direct */
            pixman_image_set_accessors (t1, xor_read, xor_write); pixman_image_set_accessors (t2, xor_read, xor_write);
            xor_writes = 0; src_to (c, t1, 0, w); long w1 = xor_writes; src_to (c, t2, 0, w);
            vf_count ("evaluations", w);
            if (memcmp (T1.base, T2.base, T1.bytes)) { snprintf (key, sizeof key, "C10:accessors-installed-after-first-use-ignored:store:%s", rp_name (f)); vf_violation (key, "storing through an image wrapped after its first use leaves different bytes than through a fresh wrapped image (%ld callback writes)", w1); }
            pixman_image_unref (c); pixman_image_unref (t1); pixman_image_unref (t2);
        }
        vf_buf_free (&T1); vf_buf_free (&T2); vf_buf_free (&C);
    }
    vf_cell ("cells", vf_mix (950 + reader_only, (uint64_t)f));
    pixman_image_unref (a); pixman_image_unref (b); pixman_image_unref (d0); pixman_image_unref (d1); pixman_image_unref (d2); pixman_image_unref (d3);
    vf_buf_free (&S); vf_buf_free (&D0); vf_buf_free (&D1); vf_buf_free (&D2); vf_buf_free (&D3);
}

/* YUV sources through the floating-point pipeline: the float reader must give narrow/255 */
static void yuv_wide_case (pixman_format_code_t f, vf_rng *r)
{
    int w = 32, h = 4, stride = f == PIXMAN_yv12 ? w : w * 2;        /* bytes */
    size_t bytes = (size_t)stride * h * 2 + 64; uint8_t *buf = malloc (bytes); if (!buf) return;
    for (size_t i = 0; i < bytes; i++) buf[i] = (uint8_t)vf_next (r);
    pixman_image_t *s = pixman_image_create_bits (f, w, h, (uint32_t *)buf, stride); if (!s) { free (buf); return; }
    pixman_image_t *n = pixman_image_create_bits (PIXMAN_a8r8g8b8, w, h, NULL, 0), *fl = pixman_image_create_bits (PIXMAN_rgba_float, w, h, NULL, 0);
    if (n && fl) {
        pixman_image_composite32 (PIXMAN_OP_SRC, s, NULL, n, 0, 0, 0, 0, 0, 0, w, h); pixman_image_composite32 (PIXMAN_OP_SRC, s, NULL, fl, 0, 0, 0, 0, 0, 0, w, h);
        const uint32_t *np = pixman_image_get_data (n); const float *fp = (const float *)pixman_image_get_data (fl); int ns = pixman_image_get_stride (n) / 4, fs = pixman_image_get_stride (fl) / 4;
        vf_count ("evaluations", (long)w * h); vf_count ("yuv_wide_pixels", (long)w * h);
        for (int y = 0; y < h; y++) for (int x = 0; x < w; x++) { uint32_t p = np[y * ns + x]; const float *q = fp + y * fs + 4 * x;       /* rgba_float: r, g, b, a */
            double want[4] = { ((p >> 16) & 255) / 255.0, ((p >> 8) & 255) / 255.0, (p & 255) / 255.0, (p >> 24) / 255.0 };
            for (int c = 0; c < 4; c++) if (!(q[c] >= want[c] - 1e-5 && q[c] <= want[c] + 1e-5)) { char key[96]; snprintf (key, sizeof key, "C10:decodef-yuv:%s", rp_name (f));
                vf_violation (key, "pixel (%d,%d) channel %d (r,g,b,a): float reader gives %.6f, the 8-bit reader %08x i.e. %.6f", x, y, c, q[c], p, want[c]); y = h; x = w; break; } }
    }
    /* the same image read through accessors (bits pointer = unmapped fake address, callbacks translate and bounds-check): scanline and single-pixel readers */
    if (n) { real_base = buf; real_len = bytes; acc_oob = 0; long r0 = acc_reads;
        pixman_image_t *ai = pixman_image_create_bits_no_clear (f, w, h, (uint32_t *)fake_base, stride), *a2 = pixman_image_create_bits (PIXMAN_a8r8g8b8, w, h, NULL, 0);
        if (ai && a2) { pixman_image_set_accessors (ai, tr_read, tr_write);
            const uint32_t *np = pixman_image_get_data (n), *ap = pixman_image_get_data (a2); int ns = pixman_image_get_stride (n) / 4;
            for (int pass = 0; pass < 2; pass++) {
                pixman_transform_t t2 = { { { 2 * 65536, 0, 0 }, { 0, 2 * 65536, 0 }, { 0, 0, 2 * 65536 } } }; pixman_image_set_transform (ai, pass ? &t2 : NULL);
                vf_inflight ("%s through accessors, %s reader", rp_name (f), pass ? "single-pixel" : "scanline");
                pixman_image_composite32 (PIXMAN_OP_SRC, ai, NULL, a2, 0, 0, 0, 0, 0, 0, w, h); vf_count ("evaluations", (long)w * h);
                for (int y = 0; y < h; y++) for (int x = 0; x < w; x++) if (ap[y * ns + x] != np[y * ns + x]) { char key[96]; snprintf (key, sizeof key, "C10:accessor-vs-direct:read:%s", rp_name (f));
                    vf_violation (key, "pixel (%d,%d): accessor image reads %08x (%s reader), the directly addressed image %08x", x, y, ap[y * ns + x], pass ? "single-pixel" : "scanline", np[y * ns + x]); y = h; pass = 2; break; } }
            if (acc_reads == r0) { char key[96]; snprintf (key, sizeof key, "C10:accessor-bypassed:read:%s", rp_name (f)); vf_violation (key, "the read callback was never called"); }
            if (acc_oob) { char key[96]; snprintf (key, sizeof key, "C10:accessor-out-of-bounds:%s", rp_name (f)); vf_violation (key, "%ld accessor calls outside the image storage", acc_oob); } }
        if (ai) pixman_image_unref (ai); if (a2) pixman_image_unref (a2); }
    /* a scanline read that starts at any column (odd ones too: chroma is shared by pixel pairs) equals the single-pixel reader */
    { pixman_image_t *a = pixman_image_create_bits (PIXMAN_a8r8g8b8, w, h, NULL, 0), *b = pixman_image_create_bits (PIXMAN_a8r8g8b8, w, h, NULL, 0);
      if (a && b) { const uint32_t *ap = pixman_image_get_data (a), *bp = pixman_image_get_data (b); int st = pixman_image_get_stride (a) / 4;
        for (int k = 0; k < 9; k++) { int ww = w - k;
            pixman_image_set_transform (s, NULL); pixman_image_composite32 (PIXMAN_OP_SRC, s, NULL, a, k, 0, 0, 0, 0, 0, ww, h);
            pixman_transform_t t2 = { { { 2 * 65536, 0, 0 }, { 0, 2 * 65536, 0 }, { 0, 0, 2 * 65536 } } }; pixman_image_set_transform (s, &t2); pixman_image_composite32 (PIXMAN_OP_SRC, s, NULL, b, k, 0, 0, 0, 0, 0, ww, h);
            pixman_image_set_transform (s, NULL); vf_count ("evaluations", (long)ww * h);
            for (int y = 0; y < h; y++) for (int x = 0; x < ww; x++) if (ap[y * st + x] != bp[y * st + x]) { char key[96]; snprintf (key, sizeof key, "C10:scanline-vs-pixel:%s", rp_name (f));
                vf_violation (key, "read starting at column %d: pixel (%d,%d) is %08x by scanline, %08x by the single-pixel reader", k, x + k, y, ap[y * st + x], bp[y * st + x]); y = h; k = 9; break; } } }
      if (a) pixman_image_unref (a); if (b) pixman_image_unref (b); }
    vf_cell ("cells", vf_mix (901, (uint64_t)f));
    if (n) pixman_image_unref (n); if (fl) pixman_image_unref (fl); pixman_image_unref (s); free (buf);
}

static void c10_case (long idx, vf_rng *r)
{
    pixman_format_code_t f = fmts[idx % nfmts];
    int kind = (int)((idx / nfmts) % NKINDS);
    long chunk = idx / ((long)nfmts * NKINDS);
    int bpp = PIXMAN_FORMAT_BPP (f);
    if (is_yuv (f) != (kind == K_YUV)) return;
    if (bpp <= 8 && chunk > 0 && kind != K_FOOTPRINT) return;                 /* already exhaustive in chunk 0 */
    if (bpp <= 16 && chunk >= 16 && kind != K_FOOTPRINT) return;
    int off = (int)(idx % 10), n = bpp <= 8 ? (1 << bpp) : CHUNK, W = n + 12;
    if (n < 16) n = 16, W = n + 12;
    char key[160];
    pixman_indexed_t *pal = rp_is_indexed (f) ? rq_make_palette (f, 1234 + (uint64_t)(idx % nfmts)) : NULL;
    vf_case_desc ("%s format=%s chunk=%ld x-offset=%d", kname[kind], rp_name (f), chunk, off);
    vf_inflight ("%s format=%s chunk=%ld", kname[kind], rp_name (f), chunk);
    vf_label ("format_kind", "%s/%s", rp_name (f), kname[kind]);

    if (kind == K_LATEWRAP) { if (bpp <= 32 && !rp_is_float (f)) latewrap_case (f, chunk, r, pal); free (pal); return; }
    if (kind == K_YUV) {
        if (chunk < 4) yuv_wide_case (f, r);
        /* yuy2: scanline reader vs single-pixel reader (forced by a non-affine identity transform) */
        if (f != PIXMAN_yuy2) return;
        vf_buf s, d1, d2; int w = 64;
        if (!vf_buf_alloc (&s, f, w, 1, 0, 0, vf_default_place (r)) || !vf_buf_alloc (&d1, PIXMAN_a8r8g8b8, w, 1, 0, 0, VF_PLACE_END) || !vf_buf_alloc (&d2, PIXMAN_a8r8g8b8, w, 1, 0, 0, VF_PLACE_END)) return;
        vf_buf_fill_random (&s, r);
        pixman_image_t *si = vf_buf_image (&s), *a = vf_buf_image (&d1), *b = vf_buf_image (&d2);
        src_to (si, a, 0, w);
        pixman_transform_t t = { { { 2 * 65536, 0, 0 }, { 0, 2 * 65536, 0 }, { 0, 0, 2 * 65536 } } };
        pixman_image_set_transform (si, &t); src_to (si, b, 0, w);
        vf_count ("evaluations", w);
        for (int x = 0; x < w; x++) if (((uint32_t *)d1.base)[x] != ((uint32_t *)d2.base)[x]) { vf_violation ("C10:scanline-vs-pixel:yuy2", "pixel %d: scanline reader %08x, single-pixel reader %08x", x, ((uint32_t *)d1.base)[x], ((uint32_t *)d2.base)[x]); break; }
        vf_cell ("cells", vf_mix (900, (uint64_t)f));
        pixman_image_unref (si); pixman_image_unref (a); pixman_image_unref (b); vf_buf_free (&s); vf_buf_free (&d1); vf_buf_free (&d2);
        return;
    }

    vf_buf S; if (!vf_buf_alloc (&S, f, W, 1, 0, 0, vf_default_place (r))) { free (pal); return; }
    vf_buf_fill_random (&S, r);
    uint32_t *vals = malloc (sizeof (uint32_t) * n);
    if (!rp_is_float (f)) for (int i = 0; i < n; i++) { vals[i] = value_for (f, chunk, i, r); vf_put_px (vf_buf_row (&S, 0), bpp, off + i, vals[i]); }
    else { int nc = bpp / 32; float *row = (float *)vf_buf_row (&S, 0);
        for (int i = 0; i < n; i++) for (int c = 0; c < nc; c++) { double v = (i % 7 == 0) ? (double)((i / 7) % 256) / 255.0 : vf_unit (r); if (i % 11 == 0) v = (i / 11) & 1; row[(off + i) * nc + c] = (float)v; } }
    pixman_image_t *simg = vf_buf_image (&S); if (pal) pixman_image_set_indexed (simg, pal);
    uint32_t dmask = rp_is_float (f) ? 0 : rp_is_indexed (f) ? (bpp >= 8 ? 0xff : bpp == 1 ? 1 : 0xf) : rp_defined_mask (f);

    if (kind == K_DECODE8 && !rp_is_float (f)) {
        vf_buf D, D2, D3; vf_buf_alloc (&D, PIXMAN_a8r8g8b8, n, 1, 0, 0, VF_PLACE_END); vf_buf_alloc (&D2, PIXMAN_a8r8g8b8, n, 1, 0, 0, VF_PLACE_END); vf_buf_alloc (&D3, PIXMAN_a8r8g8b8, n, 1, 0, 0, VF_PLACE_END);
        pixman_image_t *d = vf_buf_image (&D), *d2 = vf_buf_image (&D2), *d3 = vf_buf_image (&D3);
        src_to (simg, d, off, n);
        /* single-pixel reader */
        pixman_transform_t t = { { { 2 * 65536, 0, 0 }, { 0, 2 * 65536, 0 }, { 0, 0, 2 * 65536 } } };
        pixman_image_set_transform (simg, &t); src_to (simg, d2, off, n); pixman_image_set_transform (simg, NULL);
        /* accessor image over the same storage */
        pixman_image_t *ai = accessor_image (&S); if (pal) pixman_image_set_indexed (ai, pal);
        long r0 = acc_reads; acc_oob = 0;
        vf_inflight ("%s format=%s via accessors (a direct dereference of the fake base faults)", kname[kind], rp_name (f));
        src_to (ai, d3, off, n);
        uint32_t *g = (uint32_t *)D.base, *g2 = (uint32_t *)D2.base, *g3 = (uint32_t *)D3.base;
        int wide = rp_is_wide (f); long ne = 0; uint32_t prev[4] = { 0, 0, 0, 0 };
        for (int i = 0; i < n; i++) {
            ne += 3;
            if (!wide) {
                uint32_t want = expect_decode8 (f, vals[i] & (rp_is_indexed (f) ? dmask : 0xffffffffu), pal);
                if (g[i] != want) { snprintf (key, sizeof key, "C10:decode8:%s", rp_name (f)); vf_violation (key, "raw %x at x=%d reads as %08x, reference widening gives %08x", vals[i], off + i, g[i], want); break; }
            } else {
                /* wide -> 8 bit goes through the float pipeline: 0 -> 0, max -> max, most significant bits kept (sRGB: monotone) */
                int sh[4], bits[4]; rp_layout (f, sh, bits);
                for (int c = 0; c < 4; c++) {
                    uint32_t got = (g[i] >> (24 - 8 * c)) & 0xff;
                    if (!bits[c]) { if (got != (c == 0 ? 255u : 0u)) { snprintf (key, sizeof key, "C10:decode8-absent-channel:%s", rp_name (f)); vf_violation (key, "absent channel %d reads as %u", c, got); i = n; break; } continue; }
                    uint32_t v = (vals[i] >> sh[c]) & ((1u << bits[c]) - 1), mx = (1u << bits[c]) - 1;
                    if (rp_is_srgb (f) && c > 0) { if ((v == 0 && got != 0) || (v == mx && got != 255)) { snprintf (key, sizeof key, "C10:decode8-srgb-endpoints:%s", rp_name (f)); vf_violation (key, "channel %d value %u reads as %u", c, v, got); i = n; break; } continue; }
                    uint32_t want = bits[c] >= 8 ? v >> (bits[c] - 8) : (v * 255 + mx / 2) / mx;
                    if (bits[c] < 8) { if (!((v == 0 && got == 0) || (v == mx && got == 255) || (v && v < mx && got > 0 && got < 255))) { snprintf (key, sizeof key, "C10:decode8-wide:%s", rp_name (f)); vf_violation (key, "%d-bit channel %d value %u reads as %u", bits[c], c, v, got); i = n; break; } }
                    else if (got != want) { snprintf (key, sizeof key, "C10:decode8-wide:%s", rp_name (f)); vf_violation (key, "channel %d value %u of %u reads as %u, most significant 8 bits are %u", c, v, mx, got, want); i = n; break; }
                }
                (void)prev;
            }
            if (i < n && g2[i] != g[i]) { snprintf (key, sizeof key, "C10:scanline-vs-pixel:%s", rp_name (f)); vf_violation (key, "raw %x at x=%d: scanline reader %08x, single-pixel reader %08x", vals[i], off + i, g[i], g2[i]); break; }
            if (i < n && g3[i] != g[i]) { snprintf (key, sizeof key, "C10:accessor-vs-direct:read:%s", rp_name (f)); vf_violation (key, "raw %x at x=%d: direct image %08x, accessor image %08x", vals[i], off + i, g[i], g3[i]); break; }
        }
        if (acc_reads == r0) { snprintf (key, sizeof key, "C10:accessor-bypassed:read:%s", rp_name (f)); vf_violation (key, "the read callback was never called"); }
        if (acc_oob) { snprintf (key, sizeof key, "C10:accessor-out-of-bounds:%s", rp_name (f)); vf_violation (key, "%ld accessor calls outside the image storage", acc_oob); }
        vf_count ("evaluations", ne); vf_count ("accessor_reads", acc_reads - r0);
        vf_cell ("cells", vf_mix (vf_mix (1, (uint64_t)f), vf_mix (chunk, off)));
        pixman_image_unref (ai); pixman_image_unref (d); pixman_image_unref (d2); pixman_image_unref (d3); vf_buf_free (&D); vf_buf_free (&D2); vf_buf_free (&D3);
    }
    else if (kind == K_DECODEF) {
        vf_buf D; vf_buf_alloc (&D, PIXMAN_rgba_float, n, 1, 0, 0, VF_PLACE_END); pixman_image_t *d = vf_buf_image (&D);
        src_to (simg, d, off, n);
        float *g = (float *)D.base; long ne = 0;
        for (int i = 0; i < n; i++) {
            double want[4]; rp_decodef_row (f, vf_buf_row (&S, 0), off + i, want);
            if (rp_is_indexed (f)) { uint32_t c = pal->rgba[vals[i] & dmask]; want[0] = (c >> 24) / 255.0; want[1] = (c >> 16 & 255) / 255.0; want[2] = (c >> 8 & 255) / 255.0; want[3] = (c & 255) / 255.0; }
            double got[4] = { g[4 * i + 3], g[4 * i], g[4 * i + 1], g[4 * i + 2] }; ne += 4;
            for (int c = 0; c < 4; c++) {
                double tol = rp_is_srgb (f) && c > 0 ? 2e-3 : 2e-6;
                if (fabs (got[c] - want[c]) > tol) { snprintf (key, sizeof key, "C10:decode-float:%s", rp_name (f)); vf_violation (key, "x=%d channel %d reads as %.7f, the field denotes %.7f", off + i, c, got[c], want[c]); i = n; break; }
            }
        }
        /* the same through the single-pixel float reader (forced by a non-affine identity transform): readers agree */
        { vf_buf D2; vf_buf_alloc (&D2, PIXMAN_rgba_float, n, 1, 0, 0, VF_PLACE_END); pixman_image_t *d2 = vf_buf_image (&D2);
          pixman_transform_t t2 = { { { 2 * 65536, 0, 0 }, { 0, 2 * 65536, 0 }, { 0, 0, 2 * 65536 } } };
          pixman_image_set_transform (simg, &t2); src_to (simg, d2, off, n); pixman_image_set_transform (simg, NULL);
          float *g2 = (float *)D2.base;
          for (int i = 0; i < n; i++) { int bad = 0;
              for (int c = 0; c < 4; c++) { double tol = rp_is_srgb (f) && c < 3 ? 2e-3 : 2e-6; if (fabs ((double)g2[4 * i + c] - (double)g[4 * i + c]) > tol) { snprintf (key, sizeof key, "C10:float-scanline-vs-pixel-reader:%s", rp_name (f));
                  vf_violation (key, "x=%d channel %d (r,g,b,a): single-pixel reader %.7f, scanline reader %.7f", off + i, c, g2[4 * i + c], g[4 * i + c]); bad = 1; break; } }
              ne += 4; if (bad) break; }
          pixman_image_unref (d2); vf_buf_free (&D2); }
        /* a 1x1 repeating image holding the value (the library treats it like a solid colour): same widening */
        if (!rp_is_float (f) && bpp <= 32) for (int i = 0; i < n && i < 24; i++) {
            vf_buf O, F1; if (!vf_buf_alloc (&O, f, 1, 1, 0, 0, VF_PLACE_END)) break; if (!vf_buf_alloc (&F1, PIXMAN_rgba_float, 3, 1, 0, 0, VF_PLACE_END)) { vf_buf_free (&O); break; }
            vf_put_px (vf_buf_row (&O, 0), bpp, 0, vals[i]); pixman_image_t *oi = vf_buf_image (&O), *fi = vf_buf_image (&F1); if (pal) pixman_image_set_indexed (oi, pal);
            pixman_image_set_repeat (oi, PIXMAN_REPEAT_NORMAL); src_to (oi, fi, 0, 3);
            const float *q = (const float *)F1.base + 4; ne += 4;       /* the middle pixel */
            for (int c = 0; c < 4; c++) { double tol = rp_is_srgb (f) && c < 3 ? 2e-3 : 2e-6; if (fabs ((double)q[c] - (double)g[4 * i + c]) > tol) { snprintf (key, sizeof key, "C10:float-1x1-repeat-vs-scanline:%s", rp_name (f));
                vf_violation (key, "value %x channel %d (r,g,b,a): %.7f read from a 1x1 repeating image, %.7f from a row", vals[i], c, q[c], g[4 * i + c]); i = n; break; } }
            pixman_image_unref (oi); pixman_image_unref (fi); vf_buf_free (&O); vf_buf_free (&F1);
        }
        vf_count ("evaluations", ne); vf_cell ("cells", vf_mix (vf_mix (2, (uint64_t)f), vf_mix (chunk, off)));
        pixman_image_unref (d); vf_buf_free (&D);
    }
    else if (kind == K_ENCODE8 && !rp_is_float (f) && pixman_format_supported_destination (f)) {
        /* a8r8g8b8 values -> F, directly and through the write callback */
        vf_buf A, D, D2; vf_buf_alloc (&A, PIXMAN_a8r8g8b8, n, 1, 0, 0, VF_PLACE_END); vf_buf_alloc (&D, f, W, 1, 0, 0, vf_default_place (r)); vf_buf_alloc (&D2, f, W, 1, 0, 0, vf_default_place (r));
        uint32_t *a = (uint32_t *)A.base;
        for (int i = 0; i < n; i++) a[i] = value_for (PIXMAN_a8r8g8b8, chunk, i, r);
        vf_buf_fill_random (&D, r); memcpy (D2.base, D.base, D.bytes);
        pixman_image_t *ai = vf_buf_image (&A), *d = vf_buf_image (&D); if (pal) pixman_image_set_indexed (d, pal);
        pixman_image_composite32 (PIXMAN_OP_SRC, ai, NULL, d, 0, 0, 0, 0, off, 0, n, 1);
        pixman_image_t *d2 = accessor_image (&D2); if (pal) pixman_image_set_indexed (d2, pal);
        long w0 = acc_writes; acc_oob = 0;
        vf_inflight ("%s format=%s via accessors", kname[kind], rp_name (f));
        pixman_image_composite32 (PIXMAN_OP_SRC, ai, NULL, d2, 0, 0, 0, 0, off, 0, n, 1);
        /* a colour stored by the direct-fill entry point narrows the same way as compositing a solid image of that colour */
        if (!rp_is_indexed (f) && bpp <= 32) for (int k = 0; k < 6; k++) {
            vf_buf E1, E2; if (!vf_buf_alloc (&E1, f, 9, 2, 0, 0, VF_PLACE_END)) break; if (!vf_buf_alloc (&E2, f, 9, 2, 0, 0, VF_PLACE_END)) { vf_buf_free (&E1); break; }
            memset (E1.base, 0, E1.bytes); memset (E2.base, 0, E2.bytes);
            pixman_color_t c; c.alpha = k == 0 ? 0x8000 : k == 1 ? 0x7fff : k == 2 ? 0x0100 : (uint16_t)vf_next (r); c.red = (uint16_t)vf_next (r); c.green = (uint16_t)vf_next (r); c.blue = (uint16_t)vf_next (r);
            pixman_image_t *e1 = vf_buf_image (&E1), *e2 = vf_buf_image (&E2), *so = pixman_image_create_solid_fill (&c); pixman_box32_t bx = { 1, 0, 8, 2 };
            pixman_image_fill_boxes (PIXMAN_OP_SRC, e1, &c, 1, &bx); if (so) pixman_image_composite32 (PIXMAN_OP_SRC, so, NULL, e2, 0, 0, 0, 0, 1, 0, 7, 2);
            uint32_t p1 = vf_get_px (vf_buf_row (&E1, 1), bpp, 4) & dmask, p2 = vf_get_px (vf_buf_row (&E2, 1), bpp, 4) & dmask;
            if (so && p1 != p2) { snprintf (key, sizeof key, "C10:fill-colour-narrowing:%s", rp_name (f)); vf_violation (key, "colour (a=%04x r=%04x g=%04x b=%04x) is stored as %x by fill_boxes, %x by compositing a solid image", c.alpha, c.red, c.green, c.blue, p1, p2); k = 6; }
            if (so) pixman_image_unref (so); pixman_image_unref (e1); pixman_image_unref (e2); vf_buf_free (&E1); vf_buf_free (&E2);
        }
        /* narrowing is monotone and maps the maximum to the maximum: float values ABOVE 1.0 (an operator that does not clamp, MULTIPLY onto opaque white,
         * hands them to the store) narrow to the channel maximum, however large they are */
        if (chunk == 0 && rp_is_direct (f) && bpp <= 32) {
            static const float big[] = { 1.0f, 1.5f, 255.0f, 4194304.0f, 16777216.0f, 2147483648.0f, 1e10f, 3e38f, 4194303.0f, 70000.0f };
            int nb = (int)(sizeof big / sizeof big[0]); vf_buf FS, FD; 
            if (vf_buf_alloc (&FS, PIXMAN_rgba_float, nb, 1, 0, 0, VF_PLACE_END) && vf_buf_alloc (&FD, f, nb + 2, 1, 0, 0, vf_default_place (r))) {
                float *fp = (float *)FS.base; for (int i = 0; i < nb; i++) { fp[4 * i] = big[i]; fp[4 * i + 1] = big[(i + 3) % nb]; fp[4 * i + 2] = big[(i + 5) % nb]; fp[4 * i + 3] = 1.0f; }
                memset (FD.base, 0xff, FD.bytes);
                pixman_image_t *fs = vf_buf_image (&FS), *fd = vf_buf_image (&FD);
                vf_inflight ("over-range floats narrowed to %s", rp_name (f));
                pixman_image_composite32 (PIXMAN_OP_MULTIPLY, fs, NULL, fd, 0, 0, 0, 0, 1, 0, nb, 1);
                for (int i = 0; i < nb; i++) { uint32_t got = vf_get_px (vf_buf_row (&FD, 0), bpp, 1 + i);
                    if ((got & dmask) != dmask) { snprintf (key, sizeof key, "C10:over-range-float-not-narrowed-to-maximum:%s", rp_name (f)); vf_violation (key, "colour (%g,%g,%g) alpha 1 multiplied onto opaque white is stored as %x, not as the channel maxima %x", fp[4 * i], fp[4 * i + 1], fp[4 * i + 2], got & dmask, dmask); break; } }
                vf_count ("evaluations", nb); vf_count ("over_range_floats", nb);
                pixman_image_unref (fs); pixman_image_unref (fd); vf_buf_free (&FS); vf_buf_free (&FD);
            }
        }
        long ne = 0; int wide = rp_is_wide (f);
        for (int i = 0; i < n; i++) {
            uint32_t got = vf_get_px (vf_buf_row (&D, 0), bpp, off + i), got2 = vf_get_px (vf_buf_row (&D2, 0), bpp, off + i); ne += 2;
            if (!wide) {
                uint32_t want = expect_encode8 (f, a[i], pal);
                if ((got ^ want) & dmask) { snprintf (key, sizeof key, "C10:encode8:%s", rp_name (f)); vf_violation (key, "%08x stores as %x, keeping the most significant bits gives %x (defined bits %x)", a[i], got & dmask, want & dmask, dmask); break; }
            } else {
                int sh[4], bits[4]; rp_layout (f, sh, bits);
                for (int c = 0; c < 4; c++) if (bits[c]) {
                    uint32_t v8 = (a[i] >> (24 - 8 * c)) & 0xff, gv = (got >> sh[c]) & ((1u << bits[c]) - 1), mx = (1u << bits[c]) - 1;
                    if (rp_is_srgb (f) && c > 0) { if ((v8 == 0 && gv != 0) || (v8 == 255 && gv != mx)) { snprintf (key, sizeof key, "C10:encode8-srgb-endpoints:%s", rp_name (f)); vf_violation (key, "channel %d value %u stores as %u", c, v8, gv); i = n; break; } continue; }
                    double real = v8 / 255.0 * mx;
                    if ((v8 == 0 && gv != 0) || (v8 == 255 && gv != mx) || fabs ((double)gv - real) > 1.0 + 1e-6) { snprintf (key, sizeof key, "C10:encode8-wide:%s", rp_name (f)); vf_violation (key, "8-bit channel %d value %u stores as %u of %u", c, v8, gv, mx); i = n; break; }
                }
            }
            if (i < n && ((got ^ got2) & dmask)) { snprintf (key, sizeof key, "C10:accessor-vs-direct:write:%s", rp_name (f)); vf_violation (key, "%08x at x=%d: direct image stores %x, accessor image %x", a[i], off + i, got & dmask, got2 & dmask); break; }
        }
        /* everything outside the stored span must be identical too (both buffers started with the same noise) */
        for (size_t bit = 0; bit < (size_t)D.rowbytes * 8; bit++) {
            if (bit >= (size_t)off * bpp && bit < (size_t)(off + n) * bpp) continue;
            const uint8_t *r1 = vf_buf_row (&D, 0), *r2 = vf_buf_row (&D2, 0);
            if (((r1[bit / 8] ^ r2[bit / 8]) >> (bit % 8)) & 1) { snprintf (key, sizeof key, "C10:accessor-vs-direct:write-neighbour:%s", rp_name (f)); vf_violation (key, "storing pixels %d..%d: bit %zu (pixel %zu) outside the span differs between the direct and the accessor image", off, off + n - 1, bit, bit / bpp); break; }
        }
        if (acc_writes == w0) { snprintf (key, sizeof key, "C10:accessor-bypassed:write:%s", rp_name (f)); vf_violation (key, "the write callback was never called"); }
        if (acc_oob) { snprintf (key, sizeof key, "C10:accessor-out-of-bounds:%s", rp_name (f)); vf_violation (key, "%ld accessor calls outside the image storage", acc_oob); }
        vf_count ("evaluations", ne); vf_count ("accessor_writes", acc_writes - w0);
        vf_cell ("cells", vf_mix (vf_mix (3, (uint64_t)f), vf_mix (chunk, off)));
        pixman_image_unref (ai); pixman_image_unref (d); pixman_image_unref (d2); vf_buf_free (&A); vf_buf_free (&D); vf_buf_free (&D2);
    }
    else if (kind == K_ROUNDTRIP && (pixman_format_supported_destination (f) || rp_is_float (f))) {
        /* F -> a8r8g8b8 -> F (narrow) and F -> rgba_float -> F (all): identity on the defined bits */
        for (int via_float = rp_is_wide (f) ? 1 : 0; via_float < 2; via_float++) {
            vf_buf M, D; vf_buf_alloc (&M, via_float ? PIXMAN_rgba_float : PIXMAN_a8r8g8b8, n, 1, 0, 0, VF_PLACE_END); vf_buf_alloc (&D, f, W, 1, 0, 0, vf_default_place (r));
            pixman_image_t *m = vf_buf_image (&M), *d = vf_buf_image (&D); if (pal) pixman_image_set_indexed (d, pal);
            src_to (simg, m, off, n);
            pixman_image_composite32 (PIXMAN_OP_SRC, m, NULL, d, 0, 0, 0, 0, off, 0, n, 1);
            long ne = 0;
            for (int i = 0; i < n; i++) {
                ne++;
                if (rp_is_float (f)) { int nc = bpp / 32; if (memcmp ((float *)vf_buf_row (&S, 0) + (off + i) * nc, (float *)vf_buf_row (&D, 0) + (off + i) * nc, nc * 4)) { snprintf (key, sizeof key, "C10:round-trip:%s:via-float", rp_name (f)); vf_violation (key, "float pixel %d is not preserved", i); break; } continue; }
                uint32_t got = vf_get_px (vf_buf_row (&D, 0), bpp, off + i);
                uint32_t m2 = dmask;
                if (!via_float == 0 && 0) m2 = dmask;
                /* an alpha-less format read into an alpha format and back keeps its colour fields; fully defined fields must match */
                if ((got ^ vals[i]) & m2) { snprintf (key, sizeof key, "C10:round-trip:%s:%s", rp_name (f), via_float ? "via-float" : "via-a8r8g8b8"); vf_violation (key, "raw %x comes back as %x (defined bits %x)", vals[i] & m2, got & m2, m2); break; }
            }
            vf_count ("evaluations", ne); vf_count ("roundtrip_pixels", ne);
            pixman_image_unref (m); pixman_image_unref (d); vf_buf_free (&M); vf_buf_free (&D);
        }
        vf_cell ("cells", vf_mix (vf_mix (4, (uint64_t)f), vf_mix (chunk, off)));
    }
    else if (kind == K_FOOTPRINT && (pixman_format_supported_destination (f) || rp_is_float (f))) {
        /* stores of 1..3 pixels at every offset: all other bits of the row survive */
        long ne = 0;
        for (int t = 0; t < 60; t++) {
            int w = (int)vf_range (r, 4, 40), x = (int)vf_range (r, 0, w - 1), k = (int)vf_range (r, 1, 3); if (x + k > w) k = w - x;
            vf_buf D; vf_buf_alloc (&D, f, w, 2, (int)(vf_next (r) % 2), 0, vf_default_place (r)); vf_buf_fill_random (&D, r); vf_buf_snapshot (&D);
            int via_acc = !rp_is_float (f) && vf_chance (r, 1, 2);   /* float formats are outside pixman_format_supported_*: no accessor claim */
            pixman_image_t *d = via_acc ? accessor_image (&D) : vf_buf_image (&D); if (pal) pixman_image_set_indexed (d, pal);
            pixman_color_t c = { (uint16_t)vf_next (r), (uint16_t)vf_next (r), (uint16_t)vf_next (r), (uint16_t)vf_next (r) }; pixman_image_t *sol = pixman_image_create_solid_fill (&c);
            static const pixman_op_t ops[] = { PIXMAN_OP_SRC, PIXMAN_OP_OVER, PIXMAN_OP_ADD, PIXMAN_OP_XOR };
            int yy = (int)(vf_next (r) % 2);
            vf_inflight ("store-footprint %s w=%d store at x=%d k=%d", rp_name (f), w, x, k);
            pixman_image_composite32 (VF_PICK (r, ops), sol, NULL, d, 0, 0, 0, 0, x, yy, k, 1);
            for (int y = 0; y < 2; y++) {
                const uint8_t *row = vf_buf_row (&D, y), *old = vf_buf_snaprow (&D, y);
                size_t lo = (size_t)x * bpp, hi = (size_t)(x + k) * bpp;
                for (size_t bit = 0; bit < (size_t)D.rowbytes * 8; bit++) {
                    if (y == yy && bit >= lo && bit < hi) continue;
                    ne++;
                    if (((row[bit / 8] ^ old[bit / 8]) >> (bit % 8)) & 1) { snprintf (key, sizeof key, "C10:store-touches-neighbour:%s%s", rp_name (f), via_acc ? ":accessors" : ""); vf_violation (key, "storing %d pixel(s) at x=%d of a %d-pixel row changed bit %zu of row %d (pixel %zu)%s", k, x, w, bit, y, bit / bpp, via_acc ? " (accessor image)" : ""); t = 60; y = 2; break; }
                }
            }
            pixman_image_unref (d); pixman_image_unref (sol); vf_buf_free (&D);
        }
        vf_count ("evaluations", ne); vf_count ("footprint_bits", ne);
        vf_cell ("cells", vf_mix (vf_mix (5, (uint64_t)f), chunk));
    }
    else if (kind == K_COPY && !rp_is_float (f) && bpp <= 32) {
        /* rows made of RUNS: neighbouring pixels that agree in all fields but one (or agree completely), copied F -> F (indexed: into an image with
         * another palette), F -> a8r8g8b8 -> F, F -> float -> F and F -> G for three other narrow formats G.  What a store writes at x must not depend on x-1. */
        int direct = rp_is_direct (f); int sh[4], bits[4]; if (direct) rp_layout (f, sh, bits);
        uint32_t base = 0; int ch = 0;
        for (int i = 0; i < n; i++) {
            if (direct) {
                if (i % 6 == 0) { base = vf_u32 (r); if (vf_chance (r, 1, 3)) base = vf_chance (r, 1, 2) ? 0 : 0xffffffffu; do ch = (int)(vf_next (r) % 4); while (!bits[ch]); }
                uint32_t fm = (bits[ch] >= 32 ? 0xffffffffu : ((1u << bits[ch]) - 1)) << sh[ch];
                vals[i] = ((base & ~fm) | (vals[i] & fm)) & (bpp == 32 ? 0xffffffffu : (1u << bpp) - 1);
                if (i % 6 == 5) vals[i] = vals[i - 1];      /* and a plain repetition */
            } else vals[i] = vals[i - i % 3];
            vf_put_px (vf_buf_row (&S, 0), bpp, off + i, vals[i]);
        }
        long ne = 0;
        if (pixman_format_supported_destination (f)) {
            /* (a) same format */
            pixman_indexed_t *pal2 = pal ? rq_make_palette (f, 99 + (uint64_t)(idx % nfmts) + (uint64_t)chunk) : NULL;
            vf_buf D; vf_buf_alloc (&D, f, W, 1, 0, 0, vf_default_place (r)); vf_buf_fill_random (&D, r);
            pixman_image_t *d = vf_buf_image (&D); if (pal2) pixman_image_set_indexed (d, pal2);
            pixman_image_composite32 (PIXMAN_OP_SRC, simg, NULL, d, off, 0, 0, 0, off, 0, n, 1);
            for (int i = 0; i < n; i++) {
                uint32_t got = vf_get_px (vf_buf_row (&D, 0), bpp, off + i), want = pal ? expect_encode8 (f, expect_decode8 (f, vals[i] & dmask, pal), pal2) : vals[i]; ne++;
                if ((got ^ want) & dmask) { snprintf (key, sizeof key, "C10:same-format-copy:%s", rp_name (f)); vf_violation (key, "raw %x at x=%d (left neighbour %x) is copied as %x, expected %x (defined bits %x)%s", vals[i] & dmask, off + i, i ? vals[i - 1] & dmask : 0, got & dmask, want & dmask, dmask, pal ? " through the two palettes" : ""); break; }
            }
            pixman_image_unref (d); vf_buf_free (&D); free (pal2);
            /* (b) round trips of the runs */
            for (int via_float = rp_is_wide (f) ? 1 : 0; via_float < 2; via_float++) {
                vf_buf M, D2; vf_buf_alloc (&M, via_float ? PIXMAN_rgba_float : PIXMAN_a8r8g8b8, n, 1, 0, 0, VF_PLACE_END); vf_buf_alloc (&D2, f, W, 1, 0, 0, vf_default_place (r));
                pixman_image_t *m = vf_buf_image (&M), *d2 = vf_buf_image (&D2); if (pal) pixman_image_set_indexed (d2, pal);
                src_to (simg, m, off, n);
                pixman_image_composite32 (PIXMAN_OP_SRC, m, NULL, d2, 0, 0, 0, 0, off, 0, n, 1);
                for (int i = 0; i < n; i++) { uint32_t got = vf_get_px (vf_buf_row (&D2, 0), bpp, off + i); ne++;
                    if ((got ^ vals[i]) & dmask) { snprintf (key, sizeof key, "C10:round-trip-of-runs:%s:%s", rp_name (f), via_float ? "via-float" : "via-a8r8g8b8"); vf_violation (key, "raw %x at x=%d (left neighbour %x) comes back as %x (defined bits %x)", vals[i] & dmask, off + i, i ? vals[i - 1] & dmask : 0, got & dmask, dmask); break; } }
                pixman_image_unref (m); pixman_image_unref (d2); vf_buf_free (&M); vf_buf_free (&D2);
            }
        }
        /* (c) into other narrow formats: encode (decode (v)) with the 8-bit codec */
        if (!rp_is_wide (f)) for (int k = 0; k < 3; k++) {
            pixman_format_code_t G = 0; int tries = 0;
            do G = fmts[(idx / nfmts * 5 + idx % nfmts * 3 + k * 11 + chunk * 7 + tries++) % nfmts]; while ((rp_is_wide (G) || rp_is_float (G) || is_yuv (G) || !pixman_format_supported_destination (G) || G == f) && tries < 200);
            if (tries >= 200) break;
            int gb = PIXMAN_FORMAT_BPP (G); pixman_indexed_t *palg = rp_is_indexed (G) ? rq_make_palette (G, 77 + (uint64_t)k + (uint64_t)(idx % nfmts)) : NULL;
            uint32_t gmask = rp_is_indexed (G) ? (gb >= 8 ? 0xff : gb == 1 ? 1 : 0xf) : rp_defined_mask (G);
            vf_buf D; vf_buf_alloc (&D, G, W, 1, 0, 0, vf_default_place (r)); vf_buf_fill_random (&D, r);
            pixman_image_t *d = vf_buf_image (&D); if (palg) pixman_image_set_indexed (d, palg);
            pixman_image_composite32 (PIXMAN_OP_SRC, simg, NULL, d, off, 0, 0, 0, off, 0, n, 1);
            for (int i = 0; i < n; i++) {
                uint32_t got = vf_get_px (vf_buf_row (&D, 0), gb, off + i), want = expect_encode8 (G, expect_decode8 (f, vals[i] & (rp_is_indexed (f) ? dmask : 0xffffffffu), pal), palg); ne++;
                if ((got ^ want) & gmask) { snprintf (key, sizeof key, "C10:cross-format-copy:%s", rp_name (f)); vf_violation (key, "%s raw %x at x=%d is stored into %s as %x, narrowing its 8-bit widening gives %x (defined bits %x)", rp_name (f), vals[i], off + i, rp_name (G), got & gmask, want & gmask, gmask); break; }
            }
            vf_label ("copy_pairs", "%s>%s", rp_name (f), rp_name (G));
            pixman_image_unref (d); vf_buf_free (&D); free (palg);
        }
        vf_count ("evaluations", ne); vf_count ("copied_pixels", ne);
        vf_cell ("cells", vf_mix (vf_mix (8, (uint64_t)f), vf_mix (chunk, off)));
    }
    if (idx < 5) vf_sample ("%s format=%s chunk=%ld (%d pixel values starting at x=%d)", kname[kind], rp_name (f), chunk, n, off);
    pixman_image_unref (simg); vf_buf_free (&S); free (vals); free (pal);
}

int main (int argc, char **argv) { return vf_main (argc, argv, "C10", init, c10_case, NULL); }
