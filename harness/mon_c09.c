/* Monitor for C09 (metamorphic): the same fully opaque content presented as an alpha-less format,
 * as an alpha format with alpha 255, as r5g6b5 / x8r8g8b8 holding the replicated values, as a solid
 * fill or a 1x1 repeating image - in the role of source, mask or destination - must give the same picture. */
#include "config.h"
#include "pixman-private.h"       /* only for the types of the coverage hook H2 (which pipeline served a request) */
#include "vf.h"
#include "vf_req.h"
#include "ref_pixel.h"
#include "ref_ops.h"
#include <math.h>

/* which precision served a request: 0 nothing was composited (operator reduced to a no-op), 1 8-bit routines only, 2 a floating-point iterator took part */
extern void (*pixman_verif_trace_composite) (pixman_implementation_t *imp, pixman_composite_func_t func, const pixman_fast_path_t *key);
extern void (*pixman_verif_trace_iter) (pixman_implementation_t *imp, const pixman_iter_info_t *info, iter_flags_t iter_flags);
static int seen_lookup, seen_wide;
static void trace_fp (pixman_implementation_t *imp, pixman_composite_func_t func, const pixman_fast_path_t *key) { (void)imp; (void)func; (void)key; seen_lookup = 1; }
static void trace_it (pixman_implementation_t *imp, const pixman_iter_info_t *info, iter_flags_t fl) { (void)imp; (void)info; if (fl & ITER_WIDE) seen_wide = 1; }
static int division_op (pixman_op_t op) { const char *n = ro_op_name (op); return op == PIXMAN_OP_SATURATE || !strncmp (n, "DISJOINT_", 9) || !strncmp (n, "CONJOINT_", 9); }
/* does some homogeneous coordinate M.(x+1/2, y+1/2, 1) of the sampled rectangle (one pixel of margin) leave the 32-bit 16.16 range,
 * i.e. can the projective fetcher not even represent the vector it has to divide?  (linear in x,y: the corners decide) */
static int homogeneous_beyond_16_16 (const rq_image *im, int x0, int y0, int w, int h)
{
    for (int c = 0; c < 4; c++) {
        double X = (c & 1 ? x0 + w + 1 : x0 - 1) + 0.5, Y = (c & 2 ? y0 + h + 1 : y0 - 1) + 0.5;
        for (int i = 0; i < 3; i++) { double v = (im->tr.matrix[i][0] * X + im->tr.matrix[i][1] * Y + im->tr.matrix[i][2]) / 65536.0; if (v >= 32767.0 || v <= -32767.0) return 1; }
    }
    return 0;
}
static void no_negative_kernel (rq_image *im)
{
    if (im->filter != PIXMAN_FILTER_CONVOLUTION && im->filter != PIXMAN_FILTER_SEPARABLE_CONVOLUTION) return;
    int first = im->filter == PIXMAN_FILTER_CONVOLUTION ? 2 : 4;
    for (int i = first; i < im->n_params; i++) if (im->params[i] < 0) { im->filter = PIXMAN_FILTER_BILINEAR; im->n_params = 0; return; }
}

enum { P_X888, P_A888_FF, P_565, P_X888_FROM_565, P_SOLID, P_1X1_X888, P_1X1_A888_FF, NPRES };
static const char *pname[] = { "x8r8g8b8", "a8r8g8b8(alpha=255)", "r5g6b5", "x8r8g8b8(replicated 565)", "solid", "1x1-repeat-x8r8g8b8", "1x1-repeat-a8r8g8b8(255)" };

static uint32_t content (uint64_t seed, int x, int y, int constant) { if (constant) x = y = 0; return (uint32_t)(vf_mix (vf_mix (seed, (uint64_t)x * 7919 + 13), (uint64_t)y * 104729 + 5) & 0xffffff); }
static uint32_t to565 (uint32_t c) { return ((c >> 8) & 0xf800) | ((c >> 5) & 0x07e0) | ((c >> 3) & 0x001f); }
static uint32_t from565 (uint32_t p) { uint32_t r = (p >> 11) & 31, g = (p >> 5) & 63, b = p & 31; return ((r << 3 | r >> 2) << 16) | ((g << 2 | g >> 4) << 8) | (b << 3 | b >> 2); }

/* configure image `im` of the request for presentation p (before building) */
static void present (rq_image *im, int p, uint64_t cseed, int constant)
{
    im->alpha_map = 0; im->accessors = 0; im->pixstyle = 0;
    switch (p) {
    case P_X888: case P_X888_FROM_565: im->kind = RQ_BITS; im->fmt = PIXMAN_x8r8g8b8; break;
    case P_A888_FF: im->kind = RQ_BITS; im->fmt = PIXMAN_a8r8g8b8; break;
    case P_565: im->kind = RQ_BITS; im->fmt = PIXMAN_r5g6b5; break;
    case P_SOLID: { uint32_t c = content (cseed, 0, 0, 1); im->kind = RQ_SOLID; im->solid.alpha = 0xffff; im->solid.red = (uint16_t)(((c >> 16) & 0xff) * 0x101); im->solid.green = (uint16_t)(((c >> 8) & 0xff) * 0x101); im->solid.blue = (uint16_t)((c & 0xff) * 0x101); break; }
    case P_1X1_X888: im->kind = RQ_BITS; im->fmt = PIXMAN_x8r8g8b8; im->w = im->h = 1; break;
    default: im->kind = RQ_BITS; im->fmt = PIXMAN_a8r8g8b8; im->w = im->h = 1; break;
    }
    (void)constant;
}
/* write the content into a built image */
static void paint (rq_image *im, int p, uint64_t cseed, int constant, int use565)
{
    if (im->kind != RQ_BITS) return;
    vf_rng nr; vf_rng_seed (&nr, cseed, 77, (uint64_t)p);
    for (int y = 0; y < im->h; y++) for (int x = 0; x < im->w; x++) {
        uint32_t c = content (cseed, x, y, constant || p >= P_1X1_X888);
        if (use565) c = from565 (to565 (c));          /* the group compares 565-representable colours */
        uint32_t raw;
        switch (p) {
        case P_A888_FF: case P_1X1_A888_FF: raw = 0xff000000u | c; break;
        case P_565: raw = to565 (c); break;
        default: raw = (vf_u32 (&nr) & 0xff000000u) | c; break;      /* undefined x bits carry noise */
        }
        vf_put_px (vf_buf_row (&im->buf, y), im->buf.bpp, x, raw);
    }
}

static const char *role_name[] = { "source", "mask", "destination" };

/* Gradients: a gradient used directly, and the same gradient first rendered (OP_SRC) into an a8r8g8b8 image of the request's size which is then
 * used in its place, must give the same picture.  This is where a gradient wrongly treated as opaque shows: samples for which the gradient is
 * not defined (behind the apex of a cone, outside [0,1] without repeat) are transparent in the rendered copy. */
static pixman_fixed_t gfr (vf_rng *r, double lo, double hi) { return (pixman_fixed_t)((lo + (hi - lo) * vf_unit (r)) * 65536.0); }
static void gradient_case (long idx, vf_rng *r)
{
    pixman_op_t op = ro_ops[(idx / 7) % ro_nops]; if (ro_needs_float (op)) op = VF_PICK (r, ((pixman_op_t[]){ PIXMAN_OP_OVER, PIXMAN_OP_IN_REVERSE, PIXMAN_OP_OUT_REVERSE, PIXMAN_OP_ATOP, PIXMAN_OP_XOR, PIXMAN_OP_SRC, PIXMAN_OP_ADD, PIXMAN_OP_OVER_REVERSE }));
    int as_mask = vf_chance (r, 1, 3), kind = (int)(vf_next (r) % 3);
    int W = (int)vf_range (r, 6, 44), H = (int)vf_range (r, 3, 9);
    pixman_format_code_t df = VF_PICK (r, ((pixman_format_code_t[]){ PIXMAN_a8r8g8b8, PIXMAN_a8r8g8b8, PIXMAN_x8r8g8b8, PIXMAN_r5g6b5, PIXMAN_a8 }));
    vf_buf D1, D2; if (!vf_buf_alloc (&D1, df, W, H, 0, 0, vf_default_place (r))) return; if (!vf_buf_alloc (&D2, df, W, H, 0, 0, vf_default_place (r))) { vf_buf_free (&D1); return; }
    rq_image tmpd; memset (&tmpd, 0, sizeof tmpd); tmpd.kind = RQ_BITS; tmpd.fmt = df; tmpd.w = W; tmpd.h = H; tmpd.buf = D1; vf_buf_fill_random (&D1, r); rq_make_premultiplied (&tmpd); memcpy (D2.base, D1.base, D1.bytes);
    pixman_image_t *d1 = vf_buf_image (&D1), *d2 = vf_buf_image (&D2);
    /* the gradient */
    int ns = (int)vf_range (r, 1, 5), all_opaque = vf_chance (r, 2, 3); pixman_gradient_stop_t st[5]; double pos = vf_chance (r, 1, 2) ? 0 : vf_unit (r) * 0.4;
    for (int i = 0; i < ns; i++) { if (i) pos += vf_unit (r) * (1.0 - pos) * 0.7; if (i == ns - 1 && vf_chance (r, 1, 2)) pos = 1.0; st[i].x = (pixman_fixed_t)(pos * 65536);
        uint16_t a = all_opaque ? 0xffff : (uint16_t)vf_next (r); st[i].color.alpha = a; st[i].color.red = (uint16_t)(vf_next (r) % (a + 1u)); st[i].color.green = (uint16_t)(vf_next (r) % (a + 1u)); st[i].color.blue = (uint16_t)(vf_next (r) % (a + 1u)); }
    pixman_point_fixed_t p1 = { gfr (r, -10, 40), gfr (r, -6, 14) }, p2 = { gfr (r, -10, 50), gfr (r, -6, 14) }; pixman_fixed_t r1 = gfr (r, 0, 12), r2 = gfr (r, 0, 40); const char *geom = "general";
    if (kind == 1) { int g = (int)(vf_next (r) % 5);
        if (g == 0) { p2 = p1; geom = "concentric"; }
        else if (g == 1) { /* circles touching internally: |c2 - c1| == |r2 - r1| exactly */
            static const int tri[][3] = { { 1, 0, 1 }, { 0, 1, 1 }, { 3, 4, 5 }, { -4, 3, 5 }, { -1, 0, 1 }, { 5, 12, 13 } }; const int *t3 = tri[vf_next (r) % 6]; pixman_fixed_t k = (pixman_fixed_t)vf_range (r, 1, 6) * 65536;
            r1 = vf_chance (r, 1, 4) ? 0 : gfr (r, 0.5, 10); p2.x = p1.x + t3[0] * k; p2.y = p1.y + t3[1] * k; r2 = r1 + t3[2] * k; if (vf_chance (r, 1, 3)) { pixman_fixed_t t = r1; r1 = r2; r2 = t; pixman_point_fixed_t tp = p1; p1 = p2; p2 = tp; } geom = "touching"; }
        else if (g == 2) { r1 = gfr (r, 0, 3); r2 = gfr (r, 0, 3); p2.x = p1.x + gfr (r, 6, 30); geom = "cone (circles apart)"; } }
    pixman_image_t *grad = kind == 0 ? pixman_image_create_linear_gradient (&p1, &p2, st, ns) : kind == 1 ? pixman_image_create_radial_gradient (&p1, &p2, r1, r2, st, ns) : pixman_image_create_conical_gradient (&p1, gfr (r, -400, 400), st, ns);
    if (!grad) { pixman_image_unref (d1); pixman_image_unref (d2); vf_buf_free (&D1); vf_buf_free (&D2); return; }
    int repeat = (int)(vf_next (r) % 4); pixman_image_set_repeat (grad, repeat);
    int tk = (int)(vf_next (r) % 3); pixman_transform_t tr; pixman_transform_init_identity (&tr);
    if (tk == 1) { tr.matrix[0][2] = gfr (r, -5, 5); tr.matrix[1][2] = gfr (r, -5, 5); } else if (tk == 2) { tr.matrix[0][0] = gfr (r, 0.3, 2.5); tr.matrix[1][1] = gfr (r, 0.3, 2.5); tr.matrix[0][1] = gfr (r, -0.6, 0.6); tr.matrix[0][2] = gfr (r, -4, 4); }
    if (tk) pixman_image_set_transform (grad, &tr);
    int ca = as_mask && vf_chance (r, 1, 2); if (ca) pixman_image_set_component_alpha (grad, 1);
    /* the request: entirely inside the destination, no clip, so that both routes fetch the same gradient spans */
    int w = (int)vf_range (r, 1, W), h = (int)vf_range (r, 1, H), dx = (int)vf_range (r, 0, W - w), dy = (int)vf_range (r, 0, H - h), gx = (int)vf_range (r, -25, 40), gy = (int)vf_range (r, -10, 14);
    pixman_color_t oc = { (uint16_t)vf_next (r), (uint16_t)vf_next (r), (uint16_t)vf_next (r), (uint16_t)vf_next (r) }; if (vf_chance (r, 1, 2)) oc.alpha = 0xffff; if (oc.red > oc.alpha) oc.red = oc.alpha; if (oc.green > oc.alpha) oc.green = oc.alpha; if (oc.blue > oc.alpha) oc.blue = oc.alpha;
    pixman_image_t *other = (as_mask || vf_chance (r, 1, 3)) ? pixman_image_create_solid_fill (&oc) : NULL;
    pixman_image_t *copy = pixman_image_create_bits (PIXMAN_a8r8g8b8, w, h, NULL, 0);
    static const char *kn[] = { "linear", "radial", "conical" };
    vf_case_desc ("gradient %s (%s) as %s%s: p1=(%x,%x) p2=(%x,%x) r1=%x r2=%x stops=%d%s repeat=%d transform=%d op=%s dst=%s %dx%d rect=(%d,%d %dx%d) gradient origin (%d,%d)", kn[kind], geom, as_mask ? "mask" : "source", ca ? " (component alpha)" : "",
                  (unsigned)p1.x, (unsigned)p1.y, (unsigned)p2.x, (unsigned)p2.y, (unsigned)r1, (unsigned)r2, ns, all_opaque ? " all opaque" : "", repeat, tk, ro_op_name (op), rp_name (df), W, H, dx, dy, w, h, gx, gy);
    vf_inflight ("gradient %s as %s op=%s", kn[kind], as_mask ? "mask" : "source", ro_op_name (op));
    if (copy && (other || !as_mask)) {
        if (!as_mask) { pixman_image_composite32 (op, grad, other, d1, gx, gy, 0, 0, dx, dy, w, h);
                        pixman_image_composite32 (PIXMAN_OP_SRC, grad, NULL, copy, gx, gy, 0, 0, 0, 0, w, h); pixman_image_composite32 (op, copy, other, d2, 0, 0, 0, 0, dx, dy, w, h); }
        else { pixman_image_composite32 (op, other, grad, d1, 0, 0, gx, gy, dx, dy, w, h);
               pixman_image_set_component_alpha (grad, 0); pixman_image_composite32 (PIXMAN_OP_SRC, grad, NULL, copy, gx, gy, 0, 0, 0, 0, w, h); if (ca) pixman_image_set_component_alpha (copy, 1);
               pixman_image_composite32 (op, other, copy, d2, 0, 0, 0, 0, dx, dy, w, h); }
        if (vf.verbose) { fprintf (stderr, "GRADIENT kind=%d p1=(%d,%d) p2=(%d,%d) r1=%d r2=%d repeat=%d tr=[%d %d %d;%d %d %d;%d %d %d] tk=%d gx=%d gy=%d w=%d h=%d dx=%d dy=%d op=%d as_mask=%d ca=%d\n", kind, p1.x, p1.y, p2.x, p2.y, r1, r2, repeat,
            tr.matrix[0][0], tr.matrix[0][1], tr.matrix[0][2], tr.matrix[1][0], tr.matrix[1][1], tr.matrix[1][2], tr.matrix[2][0], tr.matrix[2][1], tr.matrix[2][2], tk, gx, gy, w, h, dx, dy, (int)op, as_mask, ca);
            for (int i = 0; i < ns; i++) fprintf (stderr, "  stop %d: x=%d a=%04x r=%04x g=%04x b=%04x\n", i, st[i].x, st[i].color.alpha, st[i].color.red, st[i].color.green, st[i].color.blue);
            const uint32_t *cp = pixman_image_get_data (copy); int cs = pixman_image_get_stride (copy) / 4; for (int y = 0; y < h; y++) { fprintf (stderr, "  copy row %d:", y); for (int x = 0; x < w; x++) fprintf (stderr, " %08x", cp[y * cs + x]); fprintf (stderr, "\n"); }
            fprintf (stderr, "  other=(%04x %04x %04x %04x)\n", oc.alpha, oc.red, oc.green, oc.blue); }
        uint32_t m = rp_defined_mask (df); int bad = 0;
        for (int y = 0; y < H && !bad; y++) for (int x = 0; x < W; x++) { uint32_t a = vf_get_px (vf_buf_row (&D1, y), D1.bpp, x) & m, b = vf_get_px (vf_buf_row (&D2, y), D2.bpp, x) & m;
            if (a != b) { char key[120]; snprintf (key, sizeof key, "C09:gradient-vs-rendered-copy:%s:%s:%s", kn[kind], as_mask ? "mask" : "source", ro_op_name (op));
                vf_violation (key, "pixel (%d,%d): %08x with the gradient used directly, %08x with its rendered a8r8g8b8 copy", x, y, a, b); bad = 1; break; } }
        vf_count ("evaluations", (long)W * H); vf_count ("gradient_groups", 1); if (kind == 1 && !strcmp (geom, "touching")) vf_count ("gradient_groups_touching_circles", 1);
        vf_label ("gradient_group", "%s/%s/%s/repeat%d%s", kn[kind], geom, as_mask ? "mask" : "source", repeat, all_opaque ? "/opaque-stops" : "");
        vf_cell ("cells", vf_mix (vf_mix (7000 + kind * 8 + repeat, op), vf_mix ((uint64_t)df, as_mask * 4 + all_opaque * 2 + (tk > 0))));
    }
    if (copy) pixman_image_unref (copy); if (other) pixman_image_unref (other);
    pixman_image_unref (grad); pixman_image_unref (d1); pixman_image_unref (d2); vf_buf_free (&D1); vf_buf_free (&D2);
}

/* A solid colour whose 16-bit alpha is just below 1 (0xff00..0xfffe: 0xff after truncation to 8 bits) is not opaque: on a destination of more than
 * 8 bits per channel it must give the same picture as a repeating rgba_float pixel holding the same colour. */
static void near_opaque_solid_case (long idx, vf_rng *r)
{
    pixman_op_t op = ro_ops[(idx / 7) % ro_nops]; if (ro_is_hsl (op)) op = PIXMAN_OP_OVER;
    int as_mask = vf_chance (r, 1, 3); int W = (int)vf_range (r, 2, 20), H = (int)vf_range (r, 1, 4);
    pixman_format_code_t df = VF_PICK (r, ((pixman_format_code_t[]){ PIXMAN_rgba_float, PIXMAN_a2r10g10b10, PIXMAN_rgba_float, PIXMAN_a2b10g10r10 }));
    pixman_color_t c; c.alpha = vf_chance (r, 3, 4) ? (uint16_t)vf_range (r, 0xff00, 0xfffe) : 0xffff; c.red = (uint16_t)(vf_next (r) % (c.alpha + 1u)); c.green = (uint16_t)(vf_next (r) % (c.alpha + 1u)); c.blue = (uint16_t)(vf_next (r) % (c.alpha + 1u));
    pixman_image_t *solid = pixman_image_create_solid_fill (&c), *px = pixman_image_create_bits (PIXMAN_rgba_float, 1, 1, NULL, 0);
    pixman_image_t *d1 = pixman_image_create_bits (df, W, H, NULL, 0), *d2 = pixman_image_create_bits (df, W, H, NULL, 0);
    pixman_color_t oc = { (uint16_t)vf_next (r), (uint16_t)vf_next (r), (uint16_t)vf_next (r), (uint16_t)vf_next (r) }; if (oc.red > oc.alpha) oc.red = oc.alpha; if (oc.green > oc.alpha) oc.green = oc.alpha; if (oc.blue > oc.alpha) oc.blue = oc.alpha;
    pixman_image_t *other = as_mask ? pixman_image_create_solid_fill (&oc) : NULL;
    if (solid && px && d1 && d2 && (other || !as_mask)) {
        float *f = (float *)pixman_image_get_data (px); f[0] = c.red / 65535.0f; f[1] = c.green / 65535.0f; f[2] = c.blue / 65535.0f; f[3] = c.alpha / 65535.0f; pixman_image_set_repeat (px, PIXMAN_REPEAT_NORMAL);
        /* destination content: premultiplied, mid-range alpha so that every term of the equations matters */
        int n = pixman_image_get_stride (d1) * H / 4; uint32_t *b1 = pixman_image_get_data (d1), *b2 = pixman_image_get_data (d2);
        if (df == PIXMAN_rgba_float) { float *q = (float *)b1; for (int i = 0; i < W * H; i++) { float a = 0.3f + 0.7f * (float)vf_unit (r); q[4 * i + 3] = a; for (int k = 0; k < 3; k++) q[4 * i + k] = a * (float)vf_unit (r); } }
        else for (int i = 0; i < n; i++) { uint32_t a = 2 + (uint32_t)(vf_next (r) % 2), ch = 1023 * a / 3; b1[i] = a << 30 | (uint32_t)(vf_next (r) % (ch + 1)) << 20 | (uint32_t)(vf_next (r) % (ch + 1)) << 10 | (uint32_t)(vf_next (r) % (ch + 1)); }
        memcpy (b2, b1, (size_t)n * 4);
        vf_case_desc ("solid (a=%04x r=%04x g=%04x b=%04x) as %s vs a repeating rgba_float pixel of the same colour, op=%s dst=%s %dx%d", c.alpha, c.red, c.green, c.blue, as_mask ? "mask" : "source", ro_op_name (op), rp_name (df), W, H);
        vf_inflight ("near-opaque solid as %s op=%s dst=%s", as_mask ? "mask" : "source", ro_op_name (op), rp_name (df));
        if (!as_mask) { pixman_image_composite32 (op, solid, NULL, d1, 0, 0, 0, 0, 0, 0, W, H); pixman_image_composite32 (op, px, NULL, d2, 0, 0, 0, 0, 0, 0, W, H); }
        else { pixman_image_composite32 (op, other, solid, d1, 0, 0, 0, 0, 0, 0, W, H); pixman_image_composite32 (op, other, px, d2, 0, 0, 0, 0, 0, 0, W, H); }
        int bad = 0; double worst = 0;
        for (int i = 0; i < W * H && !bad; i++) for (int k = 0; k < 4; k++) {
            double a, b, tol;
            if (df == PIXMAN_rgba_float) { int st = pixman_image_get_stride (d1) / 4; int x = i % W, y = i / W; a = ((float *)b1)[y * st + 4 * x + k]; b = ((float *)b2)[y * st + 4 * x + k]; tol = 6e-4; }
            else { int st = pixman_image_get_stride (d1) / 4; uint32_t pa = b1[(i / W) * st + i % W], pb = b2[(i / W) * st + i % W]; int sh = k == 3 ? 30 : 20 - 10 * k; uint32_t mk = k == 3 ? 3 : 1023; a = (pa >> sh) & mk; b = (pb >> sh) & mk; tol = 1.0; }
            double dev = fabs (a - b); if (dev > worst) worst = dev;
            if (!(dev <= tol)) { char key[120]; snprintf (key, sizeof key, "C09:near-opaque-solid-vs-float-pixel:%s:%s", as_mask ? "mask" : "source", ro_op_name (op));
                vf_violation (key, "pixel %d channel %d: %.6f with the solid, %.6f with the repeating float pixel of the same colour (alpha %04x)", i, k, a, b, c.alpha); bad = 1; break; } }
        vf_count ("evaluations", (long)W * H); vf_count ("near_opaque_solid_groups", 1);
        vf_cell ("cells", vf_mix (vf_mix (8000 + as_mask, op), vf_mix ((uint64_t)df, c.alpha == 0xffff)));
    }
    if (solid) pixman_image_unref (solid); if (px) pixman_image_unref (px); if (d1) pixman_image_unref (d1); if (d2) pixman_image_unref (d2); if (other) pixman_image_unref (other);
}

static void c09_case (long idx, vf_rng *r)
{
    if (idx % 7 == 6) { gradient_case (idx, r); return; }
    if (idx % 14 == 5) { near_opaque_solid_case (idx, r); return; }
    pixman_op_t op = ro_ops[idx % ro_nops];
    int role = (int)((idx / ro_nops) % 3);
    rq_request base; rq_generate (r, &base, RQP_NARROW_ONLY | RQP_NO_INDEXED | RQP_NO_ALPHAMAP | RQP_NO_ACCESSORS | RQP_NO_GRADIENT);
    base.op = op;
    if (role == 1) { if (!base.has_mask) { base.has_mask = 1; rq_gen_image (r, &base.mask, 1, RQP_NARROW_ONLY | RQP_NO_INDEXED | RQP_NO_ALPHAMAP | RQP_NO_ACCESSORS | RQP_NO_GRADIENT); } }
    /* a fifth of the mask cases: the plain full-colour pairing (untransformed a8r8g8b8 source, mask and destination, OVER) that the x86 chains
     * serve with dedicated routines working on aligned groups of pixels */
    int plain8888 = role == 1 && vf_chance (r, 1, 5);
    if (plain8888) { base.op = op = PIXMAN_OP_OVER; rq_image *im3[3] = { &base.src, &base.mask, &base.dst };
        for (int i = 0; i < 3; i++) { rq_image *im = im3[i]; int w0 = base.dst.w, h0 = base.dst.h; memset (im, 0, sizeof *im); im->kind = RQ_BITS; im->fmt = PIXMAN_a8r8g8b8; im->w = w0 > 0 ? w0 : 8; im->h = h0 > 0 ? h0 : 2; im->tr_class = TR_NONE; pixman_transform_init_identity (&im->tr); im->filter = PIXMAN_FILTER_NEAREST; im->pixseed = vf_next (r); }
        base.sx = base.sy = base.mx = base.my = base.dx = base.dy = 0; base.w = base.dst.w; base.h = base.dst.h; base.cover = 1; }
    /* a fifth of the source cases: an untransformed source that covers the request, drawn through an untransformed a8 mask onto a 32- or 16-bit
     * destination - the pairing for which every implementation level (C, MMX, SSE2) has its own routine that treats alpha-less sources specially */
    int plainsrc = role == 0 && vf_chance (r, 1, 5);
    if (plainsrc) { static const pixman_op_t po[] = { PIXMAN_OP_OVER, PIXMAN_OP_OVER, PIXMAN_OP_OVER, PIXMAN_OP_SRC, PIXMAN_OP_ADD, PIXMAN_OP_IN, PIXMAN_OP_OUT_REVERSE }; base.op = op = VF_PICK (r, po);
        static const pixman_format_code_t pd[] = { PIXMAN_a8r8g8b8, PIXMAN_x8r8g8b8, PIXMAN_r5g6b5, PIXMAN_a8b8g8r8, PIXMAN_x8b8g8r8 };
        int w0 = base.dst.w > 0 ? base.dst.w : 8, h0 = base.dst.h > 0 ? base.dst.h : 2; rq_image *im3[3] = { &base.src, &base.mask, &base.dst };
        for (int i = 0; i < 3; i++) { rq_image *im = im3[i]; memset (im, 0, sizeof *im); im->kind = RQ_BITS; im->fmt = i == 1 ? PIXMAN_a8 : i == 2 ? VF_PICK (r, pd) : PIXMAN_x8r8g8b8; im->w = w0; im->h = h0; im->tr_class = TR_NONE; pixman_transform_init_identity (&im->tr); im->filter = PIXMAN_FILTER_NEAREST; im->pixseed = vf_next (r); im->pixstyle = i == 1 ? 2 : 0; }
        base.has_mask = vf_chance (r, 4, 5); base.sx = base.sy = base.mx = base.my = base.dx = base.dy = 0; base.w = w0; base.h = h0; base.cover = 1; vf_count ("plain_source_through_a8_mask", 1); }
    rq_image *target = role == 0 ? &base.src : role == 1 ? &base.mask : &base.dst;
    if (target->kind != RQ_BITS) { target->kind = RQ_BITS; target->w = (int)vf_range (r, 1, 30); target->h = (int)vf_range (r, 1, 8); target->tr_class = TR_NONE; pixman_transform_init_identity (&target->tr); target->filter = PIXMAN_FILTER_NEAREST; target->repeat = (int)(vf_next (r) % 4); }
    /* user kernels need not be normalised: give separable tables a gain != 1 now and then */
    if (target->filter == PIXMAN_FILTER_SEPARABLE_CONVOLUTION && vf_chance (r, 1, 2)) {
        int cw = pixman_fixed_to_int (target->params[0]), nx = cw << pixman_fixed_to_int (target->params[2]); double gain = 0.4 + 1.4 * vf_unit (r);
        for (int i = 0; i < nx && 4 + i < target->n_params; i++) target->params[4 + i] = (pixman_fixed_t)(target->params[4 + i] * gain);
    }
    if (role == 2) base.dst.repeat = vf_chance (r, 1, 2) ? PIXMAN_REPEAT_NONE : (int)vf_range (r, 1, 3);
    /* homogeneous scaling of the whole matrix leaves the mapping unchanged (x/w), but is not an affine matrix any more */
    if (role != 2 && target->tr_class >= TR_INT_TRANSLATE && target->tr_class <= TR_AFFINE && vf_chance (r, 1, 3)) {
        static const double ks[] = { 0.5, 0.25, 2.0, 0.75, 1.5 }; double k = VF_PICK (r, ks);
        int fits = 1; for (int i = 0; i < 3; i++) for (int j = 0; j < 3; j++) { double v = target->tr.matrix[i][j] * k; if (v > 2147483000.0 || v < -2147483000.0) fits = 0; }
        if (fits) { for (int i = 0; i < 3; i++) for (int j = 0; j < 3; j++) target->tr.matrix[i][j] = (pixman_fixed_t)(target->tr.matrix[i][j] * k);
                    target->tr_class = TR_PROJECTIVE; }
    }
    base.pixbuf = 0;
    /* operators of the floating-point class are only defined on premultiplied samples: a kernel with negative lobes can deliver
     * colour above alpha from premultiplied pixels, so the operands that are not under test get none */
    if (ro_needs_float (op) || op == PIXMAN_OP_SATURATE) { if (role != 0) no_negative_kernel (&base.src); if (role != 1 && base.has_mask) no_negative_kernel (&base.mask); }
    uint64_t cseed = vf_next (r);
    /* which presentations take part */
    int pres[4], np = 0; int constant = 0, use565 = 0;
    int group = (int)(vf_next (r) % (role == 2 ? 1 : 3)); if (plain8888) group = 0; if (plainsrc) group = (int)(vf_next (r) % 2);
    if (group == 0) { pres[np++] = P_X888; pres[np++] = P_A888_FF; }
    else if (group == 1) {
        use565 = 1;
        /* in the floating-point pipeline a 5-bit field denotes v/31, its 8-bit replication v8/255: not the same precision, so
         * r5g6b5 itself only takes part for operators evaluated in the integer pipeline */
        if (!ro_needs_float (op)) pres[np++] = P_565;
        pres[np++] = P_X888_FROM_565; pres[np++] = P_A888_FF;
    }
    else {
        constant = 1; pres[np++] = P_SOLID; pres[np++] = P_1X1_X888; pres[np++] = P_1X1_A888_FF;
        if (target->filter == PIXMAN_FILTER_CONVOLUTION || target->filter == PIXMAN_FILTER_SEPARABLE_CONVOLUTION) { target->filter = vf_chance (r, 1, 2) ? PIXMAN_FILTER_BILINEAR : PIXMAN_FILTER_NEAREST; target->n_params = 0; }
        if (target->repeat == PIXMAN_REPEAT_NONE) target->repeat = PIXMAN_REPEAT_NORMAL;
        /* a solid fill carries neither clip nor transform in this harness: keep the other presentations comparable */
        target->n_clip = 0; target->clip_sources = 0;
        /* a fresh, moderate transform: whatever it is, every sample of a 1x1 repeating image is that pixel */
        rq_gen_transform (r, target, vf_chance (r, 1, 2) ? TR_NONE : (int)vf_range (r, TR_IDENTITY, TR_AFFINE), 0);
    }
    /* an a8r8g8b8 destination for the destination role keeps its alpha: only RGB is compared */
    static uint32_t out[4][96 * 48]; int outw = base.dst.w, outh = base.dst.h; if (outw > 96 || outh > 48) return;
    char descs[4][1600]; uint32_t dmask[4]; int klass[4] = { 0, 0, 0, 0 };
    for (int v = 0; v < np; v++) {
        rq_request q = base;
        rq_image *t = role == 0 ? &q.src : role == 1 ? &q.mask : &q.dst;
        present (t, pres[v], cseed, constant);
        vf_rng br = *r;
        if (!rq_build (&q, &br)) return;
        paint (t, pres[v], cseed, constant, use565);
        /* the other operands: premultiplied-valid content (the equations are only defined there) */
        if (role != 0) rq_make_premultiplied (&q.src);
        if (role != 1 && q.has_mask) rq_make_premultiplied (&q.mask);
        if (role != 2) rq_make_premultiplied (&q.dst);
        rq_describe (&q, descs[v], sizeof descs[v]);
        vf_inflight ("%s presented as %s: %s", role_name[role], pname[pres[v]], descs[v]);
        seen_lookup = seen_wide = 0; pixman_verif_trace_composite = trace_fp; pixman_verif_trace_iter = trace_it;
        rq_run (&q);
        pixman_verif_trace_composite = NULL; pixman_verif_trace_iter = NULL; klass[v] = !seen_lookup ? 0 : seen_wide ? 2 : 1;
        dmask[v] = rp_defined_mask (q.dst.fmt);
        if (q.dst.buf.bpp > 32) { rq_free (&q); return; }
        for (int y = 0; y < outh; y++) for (int x = 0; x < outw; x++) out[v][y * outw + x] = vf_get_px (vf_buf_row (&q.dst.buf, y), q.dst.buf.bpp, x);
        if (vf.verbose) { fprintf (stderr, "VARIANT %s: %s\n  ", pname[pres[v]], descs[v]); for (int i = 0; i < outw * outh && i < 64; i++) fprintf (stderr, "%x ", out[v][i]); fprintf (stderr, "\n"); }
        rq_free (&q);
    }
    /* float-class operators: a presentation recognised as opaque may be strength-reduced to an integer operator (rounds to nearest,
     * within one step of the real value) while the other stays in the float pipeline (truncates, within one step): two steps apart at most */
    int tol = ro_needs_float (op) ? 2 : 0;
    pixman_format_code_t dfmt = role == 2 ? PIXMAN_x8r8g8b8 : base.dst.fmt;
    int sh[4], bits[4]; rp_layout (dfmt, sh, bits);
    long npx = 0; int maxdev = 0;
    for (int v = 1; v < np; v++) {
        uint32_t m = dmask[0] & dmask[v]; if (role == 2) m = 0x00ffffff;
        /* "bit-identically whenever both variants are evaluated at the same precision": operators that divide by an alpha amplify the
         * difference between an 8-bit and a floating-point intermediate without bound, so a pair served at different precisions is not judged for them */
        if (division_op (op) && klass[0] && klass[v] && klass[0] != klass[v]) { vf_count ("pairs_not_judged_division_operator_at_different_precision", 1); continue; }
        vf_count (klass[0] == klass[v] ? "pairs_same_precision" : "pairs_different_precision", 1);
        for (int i = 0; i < outw * outh; i++) {
            npx++;
            uint32_t a = out[0][i] & m, b = out[v][i] & m;
            if (a == b) continue;
            int dev = 0;
            for (int c = 0; c < 4; c++) if (bits[c]) { uint32_t cm = ((1u << bits[c]) - 1); if (!((m >> sh[c]) & cm)) continue; int da = (int)((a >> sh[c]) & cm) - (int)((b >> sh[c]) & cm); if (da < 0) da = -da; if (da > dev) dev = da; }
            if (dev > maxdev) maxdev = dev;
            if (dev > tol) {
                char key[160]; snprintf (key, sizeof key, "C09:%s:%s-vs-%s:%s", role_name[role], pname[pres[0]], pname[pres[v]], ro_op_name (op));
                if (role != 2 && target->tr_class == TR_PROJECTIVE && homogeneous_beyond_16_16 (target, role == 0 ? base.sx : base.mx, role == 0 ? base.sy : base.my, base.w, base.h))
                    snprintf (key, sizeof key, "C09:projective-homogeneous-coordinates-beyond-16.16:%s", role_name[role]);
                vf_case_desc ("%s | vs | %s", descs[0], descs[v]);
                vf_violation (key, "pixel (%d,%d): %08x when the %s is presented as %s, %08x as %s (compared bits %08x, tolerance %d)", i % outw, i / outw, a, role_name[role], pname[pres[0]], b, pname[pres[v]], m, tol);
                v = np; break;
            }
        }
    }
    vf_count ("evaluations", npx); vf_count ("groups", 1);
    if (tol) vf_max ("max_deviation_float_class_ops", maxdev);
    vf_label ("op_role_group", "%s/%s/%d", ro_op_name (op), role_name[role], group);
    int cover_hint = base.cover;
    vf_cell ("cells", vf_mix (vf_mix (op * 4 + role, group), vf_mix (target->tr_class * 100 + target->filter * 4 + target->repeat, cover_hint + 2 * (uint32_t)base.dst.fmt)));
    if (idx < 3) vf_sample ("op=%s role=%s presentations=%s|%s%s%s : %s", ro_op_name (op), role_name[role], pname[pres[0]], pname[pres[1]], np > 2 ? "|" : "", np > 2 ? pname[pres[2]] : "", descs[0]);
}

int main (int argc, char **argv) { return vf_main (argc, argv, "C09", NULL, c09_case, NULL); }
