#include "ref_ops.h"
#include <math.h>

const pixman_op_t ro_ops[] = {
    PIXMAN_OP_CLEAR, PIXMAN_OP_SRC, PIXMAN_OP_DST, PIXMAN_OP_OVER, PIXMAN_OP_OVER_REVERSE, PIXMAN_OP_IN, PIXMAN_OP_IN_REVERSE,
    PIXMAN_OP_OUT, PIXMAN_OP_OUT_REVERSE, PIXMAN_OP_ATOP, PIXMAN_OP_ATOP_REVERSE, PIXMAN_OP_XOR, PIXMAN_OP_ADD, PIXMAN_OP_SATURATE,
    PIXMAN_OP_DISJOINT_CLEAR, PIXMAN_OP_DISJOINT_SRC, PIXMAN_OP_DISJOINT_DST, PIXMAN_OP_DISJOINT_OVER, PIXMAN_OP_DISJOINT_OVER_REVERSE,
    PIXMAN_OP_DISJOINT_IN, PIXMAN_OP_DISJOINT_IN_REVERSE, PIXMAN_OP_DISJOINT_OUT, PIXMAN_OP_DISJOINT_OUT_REVERSE, PIXMAN_OP_DISJOINT_ATOP,
    PIXMAN_OP_DISJOINT_ATOP_REVERSE, PIXMAN_OP_DISJOINT_XOR,
    PIXMAN_OP_CONJOINT_CLEAR, PIXMAN_OP_CONJOINT_SRC, PIXMAN_OP_CONJOINT_DST, PIXMAN_OP_CONJOINT_OVER, PIXMAN_OP_CONJOINT_OVER_REVERSE,
    PIXMAN_OP_CONJOINT_IN, PIXMAN_OP_CONJOINT_IN_REVERSE, PIXMAN_OP_CONJOINT_OUT, PIXMAN_OP_CONJOINT_OUT_REVERSE, PIXMAN_OP_CONJOINT_ATOP,
    PIXMAN_OP_CONJOINT_ATOP_REVERSE, PIXMAN_OP_CONJOINT_XOR,
    PIXMAN_OP_MULTIPLY, PIXMAN_OP_SCREEN, PIXMAN_OP_OVERLAY, PIXMAN_OP_DARKEN, PIXMAN_OP_LIGHTEN, PIXMAN_OP_COLOR_DODGE, PIXMAN_OP_COLOR_BURN,
    PIXMAN_OP_HARD_LIGHT, PIXMAN_OP_SOFT_LIGHT, PIXMAN_OP_DIFFERENCE, PIXMAN_OP_EXCLUSION, PIXMAN_OP_HSL_HUE, PIXMAN_OP_HSL_SATURATION,
    PIXMAN_OP_HSL_COLOR, PIXMAN_OP_HSL_LUMINOSITY,
};
const int ro_nops = sizeof ro_ops / sizeof ro_ops[0];

const char *ro_op_name (pixman_op_t op)
{
    switch (op) {
#define N(x) case PIXMAN_OP_##x: return #x;
    N (CLEAR) N (SRC) N (DST) N (OVER) N (OVER_REVERSE) N (IN) N (IN_REVERSE) N (OUT) N (OUT_REVERSE) N (ATOP) N (ATOP_REVERSE) N (XOR) N (ADD) N (SATURATE)
    N (DISJOINT_CLEAR) N (DISJOINT_SRC) N (DISJOINT_DST) N (DISJOINT_OVER) N (DISJOINT_OVER_REVERSE) N (DISJOINT_IN) N (DISJOINT_IN_REVERSE)
    N (DISJOINT_OUT) N (DISJOINT_OUT_REVERSE) N (DISJOINT_ATOP) N (DISJOINT_ATOP_REVERSE) N (DISJOINT_XOR)
    N (CONJOINT_CLEAR) N (CONJOINT_SRC) N (CONJOINT_DST) N (CONJOINT_OVER) N (CONJOINT_OVER_REVERSE) N (CONJOINT_IN) N (CONJOINT_IN_REVERSE)
    N (CONJOINT_OUT) N (CONJOINT_OUT_REVERSE) N (CONJOINT_ATOP) N (CONJOINT_ATOP_REVERSE) N (CONJOINT_XOR)
    N (MULTIPLY) N (SCREEN) N (OVERLAY) N (DARKEN) N (LIGHTEN) N (COLOR_DODGE) N (COLOR_BURN) N (HARD_LIGHT) N (SOFT_LIGHT) N (DIFFERENCE) N (EXCLUSION)
    N (HSL_HUE) N (HSL_SATURATION) N (HSL_COLOR) N (HSL_LUMINOSITY)
#undef N
    default: return "?";
    }
}
int ro_is_exact_op (pixman_op_t op) { return op <= PIXMAN_OP_ADD; }
int ro_is_hsl (pixman_op_t op) { return op >= PIXMAN_OP_HSL_HUE && op <= PIXMAN_OP_HSL_LUMINOSITY; }
int ro_is_pdf_blend (pixman_op_t op) { return op >= PIXMAN_OP_MULTIPLY && op <= PIXMAN_OP_HSL_LUMINOSITY; }
int ro_needs_float (pixman_op_t op)
{
    if (op == PIXMAN_OP_SATURATE) return 1;
    if (op >= PIXMAN_OP_DISJOINT_CLEAR && op <= PIXMAN_OP_CONJOINT_XOR) return 1;
    if (op == PIXMAN_OP_COLOR_DODGE || op == PIXMAN_OP_COLOR_BURN || op == PIXMAN_OP_SOFT_LIGHT || ro_is_hsl (op)) return 1;
    return 0;
}

/* ------------------------------------------------------------------ exact rule */
/* factor kinds for the 13 Porter-Duff operators + ADD */
enum { Z, ONE, SA, ISA, DA, IDA };
static const uint8_t pd_tab[14][2] = {
    { Z, Z }, { ONE, Z }, { Z, ONE }, { ONE, ISA }, { IDA, ONE }, { DA, Z }, { Z, SA }, { IDA, Z }, { Z, ISA },
    { DA, ISA }, { IDA, SA }, { IDA, ISA }, { ONE, ONE }, { 0, 0 } };
static unsigned fac8 (int k, unsigned sa, unsigned da)
{
    switch (k) { case Z: return 0; case ONE: return 255; case SA: return sa; case ISA: return 255 - sa; case DA: return da; default: return 255 - da; }
}
void ro_exact8 (pixman_op_t op, int mode, const uint8_t s[4], const uint8_t m[4], const uint8_t d[4], uint8_t out[4])
{
    unsigned sp[4], sac[4];       /* masked source channels, per-channel source alpha */
    for (int c = 0; c < 4; c++) {
        if (mode == RO_NOMASK) { sp[c] = s[c]; sac[c] = s[0]; }
        else if (mode == RO_UNIFIED) { sp[c] = ro_mul8 (s[c], m[0]); sac[c] = ro_mul8 (s[0], m[0]); }
        else { sp[c] = ro_mul8 (s[c], m[c]); sac[c] = ro_mul8 (m[c], s[0]); }
    }
    unsigned da = d[0];
    for (int c = 0; c < 4; c++) {
        unsigned fa = fac8 (pd_tab[op][0], sac[c], da), fb = fac8 (pd_tab[op][1], sac[c], da);
        unsigned v = ro_mul8 (sp[c], fa) + ro_mul8 (d[c], fb);
        out[c] = v > 255 ? 255 : (uint8_t)v;
    }
}

/* ------------------------------------------------------------------ real-valued equations */
static double clamp01 (double f) { return f < 0 ? 0 : f > 1 ? 1 : f; }
enum { F_ZERO, F_ONE, F_SA, F_DA, F_ISA, F_IDA, F_SA_DA, F_DA_SA, F_ISA_DA, F_IDA_SA, F_1mSA_DA, F_1mDA_SA, F_1mIDA_SA, F_1mISA_DA };
static double factor (int f, double sa, double da)
{
    switch (f) {
    case F_ZERO: return 0; case F_ONE: return 1; case F_SA: return sa; case F_DA: return da; case F_ISA: return 1 - sa; case F_IDA: return 1 - da;
    case F_SA_DA: return da == 0 ? 1 : clamp01 (sa / da);                  /* min(1, sa/da) */
    case F_DA_SA: return sa == 0 ? 1 : clamp01 (da / sa);
    case F_ISA_DA: return da == 0 ? 1 : clamp01 ((1 - sa) / da);           /* min(1,(1-sa)/da) */
    case F_IDA_SA: return sa == 0 ? 1 : clamp01 ((1 - da) / sa);
    case F_1mSA_DA: return da == 0 ? 0 : clamp01 (1 - sa / da);            /* max(0,1-sa/da) */
    case F_1mDA_SA: return sa == 0 ? 0 : clamp01 (1 - da / sa);
    case F_1mIDA_SA: return sa == 0 ? 0 : clamp01 (1 - (1 - da) / sa);     /* max(0,1-(1-da)/sa) */
    default: return da == 0 ? 0 : clamp01 (1 - (1 - sa) / da);
    }
}
/* (Fa, Fb) per operator, from the Render specification tables */
static int pd_factors (pixman_op_t op, int *fa, int *fb)
{
    switch (op) {
    case PIXMAN_OP_CLEAR: case PIXMAN_OP_DISJOINT_CLEAR: case PIXMAN_OP_CONJOINT_CLEAR: *fa = F_ZERO; *fb = F_ZERO; return 1;
    case PIXMAN_OP_SRC: case PIXMAN_OP_DISJOINT_SRC: case PIXMAN_OP_CONJOINT_SRC: *fa = F_ONE; *fb = F_ZERO; return 1;
    case PIXMAN_OP_DST: case PIXMAN_OP_DISJOINT_DST: case PIXMAN_OP_CONJOINT_DST: *fa = F_ZERO; *fb = F_ONE; return 1;
    case PIXMAN_OP_OVER: *fa = F_ONE; *fb = F_ISA; return 1;
    case PIXMAN_OP_OVER_REVERSE: *fa = F_IDA; *fb = F_ONE; return 1;
    case PIXMAN_OP_IN: *fa = F_DA; *fb = F_ZERO; return 1;
    case PIXMAN_OP_IN_REVERSE: *fa = F_ZERO; *fb = F_SA; return 1;
    case PIXMAN_OP_OUT: *fa = F_IDA; *fb = F_ZERO; return 1;
    case PIXMAN_OP_OUT_REVERSE: *fa = F_ZERO; *fb = F_ISA; return 1;
    case PIXMAN_OP_ATOP: *fa = F_DA; *fb = F_ISA; return 1;
    case PIXMAN_OP_ATOP_REVERSE: *fa = F_IDA; *fb = F_SA; return 1;
    case PIXMAN_OP_XOR: *fa = F_IDA; *fb = F_ISA; return 1;
    case PIXMAN_OP_ADD: *fa = F_ONE; *fb = F_ONE; return 1;
    case PIXMAN_OP_SATURATE: *fa = F_IDA_SA; *fb = F_ONE; return 1;
    case PIXMAN_OP_DISJOINT_OVER: *fa = F_ONE; *fb = F_ISA_DA; return 1;
    case PIXMAN_OP_DISJOINT_OVER_REVERSE: *fa = F_IDA_SA; *fb = F_ONE; return 1;
    case PIXMAN_OP_DISJOINT_IN: *fa = F_1mIDA_SA; *fb = F_ZERO; return 1;
    case PIXMAN_OP_DISJOINT_IN_REVERSE: *fa = F_ZERO; *fb = F_1mISA_DA; return 1;
    case PIXMAN_OP_DISJOINT_OUT: *fa = F_IDA_SA; *fb = F_ZERO; return 1;
    case PIXMAN_OP_DISJOINT_OUT_REVERSE: *fa = F_ZERO; *fb = F_ISA_DA; return 1;
    case PIXMAN_OP_DISJOINT_ATOP: *fa = F_1mIDA_SA; *fb = F_ISA_DA; return 1;
    case PIXMAN_OP_DISJOINT_ATOP_REVERSE: *fa = F_IDA_SA; *fb = F_1mISA_DA; return 1;
    case PIXMAN_OP_DISJOINT_XOR: *fa = F_IDA_SA; *fb = F_ISA_DA; return 1;
    case PIXMAN_OP_CONJOINT_OVER: *fa = F_ONE; *fb = F_1mSA_DA; return 1;
    case PIXMAN_OP_CONJOINT_OVER_REVERSE: *fa = F_1mDA_SA; *fb = F_ONE; return 1;
    case PIXMAN_OP_CONJOINT_IN: *fa = F_DA_SA; *fb = F_ZERO; return 1;
    case PIXMAN_OP_CONJOINT_IN_REVERSE: *fa = F_ZERO; *fb = F_SA_DA; return 1;
    case PIXMAN_OP_CONJOINT_OUT: *fa = F_1mDA_SA; *fb = F_ZERO; return 1;
    case PIXMAN_OP_CONJOINT_OUT_REVERSE: *fa = F_ZERO; *fb = F_1mSA_DA; return 1;
    case PIXMAN_OP_CONJOINT_ATOP: *fa = F_DA_SA; *fb = F_1mSA_DA; return 1;
    case PIXMAN_OP_CONJOINT_ATOP_REVERSE: *fa = F_1mDA_SA; *fb = F_SA_DA; return 1;
    case PIXMAN_OP_CONJOINT_XOR: *fa = F_1mDA_SA; *fb = F_1mSA_DA; return 1;
    default: return 0;
    }
}

/* separable PDF blend functions B(cb, cs) on non-premultiplied colours in [0,1] */
static double blend_sep (pixman_op_t op, double cb, double cs)
{
    switch (op) {
    case PIXMAN_OP_MULTIPLY: return cb * cs;
    case PIXMAN_OP_SCREEN: return cb + cs - cb * cs;
    case PIXMAN_OP_OVERLAY: return cb <= 0.5 ? 2 * cb * cs : 1 - 2 * (1 - cb) * (1 - cs);      /* HardLight(cs, cb) */
    case PIXMAN_OP_DARKEN: return cb < cs ? cb : cs;
    case PIXMAN_OP_LIGHTEN: return cb > cs ? cb : cs;
    case PIXMAN_OP_COLOR_DODGE: return cb == 0 ? 0 : cs >= 1 ? 1 : (cb / (1 - cs) > 1 ? 1 : cb / (1 - cs));
    case PIXMAN_OP_COLOR_BURN: return cb >= 1 ? 1 : cs <= 0 ? 0 : 1 - ((1 - cb) / cs > 1 ? 1 : (1 - cb) / cs);
    case PIXMAN_OP_HARD_LIGHT: return cs <= 0.5 ? 2 * cb * cs : 1 - 2 * (1 - cb) * (1 - cs);
    case PIXMAN_OP_SOFT_LIGHT:
        if (cs <= 0.5) return cb - (1 - 2 * cs) * cb * (1 - cb);
        else { double D = cb <= 0.25 ? ((16 * cb - 12) * cb + 4) * cb : sqrt (cb); return cb + (2 * cs - 1) * (D - cb); }
    case PIXMAN_OP_DIFFERENCE: return fabs (cb - cs);
    case PIXMAN_OP_EXCLUSION: return cb + cs - 2 * cb * cs;
    default: return 0;
    }
}

/* non-separable (HSL) helpers, PDF 11.3.5.3 */
static double lum (const double c[3]) { return 0.3 * c[0] + 0.59 * c[1] + 0.11 * c[2]; }
static void clip_color (double c[3])
{
    double l = lum (c), n = fmin (c[0], fmin (c[1], c[2])), x = fmax (c[0], fmax (c[1], c[2]));
    if (n < 0) for (int i = 0; i < 3; i++) c[i] = (l - n) == 0 ? l : l + (c[i] - l) * l / (l - n);
    if (x > 1) for (int i = 0; i < 3; i++) c[i] = (x - l) == 0 ? l : l + (c[i] - l) * (1 - l) / (x - l);
}
static void set_lum (double c[3], double l) { double d = l - lum (c); for (int i = 0; i < 3; i++) c[i] += d; clip_color (c); }
static double sat (const double c[3]) { return fmax (c[0], fmax (c[1], c[2])) - fmin (c[0], fmin (c[1], c[2])); }
static void set_sat (double c[3], double s)
{
    int mx = 0, mn = 0;
    for (int i = 1; i < 3; i++) { if (c[i] > c[mx]) mx = i; if (c[i] < c[mn]) mn = i; }
    if (c[mx] > c[mn]) {
        int mid = 3 - mx - mn; if (mx == mn) mid = 0;
        if (mid >= 0 && mid < 3 && mid != mx && mid != mn) c[mid] = (c[mid] - c[mn]) * s / (c[mx] - c[mn]);
        c[mx] = s; c[mn] = 0;
    } else c[0] = c[1] = c[2] = 0;
}
static void blend_hsl (pixman_op_t op, const double cb[3], const double cs[3], double out[3])
{
    double t[3];
    switch (op) {
    case PIXMAN_OP_HSL_HUE: memcpy (t, cs, sizeof t); set_sat (t, sat (cb)); set_lum (t, lum (cb)); break;
    case PIXMAN_OP_HSL_SATURATION: memcpy (t, cb, sizeof t); set_sat (t, sat (cs)); set_lum (t, lum (cb)); break;
    case PIXMAN_OP_HSL_COLOR: memcpy (t, cs, sizeof t); set_lum (t, lum (cb)); break;
    default: memcpy (t, cb, sizeof t); set_lum (t, lum (cs)); break;
    }
    memcpy (out, t, sizeof t);
}

/* one evaluation at a point; s,m,d premultiplied a,r,g,b */
static void eval_point (pixman_op_t op, int mode, const double s[4], const double m[4], const double d[4], double out[4])
{
    double sp[4], sac[4];
    for (int c = 0; c < 4; c++) {
        if (mode == RO_NOMASK) { sp[c] = s[c]; sac[c] = s[0]; }
        else if (mode == RO_UNIFIED) { sp[c] = s[c] * m[0]; sac[c] = s[0] * m[0]; }
        else { sp[c] = s[c] * m[c]; sac[c] = s[0] * m[c]; }
    }
    double da = d[0];
    int fa, fb;
    if (pd_factors (op, &fa, &fb)) {
        for (int c = 0; c < 4; c++) { double v = sp[c] * factor (fa, sac[c], da) + d[c] * factor (fb, sac[c], da); out[c] = v > 1 ? 1 : v; }
        return;
    }
    /* PDF blend modes: alpha = sa + da - sa*da ; colour = (1-sa) d + (1-da) s + sa da B(d/da, s/sa) */
    out[0] = sac[0] + da - sac[0] * da;
    if (!ro_is_hsl (op)) {
        for (int c = 1; c < 4; c++) {
            double sa = sac[c], B = 0;
            if (sa > 0 && da > 0) B = sa * da * blend_sep (op, clamp01 (d[c] / da), clamp01 (sp[c] / sa));
            out[c] = (1 - sa) * d[c] + (1 - da) * sp[c] + B;
        }
    } else {
        double sa = sac[0], B[3] = { 0, 0, 0 };
        if (sa > 0 && da > 0) {
            double cb[3] = { clamp01 (d[1] / da), clamp01 (d[2] / da), clamp01 (d[3] / da) }, cs[3] = { clamp01 (sp[1] / sa), clamp01 (sp[2] / sa), clamp01 (sp[3] / sa) };
            blend_hsl (op, cb, cs, B);
        }
        for (int c = 1; c < 4; c++) out[c] = (1 - sa) * d[c] + (1 - da) * sp[c] + sa * da * B[c - 1];
    }
}

void ro_real (pixman_op_t op, int mode, const double s[4], const double m[4], const double d[4], double lo[4], double hi[4])
{
    double o[4];
    eval_point (op, mode, s, m, d, o);
    for (int c = 0; c < 4; c++) lo[c] = hi[c] = o[c];
    /* hull over small perturbations of every input (discontinuous operators, single-precision evaluation) */
    const double eps = 1.0 / (1 << 20);
    int nin = mode == RO_NOMASK ? 8 : 12;
    for (int k = 0; k < 2 * nin + 8; k++) {
        double ps[4], pm[4], pd[4];
        memcpy (ps, s, sizeof ps); memcpy (pm, m, sizeof pm); memcpy (pd, d, sizeof pd);
        if (k < 2 * nin) {
            int which = k / 2; double e = (k & 1) ? eps : -eps;
            double *t = which < 4 ? &ps[which] : which < 8 ? &pd[which - 4] : &pm[which - 8];
            *t = clamp01 (*t + e);
        } else {
            unsigned bits = (unsigned)(k - 2 * nin) * 0x9e3779b1u + 0x7f4a7c15u;
            for (int c = 0; c < 4; c++) {
                ps[c] = clamp01 (ps[c] + (((bits >> c) & 1) ? eps : -eps));
                pd[c] = clamp01 (pd[c] + (((bits >> (4 + c)) & 1) ? eps : -eps));
                pm[c] = clamp01 (pm[c] + (((bits >> (8 + c)) & 1) ? eps : -eps));
            }
        }
        eval_point (op, mode, ps, pm, pd, o);
        for (int c = 0; c < 4; c++) { if (o[c] < lo[c]) lo[c] = o[c]; if (o[c] > hi[c]) hi[c] = o[c]; }
    }
}
