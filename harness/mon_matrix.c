/* Monitor for C11: fixed-point transform arithmetic against exact __int128 rationals.
 * An abort inside the library kills the monitor; the driver attributes the death to the
 * in-flight case (crash key). */
#include "vf.h"
#include <math.h>

typedef __int128 i128;
#define F1 65536

static const char *fx (pixman_fixed_t v) { static char b[8][32]; static int k; k = (k + 1) & 7; snprintf (b[k], 32, "0x%08x", (unsigned)v); return b[k]; }

/* round-to-nearest of a/b (b != 0); *tie set when exactly half way; result = the upper neighbour on a tie */
static i128 rn_div (i128 a, i128 b, int *tie)
{
    if (b < 0) { a = -a; b = -b; }
    i128 n = 2 * a + b, d = 2 * b;
    i128 q = n / d, r = n % d;
    if (r < 0) { q -= 1; r += d; }
    if (tie) *tie = (r == 0);
    return q;
}
static i128 floor_div (i128 a, i128 b)
{
    if (b < 0) { a = -a; b = -b; }
    i128 q = a / b, r = a % b;
    if (r < 0) q -= 1;
    return q;
}

static pixman_fixed_t gen_fixed (vf_rng *r)
{
    int k;
    switch (vf_next (r) % 14) {
    case 0: return 0;
    case 1: return vf_chance (r, 1, 2) ? 1 : -1;
    case 2: return vf_chance (r, 1, 2) ? F1 : -F1;
    case 3: k = (int)vf_range (r, 0, 30); return (pixman_fixed_t)(1u << k) * (vf_chance (r, 1, 2) ? 1 : -1);
    case 4: k = (int)vf_range (r, 2, 30); return (pixman_fixed_t)((1u << k) + (uint32_t)vf_range (r, -2, 2)) * (vf_chance (r, 1, 2) ? 1 : -1);
    case 5: return INT32_MIN;
    case 6: return INT32_MAX;
    case 7: return (pixman_fixed_t)vf_u32 (r);
    case 8: return (pixman_fixed_t)vf_range (r, -(1 << 20), 1 << 20);
    case 9: return (pixman_fixed_t)vf_range (r, -(1 << 26), 1 << 26);
    case 10: return (pixman_fixed_t)vf_range (r, -300, 300);
    case 11: return (pixman_fixed_t)(vf_range (r, -40, 40) * F1);
    case 12: return (pixman_fixed_t)(vf_range (r, -40, 40) * F1 + F1 / 2);
    default: return (pixman_fixed_t)vf_range (r, -3 * F1, 3 * F1);
    }
}

static void gen_matrix (vf_rng *r, pixman_transform_t *t, int *cls)
{
    int k = (int)(vf_next (r) % 8);
    *cls = k;
    for (int i = 0; i < 3; i++) for (int j = 0; j < 3; j++) t->matrix[i][j] = gen_fixed (r);
    switch (k) {
    case 0: case 1: /* affine */
        t->matrix[2][0] = t->matrix[2][1] = 0; t->matrix[2][2] = F1; break;
    case 2: /* moderate affine */
        for (int i = 0; i < 2; i++) for (int j = 0; j < 3; j++) t->matrix[i][j] = (pixman_fixed_t)vf_range (r, -8 * F1, 8 * F1);
        t->matrix[2][0] = t->matrix[2][1] = 0; t->matrix[2][2] = F1; break;
    case 3: /* bottom row (0,0,w) */
        t->matrix[2][0] = t->matrix[2][1] = 0; break;
    case 4: /* mild projective */
        t->matrix[2][0] = (pixman_fixed_t)vf_range (r, -2000, 2000); t->matrix[2][1] = (pixman_fixed_t)vf_range (r, -2000, 2000); t->matrix[2][2] = F1 + (pixman_fixed_t)vf_range (r, -F1 / 2, F1 / 2); break;
    case 5: /* the homogeneous divisor at +-2^k */
        t->matrix[2][0] = (pixman_fixed_t)((vf_chance (r, 1, 2) ? 1u : 0xffffffffu) * (1u << vf_range (r, 0, 31))); t->matrix[2][1] = 0; t->matrix[2][2] = vf_chance (r, 1, 2) ? 0 : gen_fixed (r); break;
    default: break;
    }
}

static int fits32 (i128 v) { return v >= INT32_MIN && v <= INT32_MAX; }

/* --------- transform_point --------- */
static void check_point (vf_rng *r)
{
    pixman_transform_t t; int cls; gen_matrix (r, &t, &cls);
    pixman_vector_t v, in;
    for (int i = 0; i < 3; i++) v.vector[i] = gen_fixed (r);
    int vk = (int)(vf_next (r) % 6);
    if (vk < 3) v.vector[2] = F1;
    if (vk == 3) v.vector[2] = (pixman_fixed_t)(1u << vf_range (r, 0, 30));
    if (cls == 5 && vf_chance (r, 1, 2)) v.vector[0] = (pixman_fixed_t)(1u << vf_range (r, 0, 30));
    /* engineer results near the representable limit (affine x) */
    if (cls <= 1 && vf_chance (r, 1, 3)) {
        pixman_fixed_t s = (pixman_fixed_t)vf_range (r, 1, 1 << 22); int64_t target = ((int64_t)1 << 47) + vf_range (r, -3 * s, 3 * s);
        if (vf_chance (r, 1, 2)) target = -target;
        t.matrix[0][0] = s; t.matrix[0][1] = 0; t.matrix[0][2] = (pixman_fixed_t)vf_range (r, -3, 3); v.vector[0] = (pixman_fixed_t)(target / s); v.vector[2] = F1;
    }
    in = v;
    i128 N[3];
    for (int i = 0; i < 3; i++) { N[i] = 0; for (int j = 0; j < 3; j++) N[i] += (i128)t.matrix[i][j] * in.vector[j]; }
    vf_inflight ("transform_point m=[%s %s %s; %s %s %s; %s %s %s] v=(%s %s %s)", fx (t.matrix[0][0]), fx (t.matrix[0][1]), fx (t.matrix[0][2]),
                 fx (t.matrix[1][0]), fx (t.matrix[1][1]), fx (t.matrix[1][2]), fx (t.matrix[2][0]), fx (t.matrix[2][1]), fx (t.matrix[2][2]),
                 fx (in.vector[0]), fx (in.vector[1]), fx (in.vector[2]));
    vf_case_desc ("transform_point m=[%s %s %s; %s %s %s; %s %s %s] v=(%s %s %s)", fx (t.matrix[0][0]), fx (t.matrix[0][1]), fx (t.matrix[0][2]),
                  fx (t.matrix[1][0]), fx (t.matrix[1][1]), fx (t.matrix[1][2]), fx (t.matrix[2][0]), fx (t.matrix[2][1]), fx (t.matrix[2][2]),
                  fx (in.vector[0]), fx (in.vector[1]), fx (in.vector[2]));
    pixman_bool_t ok = pixman_transform_point (&t, &v);
    vf_count ("evaluations", 1); vf_count ("point_calls", 1);
    i128 w = N[2];
    /* |w| < 65536  <=>  |N2| < 2^48 */
    int small_w = w > -((i128)1 << 48) && w < ((i128)1 << 48);
    int affine = (w == (i128)F1 * F1);
    const char *wc = w == 0 ? "w=0" : affine ? "w=1" : small_w ? "|w|<65536" : "|w|>=65536";
    if (w == 0) {
        if (ok) vf_violation ("C11:point-w-zero-true", "transform_point returned TRUE although the homogeneous coordinate is 0");
        vf_cell ("cells", vf_mix (1, cls));
        vf_label ("w_class", "%s", wc);
        return;
    }
    int tie[2]; i128 q[2];
    for (int i = 0; i < 2; i++) q[i] = rn_div (N[i] * F1, w, &tie[i]);
    int tol = small_w ? 0 : 1;
    int clearly_in = 1, clearly_out = 0;
    for (int i = 0; i < 2; i++) {
        if (q[i] - 1 - tol < INT32_MIN || q[i] + 1 + tol > INT32_MAX) clearly_in = 0;
        if (q[i] + 1 + tol < INT32_MIN || q[i] - 1 - tol > INT32_MAX) clearly_out = 1;
    }
    vf_label ("w_class", "%s/%s", wc, clearly_out ? "unrepresentable" : clearly_in ? "representable" : "at-limit");
    vf_cell ("cells", vf_mix (vf_mix (2, cls * 8 + vk), (small_w * 2 + affine) * 4 + clearly_in * 2 + clearly_out + 16 * (tie[0] || tie[1])));
    if (tie[0] || tie[1]) vf_count ("point_exact_ties", 1);
    if (clearly_out && ok) { vf_violation ("C11:point-wrapped-true", "TRUE with (%s,%s) but the exact result is not representable (%s)", fx (v.vector[0]), fx (v.vector[1]), wc); return; }
    if (clearly_in && !ok) { vf_violation (affine ? "C11:point-false-representable:affine" : "C11:point-false-representable:projective", "FALSE although the exact result (%lld,%lld) is representable (%s)", (long long)q[0], (long long)q[1], wc); return; }
    if (ok) {
        for (int i = 0; i < 2; i++) {
            i128 d = (i128)v.vector[i] - q[i];
            int good = (d >= -tol && d <= tol) || (tie[i] && d >= -1 - tol && d <= tol);
            if (!good) {
                vf_violation (affine ? "C11:point-value:affine" : small_w ? "C11:point-value:projective-exact" : "C11:point-value:projective-large-w",
                              "component %d is %s, exactly rounded result is 0x%08llx (%s, tolerance %d)", i, fx (v.vector[i]), (unsigned long long)(int64_t)q[i] & 0xffffffffull, wc, tol);
                return;
            }
        }
        if (v.vector[2] != F1) vf_violation ("C11:point-w-not-one", "TRUE but vector[2]=%s", fx (v.vector[2]));
    }
}

/* --------- transform_point_3d --------- */
static void check_point3d (vf_rng *r)
{
    pixman_transform_t t; int cls; gen_matrix (r, &t, &cls);
    pixman_vector_t v, in;
    for (int i = 0; i < 3; i++) v.vector[i] = gen_fixed (r);
    if (vf_chance (r, 1, 2)) v.vector[2] = F1;
    in = v;
    vf_inflight ("transform_point_3d m00=%s v0=%s", fx (t.matrix[0][0]), fx (in.vector[0]));
    vf_case_desc ("transform_point_3d m=[%s %s %s; %s %s %s; %s %s %s] v=(%s %s %s)", fx (t.matrix[0][0]), fx (t.matrix[0][1]), fx (t.matrix[0][2]),
                  fx (t.matrix[1][0]), fx (t.matrix[1][1]), fx (t.matrix[1][2]), fx (t.matrix[2][0]), fx (t.matrix[2][1]), fx (t.matrix[2][2]),
                  fx (in.vector[0]), fx (in.vector[1]), fx (in.vector[2]));
    pixman_bool_t ok = pixman_transform_point_3d (&t, &v);
    vf_count ("evaluations", 1); vf_count ("point3d_calls", 1);
    int all_fit = 1, tie_any = 0; i128 q[3]; int tie[3];
    for (int i = 0; i < 3; i++) {
        i128 N = 0; for (int j = 0; j < 3; j++) N += (i128)t.matrix[i][j] * in.vector[j];
        q[i] = rn_div (N, F1, &tie[i]); tie_any |= tie[i];
        if (!fits32 (q[i])) all_fit = 0;
    }
    vf_cell ("cells", vf_mix (vf_mix (3, cls), all_fit * 2 + tie_any));
    int near = 0; for (int i = 0; i < 3; i++) if (q[i] == (i128)INT32_MAX + 1 || q[i] == (i128)INT32_MIN - 1 || (tie[i] && (q[i] == (i128)INT32_MAX + 1))) near = 1;
    if (!all_fit && ok && !near) { vf_violation ("C11:point3d-wrapped-true", "TRUE although a component overflows"); return; }
    if (all_fit && !ok) { vf_violation ("C11:point3d-false-representable", "FALSE although (%lld,%lld,%lld) is representable", (long long)q[0], (long long)q[1], (long long)q[2]); return; }
    if (ok && all_fit) for (int i = 0; i < 3; i++) {
        i128 d = (i128)v.vector[i] - q[i];
        if (!(d == 0 || (tie[i] && d == -1))) { vf_violation ("C11:point3d-value", "component %d is %s, exact rounding gives 0x%08x", i, fx (v.vector[i]), (unsigned)(int64_t)q[i]); return; }
    }
}

/* --------- multiply (+ scale / rotate / translate which are compositions) --------- */
static int check_product (const char *what, const pixman_transform_t *l, const pixman_transform_t *rm, const pixman_transform_t *got, pixman_bool_t ok,
                          double extra_tol_units[3][3])
{
    /* exact E = sum l*r / 65536; the library rounds each product: |obs - E| <= 1.5 units (+ extra) */
    int overflow_clear = 0, in_clear = 1;
    i128 S[3][3];
    for (int i = 0; i < 3; i++) for (int j = 0; j < 3; j++) {
        S[i][j] = 0; for (int o = 0; o < 3; o++) S[i][j] += (i128)l->matrix[i][o] * rm->matrix[o][j];
        i128 q = floor_div (S[i][j], F1);
        double ex = extra_tol_units ? extra_tol_units[i][j] : 0;
        if (q + 3 + (i128)ex > INT32_MAX || q - 3 - (i128)ex < INT32_MIN) in_clear = 0;
        if (q - 3 - (i128)ex > INT32_MAX || q + 3 + (i128)ex < INT32_MIN) overflow_clear = 1;
    }
    char key[96];
    if (overflow_clear && ok) { snprintf (key, sizeof key, "C11:%s-true-on-overflow", what); vf_violation (key, "%s returned TRUE although an entry of the exact product overflows", what); return 1; }
    if (in_clear && !ok) { snprintf (key, sizeof key, "C11:%s-false-representable", what); vf_violation (key, "%s returned FALSE although every entry is representable", what); return 1; }
    if (ok) for (int i = 0; i < 3; i++) for (int j = 0; j < 3; j++) {
        /* |got*65536 - S| <= 1.5*65536 (+extra) */
        i128 d = (i128)got->matrix[i][j] * F1 - S[i][j]; if (d < 0) d = -d;
        double ex = extra_tol_units ? extra_tol_units[i][j] : 0;
        if ((double)d > (1.5 + ex) * F1 + 0.5) {
            snprintf (key, sizeof key, "C11:%s-value", what);
            vf_violation (key, "%s: entry [%d][%d] is %s, exact product/65536 = %.3f units (error %.3f units > %.3f)", what, i, j, fx (got->matrix[i][j]),
                          (double)S[i][j] / F1, (double)d / F1, 1.5 + ex);
            return 1;
        }
    }
    return 0;
}

static void desc_two (const char *what, const pixman_transform_t *a, const pixman_transform_t *b)
{
    vf_case_desc ("%s l=[%s %s %s; %s %s %s; %s %s %s] r=[%s %s %s; %s %s %s; %s %s %s]", what,
                  fx (a->matrix[0][0]), fx (a->matrix[0][1]), fx (a->matrix[0][2]), fx (a->matrix[1][0]), fx (a->matrix[1][1]), fx (a->matrix[1][2]), fx (a->matrix[2][0]), fx (a->matrix[2][1]), fx (a->matrix[2][2]),
                  fx (b->matrix[0][0]), fx (b->matrix[0][1]), fx (b->matrix[0][2]), fx (b->matrix[1][0]), fx (b->matrix[1][1]), fx (b->matrix[1][2]), fx (b->matrix[2][0]), fx (b->matrix[2][1]), fx (b->matrix[2][2]));
}

static void check_multiply (vf_rng *r)
{
    pixman_transform_t a, b, d; int ca, cb; gen_matrix (r, &a, &ca); gen_matrix (r, &b, &cb);
    if (vf_chance (r, 1, 2)) for (int i = 0; i < 3; i++) for (int j = 0; j < 3; j++) { a.matrix[i][j] >>= vf_range (r, 0, 16); b.matrix[i][j] >>= vf_range (r, 0, 16); }
    int alias = (int)(vf_next (r) % 3);
    pixman_transform_t l = a, rr = b;
    desc_two ("multiply", &a, &b);
    vf_inflight ("multiply alias=%d", alias);
    pixman_bool_t ok;
    if (alias == 0) ok = pixman_transform_multiply (&d, &a, &b);
    else if (alias == 1) { d = a; ok = pixman_transform_multiply (&d, &d, &b); }
    else { d = b; ok = pixman_transform_multiply (&d, &a, &d); }
    vf_count ("evaluations", 1); vf_count ("multiply_calls", 1);
    vf_cell ("cells", vf_mix (vf_mix (4, ca * 8 + cb), alias * 2 + (ok != 0)));
    check_product (alias == 0 ? "multiply" : alias == 1 ? "multiply-dst=l" : "multiply-dst=r", &l, &rr, &d, ok, NULL);
}

static void check_compose (vf_rng *r)
{
    pixman_transform_t f, rv, f0, r0, t; int c1, c2; gen_matrix (r, &f, &c1); gen_matrix (r, &rv, &c2);
    if (vf_chance (r, 2, 3)) for (int i = 0; i < 3; i++) for (int j = 0; j < 3; j++) { f.matrix[i][j] >>= vf_range (r, 4, 16); rv.matrix[i][j] >>= vf_range (r, 4, 16); }
    f0 = f; r0 = rv;
    pixman_fixed_t p = gen_fixed (r), q = gen_fixed (r);
    int which = (int)(vf_next (r) % 3);
    int use_f = vf_chance (r, 3, 4), use_r = vf_chance (r, 3, 4);
    pixman_bool_t ok;
    memset (&t, 0, sizeof t);
    vf_case_desc ("%s(%s,%s) forward=%d reverse=%d f00=%s r00=%s", which == 0 ? "scale" : which == 1 ? "rotate" : "translate", fx (p), fx (q), use_f, use_r, fx (f0.matrix[0][0]), fx (r0.matrix[0][0]));
    vf_inflight ("%s(%s,%s)", which == 0 ? "scale" : which == 1 ? "rotate" : "translate", fx (p), fx (q));
    vf_count ("evaluations", 1); vf_count ("compose_calls", 1);
    vf_cell ("cells", vf_mix (vf_mix (5, which), (use_f * 2 + use_r) * 16 + (p == INT32_MIN) + 2 * (q == INT32_MIN) + 4 * (p == 0 || q == 0)));
    if (which == 0) {
        ok = pixman_transform_scale (use_f ? &f : NULL, use_r ? &rv : NULL, p, q);
        if (p == 0 || q == 0) { if (ok) vf_violation ("C11:scale-zero-true", "scale by 0 returned TRUE"); return; }
        /* forward' = S * forward ; reverse' = reverse * S^-1 */
        t.matrix[0][0] = p; t.matrix[1][1] = q; t.matrix[2][2] = F1;
        int fbad = 0;
        pixman_transform_t ti; memset (&ti, 0, sizeof ti);
        /* reciprocal 2^32/x truncated; must be representable */
        int64_t ip = ((int64_t)F1 * F1) / p, iq = ((int64_t)F1 * F1) / q;
        int recip_fits = ip >= INT32_MIN && ip <= INT32_MAX && iq >= INT32_MIN && iq <= INT32_MAX;
        if (use_r && !recip_fits) {
            if (ok) vf_violation ("C11:scale-reciprocal-overflow", "scale(%s,%s) with a reverse matrix returned TRUE although 1/s = %lld / %lld (16.16) is not representable", fx (p), fx (q), (long long)ip, (long long)iq);
            return;
        }
        /* judge the two halves; a FALSE may come from either */
        pixman_transform_t gf = f, gr = rv;
        if (!ok) {
            /* FALSE is legitimate iff some product clearly may overflow: checked by check_product with ok=0 for both halves being in range */
            int f_in = 1, r_in = 1;
            if (use_f) { i128 S; for (int i = 0; i < 3; i++) for (int j = 0; j < 3; j++) { S = 0; for (int o = 0; o < 3; o++) S += (i128)t.matrix[i][o] * f0.matrix[o][j]; i128 qq = floor_div (S, F1); if (qq + 3 > INT32_MAX || qq - 3 < INT32_MIN) f_in = 0; } }
            if (use_r) { ti.matrix[0][0] = (pixman_fixed_t)ip; ti.matrix[1][1] = (pixman_fixed_t)iq; ti.matrix[2][2] = F1;
                         i128 S; for (int i = 0; i < 3; i++) for (int j = 0; j < 3; j++) { S = 0; for (int o = 0; o < 3; o++) S += (i128)r0.matrix[i][o] * ti.matrix[o][j]; i128 qq = floor_div (S, F1); if (qq + 3 > INT32_MAX || qq - 3 < INT32_MIN) r_in = 0; } }
            if (f_in && r_in) vf_violation ("C11:scale-false-representable", "scale returned FALSE although both results are representable");
            return;
        }
        if (use_f) fbad = check_product ("scale-forward", &t, &f0, &gf, ok, NULL);
        if (use_r && !fbad) {
            /* exact reverse = r0 * diag(1/p,1/q,1): compare with the truncated reciprocal the documentation implies: error <= |r0_ij| * 1 unit */
            ti.matrix[0][0] = (pixman_fixed_t)ip; ti.matrix[1][1] = (pixman_fixed_t)iq; ti.matrix[2][2] = F1;
            check_product ("scale-reverse", &r0, &ti, &gr, ok, NULL);
        }
    } else if (which == 1) {
        ok = pixman_transform_rotate (use_f ? &f : NULL, use_r ? &rv : NULL, p, q);
        if (q == INT32_MIN) {   /* -s is not representable: the only acceptable answers are FALSE or the mathematically right product */
            vf_count ("rotate_sin_int32_min", 1);
            if (ok) {
                /* reference with the true value +2^31 in wide arithmetic */
                int bad = 0;
                for (int pass = 0; pass < 2 && !bad; pass++) {
                    if (pass == 0 && !use_f) continue; if (pass == 1 && !use_r) continue;
                    i128 R[3][3] = { { p, pass == 0 ? -(i128)q : (i128)q, 0 }, { pass == 0 ? (i128)q : -(i128)q, p, 0 }, { 0, 0, F1 } };
                    for (int i = 0; i < 3 && !bad; i++) for (int j = 0; j < 3; j++) {
                        i128 S = 0; for (int o = 0; o < 3; o++) S += pass == 0 ? R[i][o] * f0.matrix[o][j] : (i128)r0.matrix[i][o] * R[o][j];
                        i128 d = (i128)(pass == 0 ? f.matrix[i][j] : rv.matrix[i][j]) * F1 - S; if (d < 0) d = -d;
                        if (d > (i128)2 * F1) { bad = 1; break; }
                    }
                }
                if (bad) vf_violation ("C11:rotate-negate-int32-min", "rotate with sin = INT32_MIN returned TRUE with a wrong matrix (-sin is not representable)");
            }
            return;
        }
        pixman_transform_t tf, tr; memset (&tf, 0, sizeof tf);
        tf.matrix[0][0] = p; tf.matrix[0][1] = -q; tf.matrix[1][0] = q; tf.matrix[1][1] = p; tf.matrix[2][2] = F1;
        tr = tf; tr.matrix[0][1] = q; tr.matrix[1][0] = -q;
        if (!ok) {
            int f_in = 1, r_in = 1; i128 S;
            if (use_f) for (int i = 0; i < 3; i++) for (int j = 0; j < 3; j++) { S = 0; for (int o = 0; o < 3; o++) S += (i128)tf.matrix[i][o] * f0.matrix[o][j]; i128 qq = floor_div (S, F1); if (qq + 3 > INT32_MAX || qq - 3 < INT32_MIN) f_in = 0; }
            if (use_r) for (int i = 0; i < 3; i++) for (int j = 0; j < 3; j++) { S = 0; for (int o = 0; o < 3; o++) S += (i128)r0.matrix[i][o] * tr.matrix[o][j]; i128 qq = floor_div (S, F1); if (qq + 3 > INT32_MAX || qq - 3 < INT32_MIN) r_in = 0; }
            if (f_in && r_in) vf_violation ("C11:rotate-false-representable", "rotate returned FALSE although both results are representable");
            return;
        }
        int fbad = 0;
        if (use_f) fbad = check_product ("rotate-forward", &tf, &f0, &f, ok, NULL);
        if (use_r && !fbad) check_product ("rotate-reverse", &r0, &tr, &rv, ok, NULL);
    } else {
        ok = pixman_transform_translate (use_f ? &f : NULL, use_r ? &rv : NULL, p, q);
        if ((p == INT32_MIN || q == INT32_MIN) && use_r) {
            vf_count ("translate_int32_min", 1);
            if (ok) {
                int bad = 0;
                i128 T[3][3] = { { F1, 0, -(i128)p }, { 0, F1, -(i128)q }, { 0, 0, F1 } };
                for (int i = 0; i < 3 && !bad; i++) for (int j = 0; j < 3; j++) {
                    i128 S = 0; for (int o = 0; o < 3; o++) S += (i128)r0.matrix[i][o] * T[o][j];
                    i128 d = (i128)rv.matrix[i][j] * F1 - S; if (d < 0) d = -d;
                    if (d > (i128)2 * F1) { bad = 1; break; }
                }
                if (bad) vf_violation ("C11:translate-negate-int32-min", "translate by INT32_MIN with a reverse matrix returned TRUE with a wrong matrix (-t is not representable)");
            }
            return;
        }
        pixman_transform_t tf, tr; memset (&tf, 0, sizeof tf);
        tf.matrix[0][0] = F1; tf.matrix[1][1] = F1; tf.matrix[2][2] = F1; tf.matrix[0][2] = p; tf.matrix[1][2] = q;
        tr = tf; tr.matrix[0][2] = -p; tr.matrix[1][2] = -q;
        if (!ok) {
            int f_in = 1, r_in = 1; i128 S;
            if (use_f) for (int i = 0; i < 3; i++) for (int j = 0; j < 3; j++) { S = 0; for (int o = 0; o < 3; o++) S += (i128)tf.matrix[i][o] * f0.matrix[o][j]; i128 qq = floor_div (S, F1); if (qq + 3 > INT32_MAX || qq - 3 < INT32_MIN) f_in = 0; }
            if (use_r) for (int i = 0; i < 3; i++) for (int j = 0; j < 3; j++) { S = 0; for (int o = 0; o < 3; o++) S += (i128)r0.matrix[i][o] * tr.matrix[o][j]; i128 qq = floor_div (S, F1); if (qq + 3 > INT32_MAX || qq - 3 < INT32_MIN) r_in = 0; }
            if (f_in && r_in) vf_violation ("C11:translate-false-representable", "translate returned FALSE although both results are representable");
            return;
        }
        int fbad = 0;
        if (use_f) fbad = check_product ("translate-forward", &tf, &f0, &f, ok, NULL);
        if (use_r && !fbad) check_product ("translate-reverse", &r0, &tr, &rv, ok, NULL);
    }
}

/* --------- bounds --------- */
static void check_bounds (vf_rng *r)
{
    pixman_transform_t t; int cls; gen_matrix (r, &t, &cls);
    int kind = (int)(vf_next (r) % 4);
    if (kind <= 1) {   /* moderate affine so that the corners are representable */
        for (int i = 0; i < 2; i++) { t.matrix[i][0] = (pixman_fixed_t)vf_range (r, -4 * F1, 4 * F1); t.matrix[i][1] = (pixman_fixed_t)vf_range (r, -4 * F1, 4 * F1); t.matrix[i][2] = (pixman_fixed_t)vf_range (r, -2000 * F1, 2000 * F1); }
        t.matrix[2][0] = t.matrix[2][1] = 0; t.matrix[2][2] = F1;
    }
    pixman_box16_t b, in;
    b.x1 = (int16_t)vf_range (r, -3000, 3000); b.y1 = (int16_t)vf_range (r, -3000, 3000);
    b.x2 = (int16_t)(b.x1 + vf_range (r, 0, 3000)); b.y2 = (int16_t)(b.y1 + vf_range (r, 0, 3000));
    if (kind == 2) {   /* a corner engineered into (32767, 32768) or near -32768 */
        memset (&t, 0, sizeof t); t.matrix[0][0] = F1; t.matrix[1][1] = F1; t.matrix[2][2] = F1;
        b.x1 = 0; b.y1 = 0; b.x2 = 10; b.y2 = 10;
        t.matrix[0][2] = (pixman_fixed_t)(vf_chance (r, 1, 2) ? 32757 * F1 + vf_range (r, -2, F1 + 2) : -32768 * F1 + vf_range (r, -2, 3 * F1));
        t.matrix[1][2] = (pixman_fixed_t)vf_range (r, -100 * F1, 100 * F1);
        if (vf_chance (r, 1, 2)) { pixman_fixed_t s = t.matrix[0][2]; t.matrix[0][2] = t.matrix[1][2]; t.matrix[1][2] = s; }
    }
    in = b;
    vf_case_desc ("bounds m=[%s %s %s; %s %s %s; %s %s %s] box=[%d,%d,%d,%d]", fx (t.matrix[0][0]), fx (t.matrix[0][1]), fx (t.matrix[0][2]),
                  fx (t.matrix[1][0]), fx (t.matrix[1][1]), fx (t.matrix[1][2]), fx (t.matrix[2][0]), fx (t.matrix[2][1]), fx (t.matrix[2][2]), in.x1, in.y1, in.x2, in.y2);
    vf_inflight ("bounds kind=%d", kind);
    pixman_bool_t ok = pixman_transform_bounds (&t, &b);
    vf_count ("evaluations", 1); vf_count ("bounds_calls", 1);
    /* corners, exactly */
    int cx[4] = { in.x1, in.x2, in.x2, in.x1 }, cy[4] = { in.y1, in.y1, in.y2, in.y2 };
    int any_fail = 0, any_unclear = 0;
    i128 lo[2] = { 0, 0 }, hi[2] = { 0, 0 };     /* floor / ceil in pixels over the rounded corners */
    int tol_any = 0;
    for (int c = 0; c < 4; c++) {
        i128 N[3]; pixman_fixed_t vv[3] = { (pixman_fixed_t)((uint32_t)cx[c] << 16), (pixman_fixed_t)((uint32_t)cy[c] << 16), F1 };
        for (int i = 0; i < 3; i++) { N[i] = 0; for (int j = 0; j < 3; j++) N[i] += (i128)t.matrix[i][j] * vv[j]; }
        if (N[2] == 0) { any_fail = 1; continue; }
        int small_w = N[2] > -((i128)1 << 48) && N[2] < ((i128)1 << 48);
        if (!small_w) tol_any = 1;
        for (int i = 0; i < 2; i++) {
            int tie; i128 q = rn_div (N[i] * F1, N[2], &tie);
            if (tie) any_unclear = 1;
            if (!fits32 (q)) { if (q > (i128)INT32_MAX + 2 || q < (i128)INT32_MIN - 2) any_fail = 1; else any_unclear = 1; continue; }
            i128 fl = floor_div (q, F1), ce = floor_div (q + F1 - 1, F1);
            if (c == 0 || fl < lo[i]) lo[i] = fl;
            if (c == 0 || ce > hi[i]) hi[i] = ce;
            /* a corner within 2 units of a pixel boundary or of the int32 limit: floor/ceil may legitimately differ */
            i128 fr = q - fl * F1; if (!small_w && (fr <= 1 || fr >= F1 - 1)) any_unclear = 1;
        }
    }
    vf_cell ("cells", vf_mix (vf_mix (6, kind * 8 + cls), any_fail * 4 + (ok != 0) * 2 + tol_any));
    if (any_unclear) { vf_count ("bounds_unclear_skipped", 1); return; }
    if (any_fail) { if (ok) vf_violation ("C11:bounds-true-corner-unrepresentable", "bounds returned TRUE although a transformed corner is not representable"); return; }
    int fits16 = lo[0] >= INT16_MIN && lo[1] >= INT16_MIN && hi[0] <= INT16_MAX && hi[1] <= INT16_MAX;
    if (!fits16) {
        vf_count ("bounds_box_overflows_int16", 1);
        if (ok) vf_violation ("C11:bounds-true-box-overflow", "bounds returned TRUE with [%d,%d,%d,%d] although the exact box [%lld,%lld,%lld,%lld] does not fit 16 bits",
                              b.x1, b.y1, b.x2, b.y2, (long long)lo[0], (long long)lo[1], (long long)hi[0], (long long)hi[1]);
        return;
    }
    if (!ok) { vf_violation ("C11:bounds-false-representable", "bounds returned FALSE although the box [%lld,%lld,%lld,%lld] is representable", (long long)lo[0], (long long)lo[1], (long long)hi[0], (long long)hi[1]); return; }
    if (b.x1 > lo[0] || b.y1 > lo[1] || b.x2 < hi[0] || b.y2 < hi[1])
        vf_violation ("C11:bounds-not-containing", "box [%d,%d,%d,%d] does not contain the transformed corners, need [%lld,%lld,%lld,%lld]", b.x1, b.y1, b.x2, b.y2, (long long)lo[0], (long long)lo[1], (long long)hi[0], (long long)hi[1]);
    else if (b.x1 < lo[0] - 1 || b.y1 < lo[1] - 1 || b.x2 > hi[0] + 1 || b.y2 > hi[1] + 1)
        vf_violation ("C11:bounds-too-loose", "box [%d,%d,%d,%d] is more than a pixel looser than [%lld,%lld,%lld,%lld]", b.x1, b.y1, b.x2, b.y2, (long long)lo[0], (long long)lo[1], (long long)hi[0], (long long)hi[1]);
}

/* --------- invert --------- */
static i128 det3 (const pixman_transform_t *t)
{
    const pixman_fixed_t (*m)[3] = t->matrix;
    return (i128)m[0][0] * ((i128)m[1][1] * m[2][2] - (i128)m[1][2] * m[2][1])
         - (i128)m[0][1] * ((i128)m[1][0] * m[2][2] - (i128)m[1][2] * m[2][0])
         + (i128)m[0][2] * ((i128)m[1][0] * m[2][1] - (i128)m[1][1] * m[2][0]);
}
static void check_invert (vf_rng *r)
{
    pixman_transform_t t, inv; int kind = (int)(vf_next (r) % 8);
    int lim = 1 << 24;   /* |entries| <= 2^8 */
    for (int i = 0; i < 3; i++) for (int j = 0; j < 3; j++) {
        switch (vf_next (r) % 4) {
        case 0: t.matrix[i][j] = (pixman_fixed_t)(vf_range (r, -8, 8) * F1); break;
        case 1: t.matrix[i][j] = (pixman_fixed_t)vf_range (r, -lim, lim); break;
        case 2: t.matrix[i][j] = (pixman_fixed_t)(vf_range (r, -64, 64) * (F1 / 16)); break;
        default: t.matrix[i][j] = (pixman_fixed_t)vf_range (r, -3 * F1, 3 * F1); break;
        }
    }
    if (kind == 0) { t.matrix[2][0] = t.matrix[2][1] = 0; t.matrix[2][2] = F1; }
    if (kind == 1) { /* singular: a row is an integer combination of the others */
        int a = (int)vf_range (r, -3, 3), b = (int)vf_range (r, -3, 3);
        for (int j = 0; j < 3; j++) { int64_t v = (int64_t)a * t.matrix[0][j] + (int64_t)b * t.matrix[1][j]; if (v > INT32_MAX || v < INT32_MIN) v = 0; t.matrix[2][j] = (pixman_fixed_t)v; }
        if (vf_chance (r, 1, 3)) { int p = (int)(vf_next (r) % 3); for (int j = 0; j < 3; j++) { pixman_fixed_t s = t.matrix[2][j]; t.matrix[2][j] = t.matrix[p][j]; t.matrix[p][j] = s; } }
    }
    if (kind == 2) { /* singular: a zero column or equal columns */
        int c = (int)(vf_next (r) % 3), c2 = (c + 1) % 3;
        for (int i = 0; i < 3; i++) t.matrix[i][c] = vf_chance (r, 1, 2) ? 0 : t.matrix[i][c2];
        if (vf_chance (r, 1, 2)) for (int i = 0; i < 3; i++) t.matrix[i][c] = 0;
    }
    if (kind == 3) { for (int i = 0; i < 3; i++) for (int j = 0; j < 3; j++) t.matrix[i][j] = gen_fixed (r); }   /* arbitrary: only the singular claim */
    if (kind >= 6) {
        /* the matrices callers invert most: multiples of the identity (the homogeneous entry scaled too, or not), diagonal scales, pure translations,
         * quarter turns - exact or with a few entries one to three units (1/65536) off */
        static const pixman_fixed_t ks[] = { F1, 2 * F1, F1 / 2, -F1, 4 * F1, 3 * F1, F1 / 4, F1 / 8, 8 * F1, -2 * F1 };
        pixman_fixed_t k = VF_PICK (r, ks); memset (&t, 0, sizeof t);
        switch (vf_next (r) % 5) {
        case 0: t.matrix[0][0] = t.matrix[1][1] = t.matrix[2][2] = k; break;
        case 1: t.matrix[0][0] = t.matrix[1][1] = k; t.matrix[2][2] = F1; break;
        case 2: t.matrix[0][0] = k; t.matrix[1][1] = VF_PICK (r, ks); t.matrix[2][2] = VF_PICK (r, ks); break;
        case 3: t.matrix[0][0] = t.matrix[1][1] = t.matrix[2][2] = F1; t.matrix[0][2] = (pixman_fixed_t)vf_range (r, -5, 5); t.matrix[1][2] = vf_chance (r, 1, 2) ? (pixman_fixed_t)vf_range (r, -5, 5) : (pixman_fixed_t)vf_range (r, -100 * F1, 100 * F1); break;
        default: t.matrix[0][1] = -k; t.matrix[1][0] = k; t.matrix[2][2] = F1; break;
        }
        int np = (int)(vf_next (r) % 4); for (int q2 = 0; q2 < np; q2++) t.matrix[vf_next (r) % 3][vf_next (r) % 3] += (pixman_fixed_t)vf_range (r, -3, 3);
    }
    i128 det = det3 (&t);
    vf_case_desc ("invert m=[%s %s %s; %s %s %s; %s %s %s]", fx (t.matrix[0][0]), fx (t.matrix[0][1]), fx (t.matrix[0][2]),
                  fx (t.matrix[1][0]), fx (t.matrix[1][1]), fx (t.matrix[1][2]), fx (t.matrix[2][0]), fx (t.matrix[2][1]), fx (t.matrix[2][2]));
    vf_inflight ("invert kind=%d", kind);
    int alias = vf_chance (r, 1, 3);
    pixman_bool_t ok;
    if (alias) { inv = t; ok = pixman_transform_invert (&inv, &inv); } else ok = pixman_transform_invert (&inv, &t);
    vf_count ("evaluations", 1); vf_count ("invert_calls", 1);
    vf_cell ("cells", vf_mix (vf_mix (7, kind), (det == 0) * 2 + (ok != 0)));
    if (det == 0) {
        vf_count ("invert_singular_inputs", 1);
        if (ok) vf_violation ("C11:invert-singular-true", "invert returned TRUE for an exactly singular matrix");
        return;
    }
    if (kind == 3) return;
    /* well conditioned?  |det_real| >= 2^-8  <=> |det| >= 2^(48-8) */
    i128 ad = det < 0 ? -det : det;
    if (ad < ((i128)1 << 40)) return;
    /* exact inverse entry (j,i) = cofactor(i,j) / det, in 16.16: cof has scale 2^32, det 2^48 -> value*65536 = cof * 2^32 / det */
    const pixman_fixed_t (*m)[3] = t.matrix;
    int in_range = 1, near = 0; i128 q[3][3];
    for (int i = 0; i < 3; i++) for (int j = 0; j < 3; j++) {
        int i1 = (i + 1) % 3, i2 = (i + 2) % 3, j1 = (j + 1) % 3, j2 = (j + 2) % 3;
        i128 cof = (i128)m[i1][j1] * m[i2][j2] - (i128)m[i1][j2] * m[i2][j1];
        int tie; q[j][i] = rn_div (cof * ((i128)1 << 32), det, &tie);
        i128 lim16 = (i128)32767 * F1;
        if (q[j][i] > lim16 + F1 + 2 || q[j][i] < -lim16 - F1 - 2) in_range = 0;
        else if (q[j][i] > lim16 - 2 || q[j][i] < -lim16 + 2) near = 1;
    }
    if (near) return;
    vf_count ("invert_well_conditioned", 1);
    if (!in_range) { if (ok) vf_violation ("C11:invert-true-unrepresentable", "invert returned TRUE although the exact inverse has an entry beyond +-32768"); return; }
    if (!ok) { vf_violation ("C11:invert-false-regular", "invert returned FALSE for a well-conditioned regular matrix whose inverse is representable"); return; }
    for (int i = 0; i < 3; i++) for (int j = 0; j < 3; j++) {
        i128 d = (i128)inv.matrix[i][j] - q[i][j]; if (d < 0) d = -d;
        if (d > 1) { vf_violation ("C11:invert-value", "inverse entry [%d][%d] is %s, exact is 0x%08x (off by %lld units)", i, j, fx (inv.matrix[i][j]), (unsigned)(int64_t)q[i][j], (long long)d); return; }
    }
}

/* --------- fixed <-> double --------- */
static void check_convert (vf_rng *r)
{
    pixman_transform_t t, back; pixman_f_transform_t f;
    for (int i = 0; i < 3; i++) for (int j = 0; j < 3; j++) t.matrix[i][j] = gen_fixed (r);
    vf_inflight ("f_transform_from_pixman_transform");
    pixman_f_transform_from_pixman_transform (&f, &t);
    vf_count ("evaluations", 2); vf_count ("convert_calls", 2);
    for (int i = 0; i < 3; i++) for (int j = 0; j < 3; j++)
        if (f.m[i][j] != ldexp ((double)t.matrix[i][j], -16)) { vf_violation ("C11:fixed-to-double", "%s converts to %.17g", fx (t.matrix[i][j]), f.m[i][j]); return; }
    /* and back: arbitrary doubles */
    int over = 0, unclear = 0; int64_t want[3][3]; int wtie[3][3];
    for (int i = 0; i < 3; i++) for (int j = 0; j < 3; j++) {
        double d;
        switch (vf_next (r) % 8) {
        case 0: d = ldexp ((double)gen_fixed (r), -16); break;
        case 1: d = ldexp ((double)gen_fixed (r), -16) + ldexp ((double)vf_range (r, -40000, 40000), -32); break;
        case 2: d = (vf_chance (r, 1, 2) ? 1 : -1) * (32767.0 + ldexp ((double)vf_range (r, -70000, 70000), -16)); break;
        case 3: d = (vf_unit (r) - 0.5) * 70000; break;
        case 4: d = (vf_unit (r) - 0.5) * 4; break;
        case 5: d = ldexp ((double)vf_range (r, -1000000, 1000000) + 0.5, -16); break;   /* exact ties */
        case 6: d = vf_chance (r, 1, 8) ? (vf_chance (r, 1, 2) ? INFINITY : -INFINITY) : (vf_unit (r) - 0.5) * 1e9; break;
        default: d = (vf_unit (r) - 0.5) * 60000; break;
        }
        f.m[i][j] = d;
        double ad = fabs (d);
        if (ad >= 32768.0) over = 1; else if (ad > 32767.0) unclear = 1;
        if (ad < 32768.0) {
            long double x = (long double)d * 65536.0L; long double fl = floorl (x); long double fr = x - fl;
            want[i][j] = (int64_t)fl + (fr >= 0.5L);
            wtie[i][j] = 0;
            if (fabsl (fr - 0.5L) < 1e-6L) { want[i][j] = (int64_t)fl; wtie[i][j] = 1; }     /* tie or near-tie: both neighbours accepted */
        }
    }
    vf_inflight ("transform_from_pixman_f_transform");
    pixman_bool_t ok = pixman_transform_from_pixman_f_transform (&back, &f);
    vf_cell ("cells", vf_mix (8, over * 4 + unclear * 2 + (ok != 0)));
    vf_case_desc ("from_f_transform m00=%.17g m01=%.17g m02=%.17g ...", f.m[0][0], f.m[0][1], f.m[0][2]);
    if (over) { if (ok) vf_violation ("C11:double-to-fixed-true-overflow", "conversion returned TRUE although an entry has |d| >= 32768"); return; }
    if (unclear) return;
    if (!ok) { vf_violation ("C11:double-to-fixed-false", "conversion returned FALSE although every |d| <= 32767"); return; }
    for (int i = 0; i < 3; i++) for (int j = 0; j < 3; j++) {
        int64_t w = want[i][j];
        int good = wtie[i][j] ? (back.matrix[i][j] == w || back.matrix[i][j] == w + 1) : back.matrix[i][j] == w;
        if (!good) { vf_violation ("C11:double-to-fixed-value", "%.17g converts to %s", f.m[i][j], fx (back.matrix[i][j])); return; }
    }
}

static void check_inits (vf_rng *r)
{
    pixman_transform_t t; pixman_fixed_t a = gen_fixed (r), b = gen_fixed (r);
    vf_inflight ("init_*");
    pixman_transform_init_identity (&t);
    int ok = 1;
    for (int i = 0; i < 3; i++) for (int j = 0; j < 3; j++) if (t.matrix[i][j] != (i == j ? F1 : 0)) ok = 0;
    pixman_transform_init_scale (&t, a, b);
    if (t.matrix[0][0] != a || t.matrix[1][1] != b || t.matrix[2][2] != F1 || t.matrix[0][1] || t.matrix[0][2] || t.matrix[1][0] || t.matrix[1][2] || t.matrix[2][0] || t.matrix[2][1]) ok = 0;
    pixman_transform_init_translate (&t, a, b);
    if (t.matrix[0][0] != F1 || t.matrix[1][1] != F1 || t.matrix[2][2] != F1 || t.matrix[0][2] != a || t.matrix[1][2] != b || t.matrix[0][1] || t.matrix[1][0] || t.matrix[2][0] || t.matrix[2][1]) ok = 0;
    if (b != INT32_MIN) {
        pixman_transform_init_rotate (&t, a, b);
        if (t.matrix[0][0] != a || t.matrix[1][1] != a || t.matrix[0][1] != -b || t.matrix[1][0] != b || t.matrix[2][2] != F1 || t.matrix[0][2] || t.matrix[1][2] || t.matrix[2][0] || t.matrix[2][1]) ok = 0;
    }
    vf_count ("evaluations", 4);
    if (!ok) vf_violation ("C11:init-matrix", "an init_* function produced a wrong matrix for (%s,%s)", fx (a), fx (b));
}

static void directed (long only);
static void matrix_case (long idx, vf_rng *rng)
{
    if (idx < 9) { directed (idx); return; }
    for (int k = 0; k < 200; k++) {
        switch (vf_next (rng) % 16) {
        case 0: case 1: case 2: case 3: case 4: case 5: check_point (rng); break;
        case 6: case 7: check_point3d (rng); break;
        case 8: case 9: check_multiply (rng); break;
        case 10: case 11: check_compose (rng); break;
        case 12: check_bounds (rng); break;
        case 13: check_invert (rng); break;
        case 14: check_convert (rng); break;
        default: if (vf_chance (rng, 1, 4)) check_inits (rng); else check_bounds (rng); break;
        }
    }
    if (idx < 2) vf_sample ("case %ld: 200 calls mixed over transform_point / point_3d / multiply / scale / rotate / translate / bounds / invert / conversions, each compared with __int128 rationals", idx);
}

/* directed cases from the property text: divisor exactly -2^32 etc. */
#define NDIRECTED 9
static void directed (long only)
{
    static const int32_t mv[][2] = { { INT32_MIN, 2 * F1 }, { INT32_MIN, 4 * F1 }, { INT32_MIN, F1 }, { INT32_MAX, 2 * F1 }, { -F1, F1 }, { 1, 1 }, { -1, 1 }, { INT32_MIN, INT32_MIN }, { INT32_MIN, INT32_MAX } };
    for (unsigned k = 0; k < sizeof mv / sizeof mv[0]; k++) {
        if ((long)k != only) continue;
        pixman_transform_t t; pixman_vector_t v = { { mv[k][1], F1, 0 } }, in;
        memset (&t, 0, sizeof t); t.matrix[0][0] = F1; t.matrix[1][1] = F1; t.matrix[2][0] = mv[k][0];
        in = v;
        vf_inflight ("directed transform_point m20=%s vx=%s", fx (mv[k][0]), fx (mv[k][1]));
        vf_case_desc ("directed transform_point m=[1 0 0;0 1 0;%s 0 0] v=(%s,1,0)", fx (mv[k][0]), fx (mv[k][1]));
        pixman_bool_t ok = pixman_transform_point (&t, &v);
        i128 w = (i128)mv[k][0] * mv[k][1]; int tie; i128 q = rn_div ((i128)F1 * in.vector[0] * F1, w, &tie);
        vf_count ("evaluations", 1); vf_count ("directed_cases", 1);
        if (fits32 (q) && q > INT32_MIN + 2 && q < INT32_MAX - 2) {
            i128 d = (i128)v.vector[0] - q; if (d < 0) d = -d;
            if (!ok) vf_violation ("C11:point-false-representable:projective", "directed case returned FALSE");
            else if (d > 1) vf_violation ("C11:point-value:projective-large-w", "directed case: x=%s, exact 0x%08x", fx (v.vector[0]), (unsigned)(int64_t)q);
        }
    }
}
int main (int argc, char **argv) { return vf_main (argc, argv, "C11", NULL, matrix_case, NULL); }
