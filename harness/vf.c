#define _GNU_SOURCE
#include "vf.h"
#include <signal.h>
#include <unistd.h>
#include <fcntl.h>
#include <errno.h>
#include <execinfo.h>
#include <sys/mman.h>
#include <sys/time.h>
#include <sys/resource.h>

vf_ctx vf;
static FILE *out;
static int out_fd = 2;
static char *inflight;           /* mmap'ed 4096-byte record (or static buffer) */
static char inflight_static[4096];
static char case_desc[2048];
static int n_viol;

/* ---------------- PRNG ---------------- */
static uint64_t splitmix (uint64_t *x)
{
    uint64_t z = (*x += 0x9e3779b97f4a7c15ull);
    z = (z ^ (z >> 30)) * 0xbf58476d1ce4e5b9ull;
    z = (z ^ (z >> 27)) * 0x94d049bb133111ebull;
    return z ^ (z >> 31);
}
void vf_rng_seed (vf_rng *r, uint64_t a, uint64_t b, uint64_t c)
{
    uint64_t x = a * 0x2545f4914f6cdd1dull ^ (b + 0x632be59bd9b4e019ull) * 0x9e3779b97f4a7c15ull ^ (c << 17 | c >> 47);
    for (int i = 0; i < 4; i++) r->s[i] = splitmix (&x);
}
static inline uint64_t rotl (uint64_t x, int k) { return (x << k) | (x >> (64 - k)); }
uint64_t vf_next (vf_rng *r)
{
    uint64_t *s = r->s, res = rotl (s[1] * 5, 7) * 9, t = s[1] << 17;
    s[2] ^= s[0]; s[3] ^= s[1]; s[1] ^= s[2]; s[0] ^= s[3]; s[2] ^= t; s[3] = rotl (s[3], 45);
    return res;
}
uint64_t vf_hash (const void *p, size_t n, uint64_t seed)
{
    const uint8_t *b = p; uint64_t h = seed ^ 0xcbf29ce484222325ull;
    size_t i = 0;
    for (; i + 8 <= n; i += 8) { uint64_t v; memcpy (&v, b + i, 8); h = vf_mix (h, v); }
    for (; i < n; i++) h = (h ^ b[i]) * 0x100000001b3ull;
    return vf_mix (h, n);
}

/* ---------------- counters / sets ---------------- */
#define MAXC 512
static struct { const char *name; int64_t v; int is_max; } ctr[MAXC];
static int nctr;
static int ctr_find (const char *name, int is_max)
{
    for (int i = 0; i < nctr; i++) if (ctr[i].name == name || !strcmp (ctr[i].name, name)) return i;
    if (nctr == MAXC) vf_fatal ("too many counters");
    ctr[nctr].name = strdup (name); ctr[nctr].v = 0; ctr[nctr].is_max = is_max;
    return nctr++;
}
void vf_count (const char *name, int64_t add) { ctr[ctr_find (name, 0)].v += add; }
void vf_max (const char *name, int64_t v) { int i = ctr_find (name, 1); if (v > ctr[i].v) ctr[i].v = v; }

#define MAXSETS 32
static struct { const char *name; uint64_t *tab; size_t cap, n; } sets[MAXSETS];
static int nsets;
void vf_cell (const char *set, uint64_t h)
{
    int i;
    if (!h) h = 1;
    for (i = 0; i < nsets; i++) if (sets[i].name == set || !strcmp (sets[i].name, set)) break;
    if (i == nsets) {
        if (nsets == MAXSETS) vf_fatal ("too many sets");
        sets[i].name = strdup (set); sets[i].cap = 1024; sets[i].n = 0;
        sets[i].tab = calloc (sets[i].cap, 8); nsets++;
    }
    if (sets[i].n * 2 >= sets[i].cap) {
        if (sets[i].cap >= (1u << 20)) return;      /* cap: count conservatively */
        size_t oc = sets[i].cap; uint64_t *ot = sets[i].tab;
        sets[i].cap *= 2; sets[i].tab = calloc (sets[i].cap, 8);
        for (size_t k = 0; k < oc; k++) if (ot[k]) {
            size_t p = ot[k] & (sets[i].cap - 1);
            while (sets[i].tab[p]) p = (p + 1) & (sets[i].cap - 1);
            sets[i].tab[p] = ot[k];
        }
        free (ot);
    }
    size_t p = h & (sets[i].cap - 1);
    while (sets[i].tab[p]) { if (sets[i].tab[p] == h) return; p = (p + 1) & (sets[i].cap - 1); }
    sets[i].tab[p] = h; sets[i].n++;
}

#define MAXLAB 8192
static struct { char *set; char *lab; int64_t n; } vlabs[MAXLAB];
static int nlabs;
static uint16_t labhash[1 << 15];
void vf_label (const char *set, const char *fmt, ...)
{
    char buf[256]; va_list ap; va_start (ap, fmt); vsnprintf (buf, sizeof buf, fmt, ap); va_end (ap);
    for (char *c = buf; *c; c++) if (*c == '\t' || *c == '\n') *c = ' ';
    uint64_t h = vf_hash (buf, strlen (buf), vf_hash (set, strlen (set), 7));
    size_t p = h & ((1 << 15) - 1);
    while (labhash[p]) {
        int i = labhash[p] - 1;
        if (!strcmp (vlabs[i].lab, buf) && !strcmp (vlabs[i].set, set)) { vlabs[i].n++; return; }
        p = (p + 1) & ((1 << 15) - 1);
    }
    if (nlabs == MAXLAB) return;
    vlabs[nlabs].set = strdup (set); vlabs[nlabs].lab = strdup (buf); vlabs[nlabs].n = 1;
    labhash[p] = ++nlabs;
}

static int nsamples;
static void emit_sample (int maxn, const char *fmt, va_list ap)
{
    if (nsamples >= maxn || !out) return;
    char buf[1500]; vsnprintf (buf, sizeof buf, fmt, ap);
    for (char *c = buf; *c; c++) if (*c == '\t' || *c == '\n') *c = ' ';
    fprintf (out, "X\t%s\n", buf); nsamples++;
}
void vf_sample (const char *fmt, ...) { va_list ap; va_start (ap, fmt); emit_sample (4, fmt, ap); va_end (ap); }
void vf_sample_n (int maxn, const char *fmt, ...) { va_list ap; va_start (ap, fmt); emit_sample (maxn, fmt, ap); va_end (ap); }

void vf_inflight (const char *fmt, ...)
{
    char *p = inflight ? inflight : inflight_static;
    int n = snprintf (p, 200, "case=%ld config=%s | ", vf.case_idx, vf.config ? vf.config : "-");
    va_list ap; va_start (ap, fmt); vsnprintf (p + n, 4000 - n, fmt, ap); va_end (ap);
}
void vf_case_desc (const char *fmt, ...)
{
    va_list ap; va_start (ap, fmt); vsnprintf (case_desc, sizeof case_desc, fmt, ap); va_end (ap);
    for (char *c = case_desc; *c; c++) if (*c == '\t' || *c == '\n') *c = ' ';
}

#define MAXVK 256
static struct { char *key; int n; } vkeys[MAXVK];
static int nvk;
void vf_violation (const char *key, const char *fmt, ...)
{
    char buf[3000]; va_list ap; int i;
    n_viol++;
    for (i = 0; i < nvk; i++) if (!strcmp (vkeys[i].key, key)) break;
    if (i == nvk) { if (nvk < MAXVK) { vkeys[nvk].key = strdup (key); vkeys[nvk].n = 0; nvk++; } else i = MAXVK - 1; }
    if (++vkeys[i].n > 3 && vf.only < 0) return;     /* first 3 witnesses per key and shard; the rest are counted */
    va_start (ap, fmt); vsnprintf (buf, sizeof buf, fmt, ap); va_end (ap);
    for (char *c = buf; *c; c++) if (*c == '\t' || *c == '\n') *c = ' ';
    if (out) {
        fprintf (out, "V\t%s\t%ld\t%s\t%s\n", key, vf.case_idx, buf, case_desc);
        fflush (out);
    }
    if (vf.verbose) fprintf (stderr, "VIOLATION %s case=%ld %s | %s\n", key, vf.case_idx, buf, case_desc);
}
int vf_violations_so_far (void) { return n_viol; }

/* per-case digest, compared across runs (implementation chains) by the driver */
void vf_digest_line (long idx, uint64_t digest, const char *label)
{
    if (out) fprintf (out, "D\t%ld\t%016llx\t%s\t%s\n", idx, (unsigned long long)digest, label, case_desc);
}

void vf_fatal (const char *fmt, ...)
{
    va_list ap; va_start (ap, fmt);
    fprintf (stderr, "VF-HARNESS-FAILURE: "); vfprintf (stderr, fmt, ap); fprintf (stderr, "\n"); va_end (ap);
    if (out) { fprintf (out, "F\tharness failure\n"); fflush (out); }
    _exit (2);
}

/* hook entry point used by the PIXMAN_VERIF hooks in the library (logical-step verdicts) */
void _pixman_verif_fail (const char *what)
{
    char b[256]; int n = snprintf (b, sizeof b, "\nK\thook\t%s\t%ld\n", what, vf.case_idx);
    if (out) fflush (out);
    if (write (out_fd, b, n) < 0) {}
    _exit (73);
}

static void dump_summary (void)
{
    for (int i = 0; i < nctr; i++) fprintf (out, "%c\t%s\t%lld\n", ctr[i].is_max ? 'M' : 'C', ctr[i].name, (long long)ctr[i].v);
    for (int i = 0; i < nvk; i++) fprintf (out, "N\t%s\t%d\n", vkeys[i].key, vkeys[i].n);
    for (int i = 0; i < nsets; i++)
        for (size_t k = 0; k < sets[i].cap; k++) if (sets[i].tab[k]) fprintf (out, "H\t%s\t%llx\n", sets[i].name, (unsigned long long)sets[i].tab[k]);
    for (int i = 0; i < nlabs; i++) fprintf (out, "L\t%s\t%s\t%lld\n", vlabs[i].set, vlabs[i].lab, (long long)vlabs[i].n);
}

/* ---------------- crash / hang attribution ---------------- */
static void on_signal (int sig, siginfo_t *si, void *uc)
{
    void *bt[48]; char b[1600]; int n, k;
    k = backtrace (bt, 48);
    n = snprintf (b, sizeof b, "\nK\t%s\t%d\t%ld\t%p\t", sig == SIGVTALRM ? "hang" : "signal", sig, vf.case_idx,
                  sig == SIGVTALRM ? NULL : si->si_addr);
    for (int i = 0; i < k && n < 1500; i++) n += snprintf (b + n, sizeof b - n, "%p,", bt[i]);
    b[n++] = '\n';
    if (write (out_fd, b, n) < 0) {}
    _exit (sig == SIGVTALRM ? 72 : 70);
}
static void install_handlers (void)
{
    struct sigaction sa; memset (&sa, 0, sizeof sa);
    sa.sa_sigaction = on_signal; sa.sa_flags = SA_SIGINFO | SA_ONSTACK;
    static char altstack[1 << 16]; stack_t ss = { altstack, 0, sizeof altstack };
    sigaltstack (&ss, NULL);
    { void *bt[4]; backtrace (bt, 4); }   /* force libgcc load outside the handler */
#if !defined(VF_FLAVOUR_ASAN) && !defined(VF_FLAVOUR_UBSAN) && !defined(VF_FLAVOUR_TSAN)
    sigaction (SIGSEGV, &sa, NULL); sigaction (SIGBUS, &sa, NULL);
#endif
    sigaction (SIGFPE, &sa, NULL); sigaction (SIGILL, &sa, NULL); sigaction (SIGABRT, &sa, NULL);
    sigaction (SIGVTALRM, &sa, NULL);
}
static long case_cpu_limit = 60;
static void arm_case_timer (void)
{
    struct itimerval it = { {0, 0}, {case_cpu_limit, 0} };
    setitimer (ITIMER_VIRTUAL, &it, NULL);
}

const char *vf_chain_env (void) { const char *e = getenv ("PIXMAN_DISABLE"); return e ? e : ""; }

int vf_main (int argc, char **argv, const char *prop, void (*init) (void), vf_case_fn fn, void (*fini) (void))
{
    const char *outp = NULL, *infl = NULL;
    vf.prop = prop; vf.seed = 1; vf.shard = 0; vf.nshards = 1; vf.cases = 100; vf.start = 0; vf.only = -1;
    vf.tier = "quick"; vf.config = "default";
    for (int i = 1; i < argc; i++) {
        const char *a = argv[i], *v = i + 1 < argc ? argv[i + 1] : "";
        if (!strcmp (a, "--seed")) { vf.seed = strtoull (v, 0, 0); i++; }
        else if (!strcmp (a, "--shard")) { sscanf (v, "%d/%d", &vf.shard, &vf.nshards); i++; }
        else if (!strcmp (a, "--cases")) { vf.cases = atol (v); i++; }
        else if (!strcmp (a, "--start")) { vf.start = atol (v); i++; }
        else if (!strcmp (a, "--only")) { vf.only = atol (v); vf.verbose = 1; i++; }
        else if (!strcmp (a, "--tier")) { vf.tier = v; i++; }
        else if (!strcmp (a, "--config")) { vf.config = v; i++; }
        else if (!strcmp (a, "--out")) { outp = v; i++; }
        else if (!strcmp (a, "--inflight")) { infl = v; i++; }
        else if (!strcmp (a, "--case-cpu-limit")) { case_cpu_limit = atol (v); i++; }
        else if (!strcmp (a, "--prop")) { vf.prop = prop = v; i++; }
        else if (!strcmp (a, "--verbose")) vf.verbose = 1;
        else vf_fatal ("unknown argument %s", a);
    }
    vf.thorough = !strcmp (vf.tier, "thorough");
    if (outp) {
        out = fopen (outp, "a"); if (!out) vf_fatal ("cannot open %s", outp);
        out_fd = fileno (out);
    } else { out = stdout; out_fd = 1; }
    if (infl) {
        int fd = open (infl, O_RDWR | O_CREAT, 0644);
        if (fd < 0 || ftruncate (fd, 4096) < 0) vf_fatal ("inflight file");
        inflight = mmap (NULL, 4096, PROT_READ | PROT_WRITE, MAP_SHARED, fd, 0);
        if (inflight == MAP_FAILED) vf_fatal ("inflight mmap");
        close (fd);
    }
    install_handlers ();
    fprintf (out, "B\t%s\tseed=%llu\tshard=%d/%d\tcases=%ld\tstart=%ld\tconfig=%s\tchain=%s\n", prop,
             (unsigned long long)vf.seed, vf.shard, vf.nshards, vf.cases, vf.start, vf.config, vf_chain_env ());
    fflush (out);
    vf.case_idx = -1;
    if (init) init ();
    uint64_t ph = vf_hash (prop, strlen (prop), 99);
    long ran = 0;
    for (long idx = vf.shard; idx < vf.cases; idx += vf.nshards) {
        if (idx < vf.start) continue;
        if (vf.only >= 0 && idx != vf.only) continue;
        vf_rng rng; vf_rng_seed (&rng, vf.seed, ph, (uint64_t)idx);
        vf.case_idx = idx; case_desc[0] = 0;
        vf_inflight ("(case start)");
        arm_case_timer ();
        fn (idx, &rng);
        ran++;
    }
    if (vf.only >= 0 && ran == 0 && vf.only % vf.nshards == vf.shard) vf_fatal ("case %ld not in range", vf.only);
    { struct itimerval it = { {0, 0}, {0, 0} }; setitimer (ITIMER_VIRTUAL, &it, NULL); }
    vf.case_idx = -2;
    vf_inflight ("(finish)");
    if (fini) fini ();
    vf_count ("cases_run", ran);
    dump_summary ();
    fprintf (out, "E\tok\t%d\n", n_viol);
    fflush (out);
    return 0;
}

/* ---------------- guarded storage ---------------- */
static size_t pagesz_v;
static __attribute__ ((constructor)) void pagesz_init (void) { pagesz_v = (size_t)sysconf (_SC_PAGESIZE); }      /* set before any thread exists (C16 allocates from several threads) */
static size_t pagesz (void) { return pagesz_v; }
int vf_default_place (vf_rng *r)
{
#if defined(VF_FLAVOUR_ASAN) || defined(VF_FLAVOUR_UBSAN)
    int k = (int)(vf_next (r) % 4);
    return k < 2 ? VF_PLACE_MALLOC : k == 2 ? VF_PLACE_END : VF_PLACE_START;
#else
    return vf_chance (r, 2, 3) ? VF_PLACE_END : VF_PLACE_START;
#endif
}
int vf_buf_alloc (vf_buf *b, pixman_format_code_t fmt, int w, int h, int pad_words, int neg, int place)
{
    return vf_buf_alloc_raw (b, fmt, PIXMAN_FORMAT_BPP (fmt), w, h, pad_words, neg, place);
}
int vf_buf_alloc_raw (vf_buf *b, pixman_format_code_t fmt, int bpp, int w, int h, int pad_words, int neg, int place)
{
    memset (b, 0, sizeof *b);
    b->fmt = fmt; b->w = w; b->h = h; b->bpp = bpp; b->place = place;
    int64_t rowbits = (int64_t)w * b->bpp;
    b->rowbytes = (int)((rowbits + 31) / 32 * 4);
    if (bpp == 128) pad_words = (pad_words + 3) & ~3;      /* pixman requires 16-byte multiples for 128-bpp strides */
    int stride = b->rowbytes + 4 * pad_words;
    if (h <= 1 && !pad_words) stride = b->rowbytes;
    b->bytes = h > 0 ? (size_t)(h - 1) * stride + b->rowbytes : 0;
    size_t ps = pagesz (), body = (b->bytes + ps - 1) / ps * ps;
    if (body == 0) body = ps;
    if (place == VF_PLACE_MALLOC) {
        b->map = malloc (b->bytes ? b->bytes : 1); b->map_len = 0;
        if (!b->map) return 0;
        b->base = b->map;
    } else {
        b->map_len = body + 2 * ps;
        b->map = mmap (NULL, b->map_len, PROT_READ | PROT_WRITE, MAP_PRIVATE | MAP_ANONYMOUS, -1, 0);
        if (b->map == MAP_FAILED) { b->map = NULL; return 0; }
        mprotect (b->map, ps, PROT_NONE);
        mprotect (b->map + ps + body, ps, PROT_NONE);
        b->base = place == VF_PLACE_END ? b->map + ps + body - b->bytes : b->map + ps;
    }
    if (neg && h > 0) { b->bits = (uint32_t *)(b->base + (size_t)(h - 1) * stride); b->stride = -stride; }
    else { b->bits = (uint32_t *)b->base; b->stride = stride; }
    return 1;
}
void vf_buf_free (vf_buf *b)
{
    if (b->map) { if (b->place == VF_PLACE_MALLOC) free (b->map); else munmap (b->map, b->map_len); }
    free (b->snap); memset (b, 0, sizeof *b);
}
void vf_buf_fill_random (vf_buf *b, vf_rng *r)
{
    size_t i = 0;
    for (; i + 8 <= b->bytes; i += 8) { uint64_t v = vf_next (r); memcpy (b->base + i, &v, 8); }
    for (; i < b->bytes; i++) b->base[i] = (uint8_t)vf_next (r);
}
void vf_buf_snapshot (vf_buf *b)
{
    free (b->snap); b->snap = malloc (b->bytes ? b->bytes : 1); memcpy (b->snap, b->base, b->bytes);
}
pixman_image_t *vf_buf_image (vf_buf *b)
{
    return pixman_image_create_bits_no_clear (b->fmt, b->w, b->h, b->bits, b->stride);
}
uint32_t vf_get_px (const uint8_t *row, int bpp, int x)
{
    switch (bpp) {
    case 1: return (row[x >> 3] >> (x & 7)) & 1;
    case 4: return (row[x >> 1] >> ((x & 1) * 4)) & 15;
    case 8: return row[x];
    case 16: return row[2 * x] | row[2 * x + 1] << 8;
    case 24: return row[3 * x] | row[3 * x + 1] << 8 | (uint32_t)row[3 * x + 2] << 16;
    case 32: { uint32_t v; memcpy (&v, row + 4 * (size_t)x, 4); return v; }
    }
    return 0;
}
void vf_put_px (uint8_t *row, int bpp, int x, uint32_t v)
{
    switch (bpp) {
    case 1: row[x >> 3] = (row[x >> 3] & ~(1 << (x & 7))) | ((v & 1) << (x & 7)); break;
    case 4: row[x >> 1] = (row[x >> 1] & ~(15 << ((x & 1) * 4))) | ((v & 15) << ((x & 1) * 4)); break;
    case 8: row[x] = v; break;
    case 16: row[2 * x] = v; row[2 * x + 1] = v >> 8; break;
    case 24: row[3 * x] = v; row[3 * x + 1] = v >> 8; row[3 * x + 2] = v >> 16; break;
    case 32: memcpy (row + 4 * (size_t)x, &v, 4); break;
    }
}
