/* Monitor for C16: T threads issue drawing / region / trapezoid / glyph calls concurrently on thread-private
 * destinations; sources are private, or shared images (and shared regions) that the main thread has used once
 * before the threads start and that nobody modifies afterwards - the statement's precondition.
 * Two oracles: (1) ThreadSanitizer (tsan flavour; the library is instrumented) watches every access of the
 * executed interleavings; (2) every stream is first run alone on the main thread, and each call's result
 * digest in the concurrent run must equal the digest obtained alone.
 * Threads keep everything in per-thread records; all monitor bookkeeping (counters, violations) is done by
 * the main thread after the join. */
#include "vf.h"
#include "vf_req.h"
#include "ref_ops.h"
#include "ref_pixel.h"
#include <pthread.h>
#include <sched.h>

#define MAXTHREADS 16
#define MAXOPS 48
#define NSHARED 10
enum { K_PRIVATE, K_SHARED_SRC, K_WIDE, K_FILL, K_REGION, K_TRAPS, K_GLYPHS, K_BLT, K_FILTER, K_NKINDS };
static const char *kname[] = { "composite-private-images", "composite-shared-source", "composite-long-scanline", "fill_boxes", "region-algebra", "trapezoids-triangles", "glyphs", "blt-fill", "filter-tables-matrix" };

typedef struct { int tid, nops; uint64_t seed; uint64_t dig[MAXOPS]; uint8_t kind[MAXOPS]; char what[MAXOPS][40]; long pixels; } stream_t;
static stream_t serial[MAXTHREADS], conc[MAXTHREADS];
static rq_request shared[NSHARED]; static int nshared;
static pixman_region32_t shreg[3];
static pthread_barrier_t barrier;
static int yield_mode;
static int no_shared;      /* cold-start rounds: nothing has used the library before the threads do */

static uint64_t image_digest (pixman_image_t *img)
{
    int h = pixman_image_get_height (img), st = pixman_image_get_stride (img);
    return vf_hash (pixman_image_get_data (img), (size_t)st * h, 0x16);
}
static uint64_t region_digest (pixman_region32_t *r) { int n; pixman_box32_t *b = pixman_region32_rectangles (r, &n); return vf_hash (b, (size_t)n * sizeof *b, (uint64_t)n * 77 + (uint64_t)pixman_region32_extents (r)->x1); }
static void maybe_yield (vf_rng *r)
{
    if (!yield_mode) return;
    int k = (int)(vf_next (r) % 8);
    if (k < 3) sched_yield (); else if (k == 3) { volatile int s = 0; for (int i = 0; i < 2000; i++) s += i; }
}
static pixman_image_t *shared_src (vf_rng *r) { uint64_t k = vf_next (r); if (no_shared) return NULL; rq_request *q = &shared[k % nshared]; return q->src.img; }
static pixman_image_t *shared_mask (vf_rng *r) { uint64_t k = vf_next (r); if (no_shared) return NULL; rq_request *q = &shared[k % nshared]; return q->has_mask && q->mask.img ? q->mask.img : NULL; }
static pixman_image_t *own_solid (vf_rng *r) { pixman_color_t c = { (uint16_t)vf_next (r), (uint16_t)vf_next (r), (uint16_t)vf_next (r), (uint16_t)(vf_next (r) | 0x8000) }; return pixman_image_create_solid_fill (&c); }

static void random_region (vf_rng *r, pixman_region32_t *out)
{
    pixman_box32_t b[12]; int n = (int)vf_range (r, 0, 12);
    for (int i = 0; i < n; i++) { b[i].x1 = (int)vf_range (r, -40, 40); b[i].x2 = b[i].x1 + (int)vf_range (r, 1, 30); b[i].y1 = (int)vf_range (r, -40, 40); b[i].y2 = b[i].y1 + (int)vf_range (r, 1, 30); }
    if (!pixman_region32_init_rects (out, b, n)) pixman_region32_init (out);
}

/* one call of a stream; returns the digest of what the call produced */
static uint64_t one_op (stream_t *s, int i, vf_rng *r)
{
    int k = (int)(vf_next (r) % 18);
    int kind = k >= 16 ? K_FILTER : k < 3 ? K_PRIVATE : k < 7 ? K_SHARED_SRC : k < 9 ? K_WIDE : k == 9 ? K_FILL : k < 12 ? K_REGION : k < 14 ? K_TRAPS : k == 14 ? K_GLYPHS : K_BLT;
    s->kind[i] = (uint8_t)kind; uint64_t d = 0;
    switch (kind) {
    case K_PRIVATE: case K_SHARED_SRC: {
        rq_request q; rq_generate (r, &q, vf_chance (r, 1, 3) ? RQP_CLIPPY : 0);
        if (!rq_build (&q, r)) return 1;
        if (kind == K_PRIVATE) { rq_run (&q); snprintf (s->what[i], 40, "%s", ro_op_name (q.op)); }
        else { pixman_image_t *src = shared_src (r), *mask = vf_chance (r, 1, 3) ? shared_mask (r) : q.has_mask ? q.mask.img : NULL;
               if (!src) src = q.src.img;
               pixman_image_composite32 (q.op, src, mask, q.dst.img, q.sx, q.sy, q.mx, q.my, q.dx, q.dy, q.w, q.h); snprintf (s->what[i], 40, "%s", ro_op_name (q.op)); }
        d = rq_digest (&q); s->pixels += (long)q.dst.w * q.dst.h; rq_free (&q); break; }
    case K_WIDE: {
        /* scanlines longer than the general path's stack buffer (floating-point rows beyond 512 pixels, 8-bit rows beyond 2048) */
        static const pixman_format_code_t df[] = { PIXMAN_a8r8g8b8, PIXMAN_a2r10g10b10, PIXMAN_a8r8g8b8_sRGB, PIXMAN_r5g6b5, PIXMAN_x2b10g10r10, PIXMAN_a8 };
        pixman_format_code_t f = VF_PICK (r, df); int w = vf_chance (r, 1, 2) ? (int)vf_range (r, 513, 1200) : (int)vf_range (r, 2049, 2600), h = (int)vf_range (r, 1, 2);
        pixman_image_t *dst = pixman_image_create_bits (f, w, h, NULL, 0); if (!dst) return 1;
        uint32_t *p = pixman_image_get_data (dst); int n = pixman_image_get_stride (dst) * h / 4; for (int j = 0; j < n; j++) p[j] = vf_u32 (r);
        pixman_image_t *src = NULL, *own = NULL;
        if (vf_chance (r, 1, 2)) src = shared_src (r);
        if (!src) own = src = own_solid (r);
        static const pixman_op_t ops[] = { PIXMAN_OP_OVER, PIXMAN_OP_DISJOINT_OVER, PIXMAN_OP_CONJOINT_XOR, PIXMAN_OP_MULTIPLY, PIXMAN_OP_HSL_HUE, PIXMAN_OP_SATURATE, PIXMAN_OP_ADD, PIXMAN_OP_COLOR_DODGE };
        pixman_op_t op = VF_PICK (r, ops); pixman_image_t *mask = vf_chance (r, 1, 3) ? shared_mask (r) : NULL;
        /* ordered dithering of the (private) destination: runs in the float pipeline with the library's dither matrices */
        int dith = vf_chance (r, 1, 3);
        if (dith) { pixman_image_set_dither (dst, vf_chance (r, 1, 2) ? PIXMAN_DITHER_ORDERED_BAYER_8 : PIXMAN_DITHER_ORDERED_BLUE_NOISE_64); pixman_image_set_dither_offset (dst, (int)vf_range (r, 0, 70), (int)vf_range (r, 0, 70)); }
        if (src) pixman_image_composite32 (op, src, mask, dst, (int)vf_range (r, -3, 3), 0, 0, 0, 0, 0, w, h);
        snprintf (s->what[i], 40, "%s w=%d %s%s", ro_op_name (op), w, rp_name (f), dith ? " dithered" : "");
        d = image_digest (dst); s->pixels += (long)w * h; pixman_image_unref (dst); if (own) pixman_image_unref (own); break; }
    case K_FILL: {
        pixman_image_t *dst = pixman_image_create_bits (VF_PICK (r, ((pixman_format_code_t[]){ PIXMAN_a8r8g8b8, PIXMAN_r5g6b5, PIXMAN_a8, PIXMAN_a1 })), (int)vf_range (r, 1, 90), (int)vf_range (r, 1, 12), NULL, 0); if (!dst) return 1;
        pixman_color_t c = { (uint16_t)vf_next (r), (uint16_t)vf_next (r), (uint16_t)vf_next (r), (uint16_t)vf_next (r) }; pixman_box32_t b[4]; int n = (int)vf_range (r, 1, 4);
        for (int j = 0; j < n; j++) { b[j].x1 = (int)vf_range (r, -5, 60); b[j].x2 = b[j].x1 + (int)vf_range (r, 1, 50); b[j].y1 = (int)vf_range (r, -3, 8); b[j].y2 = b[j].y1 + (int)vf_range (r, 1, 9); }
        pixman_op_t op = VF_PICK (r, ((pixman_op_t[]){ PIXMAN_OP_SRC, PIXMAN_OP_OVER, PIXMAN_OP_CLEAR, PIXMAN_OP_ADD, PIXMAN_OP_XOR }));
        pixman_image_fill_boxes (op, dst, &c, n, b); snprintf (s->what[i], 40, "%s", ro_op_name (op));
        d = image_digest (dst); s->pixels += 100; pixman_image_unref (dst); break; }
    case K_REGION: {
        pixman_region32_t a, b, o; random_region (r, &a); random_region (r, &b); pixman_region32_init (&o);
        uint64_t pick = vf_next (r); pixman_region32_t *x = (pick & 1) && !no_shared ? &shreg[(pick >> 1) % 3] : &b;       /* a shared read-only operand half of the time */
        int w = (int)(vf_next (r) % 5);
        switch (w) { case 0: pixman_region32_union (&o, &a, x); break; case 1: pixman_region32_intersect (&o, &a, x); break; case 2: pixman_region32_subtract (&o, x, &a); break;
                     case 3: { pixman_box32_t bx = { -50, -50, 60, 60 }; pixman_region32_inverse (&o, x, &bx); break; } default: pixman_region32_copy (&o, x); pixman_region32_translate (&o, (int)vf_range (r, -9, 9), 3); break; }
        d = region_digest (&o) ^ (uint64_t)pixman_region32_equal (&o, x) ^ ((uint64_t)pixman_region32_contains_rectangle (x, pixman_region32_extents (&a)) << 8);
        snprintf (s->what[i], 40, "region op %d%s", w, x == &b ? "" : " shared operand"); s->pixels += 10;
        pixman_region32_fini (&a); pixman_region32_fini (&b); pixman_region32_fini (&o); break; }
    case K_TRAPS: {
        int w = (int)vf_range (r, 4, 70), h = (int)vf_range (r, 3, 20);
        pixman_format_code_t f = VF_PICK (r, ((pixman_format_code_t[]){ PIXMAN_a8r8g8b8, PIXMAN_a8, PIXMAN_r5g6b5, PIXMAN_x8r8g8b8 }));
        pixman_image_t *dst = pixman_image_create_bits (f, w, h, NULL, 0); if (!dst) return 1;
        uint32_t *p = pixman_image_get_data (dst); int n = pixman_image_get_stride (dst) * h / 4; for (int j = 0; j < n; j++) p[j] = vf_u32 (r);
        pixman_trapezoid_t t[3]; int nt = (int)vf_range (r, 1, 3);
        for (int j = 0; j < nt; j++) { pixman_fixed_t top = (pixman_fixed_t)vf_range (r, -2 * 65536, (h - 1) * 65536), bot = top + (pixman_fixed_t)vf_range (r, 1, h * 65536);
            t[j].top = top; t[j].bottom = bot;
            t[j].left.p1.x = (pixman_fixed_t)vf_range (r, -4 * 65536, w * 65536); t[j].left.p1.y = top - (pixman_fixed_t)vf_range (r, 0, 65536); t[j].left.p2.x = (pixman_fixed_t)vf_range (r, -4 * 65536, w * 65536); t[j].left.p2.y = bot + (pixman_fixed_t)vf_range (r, 0, 65536);
            t[j].right.p1.x = t[j].left.p1.x + (pixman_fixed_t)vf_range (r, 0, 30 * 65536); t[j].right.p1.y = t[j].left.p1.y; t[j].right.p2.x = t[j].left.p2.x + (pixman_fixed_t)vf_range (r, 0, 30 * 65536); t[j].right.p2.y = t[j].left.p2.y; }
        int how = (int)(vf_next (r) % 6);
        if (how >= 4) {
            /* the triangle entry points (they convert to trapezoids first): few and many triangles */
            pixman_triangle_t tri[14]; int ntri = vf_chance (r, 2, 3) ? (int)vf_range (r, 1, 8) : (int)vf_range (r, 9, 14);
            for (int j = 0; j < ntri; j++) { pixman_point_fixed_t *pt[3] = { &tri[j].p1, &tri[j].p2, &tri[j].p3 }; for (int q = 0; q < 3; q++) { pt[q]->x = (pixman_fixed_t)vf_range (r, -4 * 65536, (w + 4) * 65536); pt[q]->y = (pixman_fixed_t)vf_range (r, -3 * 65536, (h + 3) * 65536); } }
            if (how == 5 && f == PIXMAN_a8) pixman_add_triangles (dst, (int)vf_range (r, -2, 2), (int)vf_range (r, -1, 1), ntri, tri);
            else { pixman_image_t *own = NULL, *src = vf_chance (r, 1, 2) ? shared_src (r) : NULL;
                   if (!src) { pixman_color_t c = { (uint16_t)vf_next (r), (uint16_t)vf_next (r), (uint16_t)vf_next (r), 0xc000 }; own = src = pixman_image_create_solid_fill (&c); }
                   pixman_op_t op = VF_PICK (r, ((pixman_op_t[]){ PIXMAN_OP_OVER, PIXMAN_OP_ADD, PIXMAN_OP_SRC }));
                   if (src) pixman_composite_triangles (op, src, dst, VF_PICK (r, ((pixman_format_code_t[]){ PIXMAN_a8, PIXMAN_a1, PIXMAN_a4 })), (int)vf_range (r, -3, 3), (int)vf_range (r, -3, 3), (int)vf_range (r, -2, 2), 0, ntri, tri);
                   if (own) pixman_image_unref (own); }
            snprintf (s->what[i], 40, "triangles how=%d n=%d", how, ntri); d = image_digest (dst); s->pixels += (long)w * h; pixman_image_unref (dst); break;
        }
        if (how == 0 && f == PIXMAN_a8) { for (int j = 0; j < nt; j++) pixman_rasterize_trapezoid (dst, &t[j], (int)vf_range (r, -2, 2), 0); }
        else { pixman_image_t *own = NULL, *src = vf_chance (r, 3, 4) ? shared_src (r) : NULL;
               if (!src) { pixman_color_t c = { (uint16_t)vf_next (r), (uint16_t)vf_next (r), (uint16_t)vf_next (r), 0xffff }; own = src = pixman_image_create_solid_fill (&c); }
               pixman_op_t op = VF_PICK (r, ((pixman_op_t[]){ PIXMAN_OP_OVER, PIXMAN_OP_ADD, PIXMAN_OP_SRC, PIXMAN_OP_IN_REVERSE }));
               if (src) pixman_composite_trapezoids (op, src, dst, VF_PICK (r, ((pixman_format_code_t[]){ PIXMAN_a8, PIXMAN_a1, PIXMAN_a4 })), (int)vf_range (r, -3, 3), (int)vf_range (r, -3, 3), (int)vf_range (r, -2, 2), 0, nt, t);
               if (own) pixman_image_unref (own); }
        snprintf (s->what[i], 40, "traps how=%d", how); d = image_digest (dst); s->pixels += (long)w * h; pixman_image_unref (dst); break; }
    case K_GLYPHS: {
        pixman_glyph_cache_t *c = pixman_glyph_cache_create (); if (!c) return 1;
        pixman_image_t *dst = pixman_image_create_bits (VF_PICK (r, ((pixman_format_code_t[]){ PIXMAN_a8r8g8b8, PIXMAN_r5g6b5, PIXMAN_a8 })), (int)vf_range (r, 8, 60), (int)vf_range (r, 4, 14), NULL, 0);
        if (!dst) { pixman_glyph_cache_destroy (c); return 1; }
        pixman_glyph_t g[6]; int ng = 0; pixman_glyph_cache_freeze (c);
        for (int j = 0; j < 6; j++) { pixman_image_t *gi = pixman_image_create_bits (VF_PICK (r, ((pixman_format_code_t[]){ PIXMAN_a8, PIXMAN_a8, PIXMAN_a8r8g8b8, PIXMAN_a1 })), (int)vf_range (r, 1, 9), (int)vf_range (r, 1, 7), NULL, 0); if (!gi) continue;
            uint32_t *p = pixman_image_get_data (gi); int n = pixman_image_get_stride (gi) * pixman_image_get_height (gi) / 4; for (int q = 0; q < n; q++) p[q] = vf_u32 (r);
            const void *h = pixman_glyph_cache_insert (c, (void *)(uintptr_t)(s->tid + 1), (void *)(uintptr_t)(j + 1), (int)vf_range (r, -2, 2), (int)vf_range (r, -2, 2), gi); pixman_image_unref (gi);
            if (h) { g[ng].glyph = h; g[ng].x = (int)vf_range (r, -3, 55); g[ng].y = (int)vf_range (r, -2, 12); ng++; } }
        pixman_image_t *own = NULL, *src = shared_src (r); if (!src) own = src = own_solid (r);
        pixman_op_t op = VF_PICK (r, ((pixman_op_t[]){ PIXMAN_OP_OVER, PIXMAN_OP_ADD, PIXMAN_OP_SRC }));
        if (ng && src) { if (vf_chance (r, 1, 2)) pixman_composite_glyphs_no_mask (op, src, dst, 1, 2, 0, 0, c, ng, g);
                  else pixman_composite_glyphs (op, src, dst, pixman_glyph_get_mask_format (c, ng, g), 1, 2, 0, 0, 0, 0, pixman_image_get_width (dst), pixman_image_get_height (dst), c, ng, g); }
        pixman_glyph_cache_thaw (c); snprintf (s->what[i], 40, "glyphs n=%d %s", ng, ro_op_name (op));
        d = image_digest (dst); s->pixels += 300; pixman_image_unref (dst); pixman_glyph_cache_destroy (c); if (own) pixman_image_unref (own); break; }
    case K_FILTER: {
        /* calls that only compute: filter tables, matrix arithmetic; then the table used on a private image */
        static const pixman_kernel_t ks[] = { PIXMAN_KERNEL_IMPULSE, PIXMAN_KERNEL_BOX, PIXMAN_KERNEL_LINEAR, PIXMAN_KERNEL_CUBIC, PIXMAN_KERNEL_GAUSSIAN, PIXMAN_KERNEL_LANCZOS2 };
        int n = 0; pixman_fixed_t sx = (pixman_fixed_t)vf_range (r, 0x6000, 0x38000), sy = vf_chance (r, 1, 2) ? sx + (pixman_fixed_t)vf_range (r, -1, 1) : (pixman_fixed_t)vf_range (r, 0x6000, 0x38000);
        pixman_kernel_t k1 = VF_PICK (r, ks), k2 = VF_PICK (r, ks);
        pixman_fixed_t *p = pixman_filter_create_separable_convolution (&n, sx, sy, k1, vf_chance (r, 1, 2) ? k1 : VF_PICK (r, ks), k2, vf_chance (r, 1, 2) ? k2 : VF_PICK (r, ks), (int)vf_range (r, 0, 3), (int)vf_range (r, 0, 3));
        if (!p) return 1;
        d = vf_hash (p, (size_t)n * sizeof *p, (uint64_t)n);
        pixman_transform_t t, inv; pixman_transform_init_scale (&t, sx, sy); pixman_transform_rotate (&t, &inv, (pixman_fixed_t)vf_range (r, -65536, 65536), (pixman_fixed_t)vf_range (r, -65536, 65536));
        pixman_vector_t v = { { (pixman_fixed_t)vf_range (r, -30 * 65536, 30 * 65536), (pixman_fixed_t)vf_range (r, -30 * 65536, 30 * 65536), 65536 } }; pixman_bool_t okp = pixman_transform_point (&t, &v), oki = pixman_transform_invert (&inv, &t);
        d = vf_hash (&v, sizeof v, d) ^ vf_hash (&inv, sizeof inv, (uint64_t)(okp * 2 + oki));
        pixman_image_t *src = pixman_image_create_bits (PIXMAN_a8r8g8b8, 12, 9, NULL, 0), *dst = pixman_image_create_bits (PIXMAN_a8r8g8b8, 16, 6, NULL, 0);
        if (src && dst) { uint32_t *q = pixman_image_get_data (src); for (int j = 0; j < 12 * 9; j++) q[j] = vf_u32 (r) | 0xff000000u;
            pixman_transform_init_scale (&t, sx < 0 ? -sx : sx, sy < 0 ? -sy : sy); pixman_image_set_transform (src, &t); pixman_image_set_repeat (src, PIXMAN_REPEAT_PAD);
            if (n <= 4 + 400 && pixman_image_set_filter (src, PIXMAN_FILTER_SEPARABLE_CONVOLUTION, p, n)) pixman_image_composite32 (PIXMAN_OP_SRC, src, NULL, dst, 0, 0, 0, 0, 0, 0, 16, 6);
            d ^= image_digest (dst); }
        if (src) pixman_image_unref (src); if (dst) pixman_image_unref (dst);
        free (p); snprintf (s->what[i], 40, "filter table n=%d", n); s->pixels += 100; break; }
    default: {
        int w = (int)vf_range (r, 1, 120), h = (int)vf_range (r, 1, 6), bpp = VF_PICK (r, ((int[]){ 8, 16, 32 })); int stride = (w * bpp / 8 + 3) / 4;
        uint32_t *a = malloc ((size_t)stride * 4 * h), *b = malloc ((size_t)stride * 4 * h); if (!a || !b) { free (a); free (b); return 1; }
        for (int j = 0; j < stride * h; j++) { a[j] = vf_u32 (r); b[j] = vf_u32 (r); }
        int x = (int)vf_range (r, 0, w - 1), ww = (int)vf_range (r, 1, w - x);
        pixman_bool_t ok1 = pixman_blt (a, b, stride, stride, bpp, bpp, x, 0, x, 0, ww, h), ok2 = pixman_fill (a, stride, bpp, 0, 0, (int)vf_range (r, 1, w), 1, vf_u32 (r));
        d = vf_hash (b, (size_t)stride * 4 * h, 3) ^ vf_hash (a, (size_t)stride * 4 * h, 5) ^ (uint64_t)(ok1 * 2 + ok2); snprintf (s->what[i], 40, "blt/fill bpp=%d", bpp); s->pixels += (long)w * h; free (a); free (b); break; }
    }
    return d;
}

static void run_stream (stream_t *s, int concurrent)
{
    vf_rng r; vf_rng_seed (&r, s->seed, 0xc16, (uint64_t)s->tid);
    vf_rng yr; vf_rng_seed (&yr, s->seed ^ (uint64_t)concurrent, 0x71e1d, (uint64_t)s->tid);
    s->pixels = 0;
    for (int i = 0; i < s->nops; i++) { s->dig[i] = one_op (s, i, &r); if (concurrent) maybe_yield (&yr); }
}
static void *thread_main (void *arg) { stream_t *s = arg; pthread_barrier_wait (&barrier); run_stream (s, 1); return NULL; }

static void build_shared (vf_rng *r)
{
    nshared = 0;
    while (nshared < NSHARED) {
        rq_request *q = &shared[nshared]; rq_generate (r, q, RQP_NO_ACCESSORS);
        if (nshared == 0) q->src.kind = RQ_SOLID;
        if (nshared == 1 && q->src.kind < RQ_LINEAR) continue;        /* the second shared source is a gradient (as generated, with its stops) */
        /* shared sources are also handed to the glyph entry points, which - unlike pixman_image_composite32 - do not analyse the source extents: an image
         * larger than the library's own size limit (a request composite32 would drop) is outside what this property is about and is not shared */
        if (q->src.kind == RQ_BITS && (q->src.w > 32767 || q->src.h > 32767)) continue;
        if (q->has_mask && q->mask.kind == RQ_BITS && (q->mask.w > 32767 || q->mask.h > 32767)) continue;
        if (!rq_build (q, r)) continue;
        /* first use by the main thread, before any other thread exists: validates the images (and their alpha maps) */
        rq_run (q);
        if (q->has_mask && q->mask.img) pixman_image_composite32 (PIXMAN_OP_OVER, q->mask.img, NULL, q->dst.img, 0, 0, 0, 0, 0, 0, q->dst.w, q->dst.h);
        nshared++;
    }
    for (int i = 0; i < 3; i++) random_region (r, &shreg[i]);
}
static void free_shared (void) { for (int i = 0; i < nshared; i++) rq_free (&shared[i]); nshared = 0; for (int i = 0; i < 3; i++) pixman_region32_fini (&shreg[i]); }

/* ---- cold-start rounds: a forked child whose very first library calls are made by T threads at once (nothing is shared,
 * nothing has been drawn before), compared with another child that runs the same streams one after the other.
 * This is where lazily initialised process-wide state (implementation choice, CPU-feature memo) would be raced on. */
#include <sys/mman.h>
#include <sys/wait.h>
#include <unistd.h>
typedef struct { uint64_t dig[MAXTHREADS][MAXOPS]; uint8_t kind[MAXTHREADS][MAXOPS]; int done; } cold_result;
static int cold_child (cold_result *out, int T, int nops, uint64_t seed, int concurrent)
{
    fflush (NULL);
    pid_t pid = fork (); if (pid < 0) return -1;
    if (pid == 0) {
        no_shared = 1;
        for (int t = 0; t < T; t++) { memset (&conc[t], 0, sizeof conc[t]); conc[t].tid = t; conc[t].seed = seed; conc[t].nops = nops; }
        if (concurrent) { pthread_t th[MAXTHREADS]; pthread_barrier_init (&barrier, NULL, (unsigned)T);
            for (int t = 0; t < T; t++) if (pthread_create (&th[t], NULL, thread_main, &conc[t])) _exit (3);
            for (int t = 0; t < T; t++) pthread_join (th[t], NULL); }
        else for (int t = 0; t < T; t++) run_stream (&conc[t], 0);
        for (int t = 0; t < T; t++) { memcpy (out->dig[t], conc[t].dig, sizeof out->dig[t]); memcpy (out->kind[t], conc[t].kind, sizeof out->kind[t]); }
        out->done = 1;
        fflush (NULL); _exit (0);
    }
    int st = 0; if (waitpid (pid, &st, 0) < 0) return -1;
    return WIFEXITED (st) ? WEXITSTATUS (st) : 128 + WTERMSIG (st);
}
static void cold_case (long idx, vf_rng *r)
{
    static const int tc[] = { 4, 8, 16, 2 }; int T = tc[idx % 4]; int nops = (int)vf_range (r, 4, 16); yield_mode = 0; uint64_t seed = vf_next (r);
    cold_result *res = mmap (NULL, 2 * sizeof (cold_result), PROT_READ | PROT_WRITE, MAP_SHARED | MAP_ANONYMOUS, -1, 0); if (res == MAP_FAILED) vf_fatal ("mmap failed");
    memset (res, 0, 2 * sizeof (cold_result));
    vf_case_desc ("cold start: %d threads x %d calls as the first library use of a fresh process, stream seed %llx", T, nops, (unsigned long long)seed);
    vf_inflight ("cold start serial child: %d x %d", T, nops);
    int rc0 = cold_child (&res[0], T, nops, seed, 0);
    vf_inflight ("cold start concurrent child: %d x %d", T, nops);
    int rc1 = cold_child (&res[1], T, nops, seed, 1);
    if (rc0 != 0 || !res[0].done) vf_fatal ("cold-start serial child failed (rc %d)", rc0);
    if (rc1 != 0 || !res[1].done) { char key[80]; snprintf (key, sizeof key, "C16:cold-start-concurrent-child-died:rc%d", rc1); vf_violation (key, "the process whose first library calls were made by %d threads at once ended with status %d; the same streams run one after the other completed", T, rc1); }
    else for (int t = 0; t < T; t++) for (int i = 0; i < nops; i++) { vf_count (kname[res[0].kind[t][i]], 1);
        if (res[0].dig[t][i] != res[1].dig[t][i]) { char key[100]; snprintf (key, sizeof key, "C16:result-differs-from-running-alone:cold-start:%s", kname[res[0].kind[t][i]]);
            vf_violation (key, "thread %d call %d: digest %016llx when %d threads make the first library calls of the process at once, %016llx when run alone", t, i, (unsigned long long)res[1].dig[t][i], T, (unsigned long long)res[0].dig[t][i]); }
        vf_cell ("cells", vf_mix (res[0].dig[t][i], 100 + res[0].kind[t][i])); }
    vf_count ("evaluations", (long)T * nops); vf_count ("concurrent_calls", (long)T * nops); vf_count ("cold_start_rounds", 1); vf_count ("rounds", 1); vf_count ("threads_started", T); vf_label ("threads", "cold start, %d threads", T);
    munmap (res, 2 * sizeof (cold_result));
}

static void thread_case (long idx, vf_rng *r)
{
    if (vf.config && strstr (vf.config, "cold")) { cold_case (idx, r); return; }
    static const int tc[] = { 2, 4, 8, 16, 16, 8 }; int T = tc[idx % 6];
    int nops = (int)vf_range (r, 8, MAXOPS); yield_mode = (int)(idx / 6 % 2);
    uint64_t seed = vf_next (r);
    build_shared (r);
    char d0[300]; rq_describe (&shared[2], d0, sizeof d0);
    vf_case_desc ("%d threads x %d calls, stream seed %llx, yields %s; shared images e.g. %s", T, nops, (unsigned long long)seed, yield_mode ? "on" : "off", d0);
    vf_inflight ("serial pass: %d streams x %d calls", T, nops);
    for (int t = 0; t < T; t++) { memset (&serial[t], 0, sizeof serial[t]); serial[t].tid = t; serial[t].seed = seed; serial[t].nops = nops; run_stream (&serial[t], 0); conc[t] = serial[t]; memset (conc[t].dig, 0, sizeof conc[t].dig); }
    vf_inflight ("concurrent pass: %d threads x %d calls", T, nops);
    pthread_t th[MAXTHREADS]; pthread_barrier_init (&barrier, NULL, (unsigned)T);
    for (int t = 0; t < T; t++) if (pthread_create (&th[t], NULL, thread_main, &conc[t])) vf_fatal ("pthread_create failed");
    for (int t = 0; t < T; t++) pthread_join (th[t], NULL);
    pthread_barrier_destroy (&barrier);
    long calls = 0;
    for (int t = 0; t < T; t++) for (int i = 0; i < nops; i++) {
        calls++; vf_count (kname[serial[t].kind[i]], 1);
        if (serial[t].dig[i] != conc[t].dig[i]) { char key[100]; snprintf (key, sizeof key, "C16:result-differs-from-running-alone:%s", kname[serial[t].kind[i]]);
            vf_violation (key, "thread %d call %d (%s %s): digest %016llx when run concurrently with %d other threads, %016llx when run alone", t, i, kname[serial[t].kind[i]], serial[t].what[i], (unsigned long long)conc[t].dig[i], T - 1, (unsigned long long)serial[t].dig[i]); }
        vf_cell ("cells", vf_mix (serial[t].dig[i], serial[t].kind[i]));
    }
    for (int t = 0; t < T; t++) vf_count ("pixels_drawn_concurrently", conc[t].pixels);
    vf_count ("evaluations", calls); vf_count ("concurrent_calls", calls); vf_count ("rounds", 1); vf_count ("threads_started", T); vf_label ("threads", "%d threads, yields %s", T, yield_mode ? "on" : "off");
    if (idx < 2) vf_sample ("round: %d threads x %d calls each, all %ld digests equal to the serial run", T, nops, calls);
    free_shared ();
}

int main (int argc, char **argv) { return vf_main (argc, argv, "C16", NULL, thread_case, NULL); }
