/* Monitor for C18: separable-convolution filter tables.  Structural checks on the block the
 * library returns (exact-size heap block: ASan sees any write outside it), 64-bit phase sums,
 * acceptance by set_filter and "a constant image stays constant". */
#include "vf.h"
#include <math.h>

static const char *kn[8] = { "IMPULSE", "BOX", "LINEAR", "CUBIC", "GAUSSIAN", "LANCZOS2", "LANCZOS3", "LANCZOS3_STRETCHED" };

/* the enumerated per-axis grid */
static const double grid_scales[] = { 1.0 / 256, 1.0 / 64, 1.0 / 16, 0.125, 0.25, 1.0 / 3, 0.5, 0.7, 0.999985, 1.0, 1.000015, 1.3, 1.5, 2.0, 2.5, 3.0, 4.0, 5.3, 8.0, 16.0, 64.0 };
#define NSCALES ((int)(sizeof grid_scales / sizeof grid_scales[0]))
#define NBITS 9
#define GRID (64 * NSCALES * NBITS)

typedef struct { int rk, sk, bits; pixman_fixed_t scale; } axis_t;

static void axis_from_index (long g, axis_t *a)
{
    a->rk = (int)(g % 8); g /= 8; a->sk = (int)(g % 8); g /= 8;
    a->bits = (int)(g % NBITS); g /= NBITS;
    a->scale = pixman_double_to_fixed (grid_scales[g % NSCALES]);
    if (a->scale == 0) a->scale = 1;
}
static void axis_random (vf_rng *r, axis_t *a)
{
    a->rk = (int)(vf_next (r) % 8); a->sk = (int)(vf_next (r) % 8); a->bits = (int)(vf_next (r) % NBITS);
    switch (vf_next (r) % 5) {
    case 0: a->scale = (pixman_fixed_t)vf_range (r, 1, 65536); break;
    case 1: a->scale = (pixman_fixed_t)vf_range (r, 65536 - 3, 65536 + 3); break;
    case 2: a->scale = (pixman_fixed_t)vf_range (r, 65536, 8 * 65536); break;
    case 3: a->scale = (pixman_fixed_t)(1 << vf_range (r, 0, 22)); break;
    default: a->scale = (pixman_fixed_t)vf_range (r, 1, 64 * 65536); break;
    }
    if (vf_chance (r, 1, 10)) a->scale = -a->scale;     /* the sign is documented to be ignored (fabs) */
}
/* keep blocks below 4M entries per axis: bound the scale by the subsampling depth */
static void axis_clamp (axis_t *a)
{
    double s = fabs (a->scale / 65536.0);
    double maxw = 4.0e6 / (1 << a->bits) / 8.0;
    if (s > maxw) a->scale = (pixman_fixed_t)(maxw * 65536.0);
}

static void check_block (const axis_t *ax, const axis_t *ay, int draw)
{
    int n_values = -1;
    vf_inflight ("create_separable_convolution x=(%s,%s,scale=0x%x,bits=%d) y=(%s,%s,scale=0x%x,bits=%d)", kn[ax->rk], kn[ax->sk], (unsigned)ax->scale, ax->bits,
                 kn[ay->rk], kn[ay->sk], (unsigned)ay->scale, ay->bits);
    vf_case_desc ("x=(%s,%s,scale=0x%x,bits=%d) y=(%s,%s,scale=0x%x,bits=%d)", kn[ax->rk], kn[ax->sk], (unsigned)ax->scale, ax->bits,
                  kn[ay->rk], kn[ay->sk], (unsigned)ay->scale, ay->bits);
    pixman_fixed_t *p = pixman_filter_create_separable_convolution (&n_values, ax->scale, ay->scale, ax->rk, ay->rk, ax->sk, ay->sk, ax->bits, ay->bits);
    vf_count ("blocks", 1);
    if (!p) { vf_violation ("C18:returns-null", "creation returned NULL without an allocation failure"); return; }
    /* header vs announced length */
    int w = pixman_fixed_to_int (p[0]), h = pixman_fixed_to_int (p[1]), bx = pixman_fixed_to_int (p[2]), by = pixman_fixed_to_int (p[3]);
    int hdr_ok = (p[0] == pixman_int_to_fixed (w) && p[1] == pixman_int_to_fixed (h) && bx == ax->bits && by == ay->bits && w >= 0 && h >= 0);
    long expect_n = 4 + (long)w * (1 << ax->bits) + (long)h * (1 << ay->bits);
    vf_count ("evaluations", 2);
    if (!hdr_ok || expect_n != n_values) {
        vf_violation ("C18:header", "header (w=%d h=%d bits=%d,%d raw %x %x) does not match the announced length %d (tables would need %ld)", w, h, bx, by, (unsigned)p[0], (unsigned)p[1], n_values, expect_n);
        free (p); return;
    }
    /* every phase sums to exactly 1.0 */
    const pixman_fixed_t *t = p + 4; int bad = 0;
    for (int axis = 0; axis < 2 && !bad; axis++) {
        int width = axis ? h : w, nph = 1 << (axis ? ay->bits : ax->bits);
        const axis_t *a = axis ? ay : ax;
        if (width == 0) {
            char key[96]; snprintf (key, sizeof key, "C18:zero-width:%s.%s", kn[a->rk], kn[a->sk]);
            vf_violation (key, "%c table has width 0: no phase can sum to 1.0", axis ? 'y' : 'x');
            bad = 1; break;
        }
        for (int ph = 0; ph < nph; ph++) {
            int64_t sum = 0; int allzero = 1;
            for (int k = 0; k < width; k++) { sum += t[k]; if (t[k]) allzero = 0; }
            vf_count ("evaluations", 1); vf_count ("phases", 1);
            if (sum != 65536) {
                char key[96];
                /* classification used for known findings: the normalisation divided by a zero total (every raw coefficient 0) */
                snprintf (key, sizeof key, "C18:phase-sum:%s.%s", kn[a->rk], kn[a->sk]);
                vf_violation (key, "%c axis (%s reconstruct, %s sample, scale 0x%x, %d bits): phase %d of %d sums to %lld (0x%llx), not 65536; width %d%s", axis ? 'y' : 'x',
                              kn[a->rk], kn[a->sk], (unsigned)a->scale, a->bits, ph, nph, (long long)sum, (long long)sum, width, allzero ? " (all coefficients zero)" : "");
                bad = 1; break;
            }
            t += width;
        }
        if (!bad) vf_cell ("cells", vf_mix (vf_mix (a->rk * 8 + a->sk, a->bits), vf_mix (width, (uint32_t)a->scale)));
    }
    /* the library's own validation accepts it, and a constant image stays constant */
    if (!bad) {
        static uint32_t srcpx[16 * 16], dstpx[8 * 8];
        uint32_t colour = 0xff000000u | ((uint32_t)(w * 37 + h * 11 + ax->bits) * 0x010305u & 0xffffff);
        if (draw & 2) colour = 0xffffffffu;
        for (int i = 0; i < 256; i++) srcpx[i] = colour;
        /* the consumer side of "a constant image stays constant": the specialised affine fetcher (a8r8g8b8 with a scale), and the general per-pixel fetcher
         * (another channel order, no transform at all, or a homogeneous matrix that is not normalised) */
        int variant = (draw >> 3) % 4;
        pixman_format_code_t sfmt = variant == 1 ? PIXMAN_a8b8g8r8 : PIXMAN_a8r8g8b8;
        pixman_image_t *src = pixman_image_create_bits (sfmt, 16, 16, srcpx, 64);
        pixman_image_t *dst = pixman_image_create_bits (PIXMAN_a8r8g8b8, 8, 8, dstpx, 32);
        if (src && dst) {
            vf_inflight ("set_filter n_values=%d w=%d h=%d", n_values, w, h);
            vf_count ("evaluations", 1);
            if (!pixman_image_set_filter (src, PIXMAN_FILTER_SEPARABLE_CONVOLUTION, p, n_values))
                vf_violation ("C18:set_filter-rejects", "pixman_image_set_filter rejected the block (n_values=%d w=%d h=%d)", n_values, w, h);
            else if ((draw & 1) && (long)w * h <= 200) {
                pixman_transform_t tr; pixman_transform_init_scale (&tr, ax->scale < 0 ? -ax->scale : ax->scale, ay->scale < 0 ? -ay->scale : ay->scale);
                tr.matrix[0][2] = 3 * 65536 + 12345; tr.matrix[1][2] = 2 * 65536 + 54321;
                if (variant == 3) { int fits = 1; for (int i = 0; i < 3; i++) for (int j = 0; j < 3; j++) if (tr.matrix[i][j] > 0x3fffffff || tr.matrix[i][j] < -0x3fffffff) fits = 0;
                    if (fits) for (int i = 0; i < 3; i++) for (int j = 0; j < 3; j++) tr.matrix[i][j] *= 2; }     /* same map, w = 2 */
                if (variant != 2) pixman_image_set_transform (src, &tr);
                vf_label ("constant_image_variants", "%s", variant == 0 ? "a8r8g8b8 affine" : variant == 1 ? "a8b8g8r8 affine (general fetcher)" : variant == 2 ? "no transform" : "homogeneous w=2");
                pixman_image_set_repeat (src, (draw & 4) ? PIXMAN_REPEAT_NORMAL : PIXMAN_REPEAT_PAD);
                memset (dstpx, 0x55, sizeof dstpx);
                vf_inflight ("composite constant image through the filter w=%d h=%d", w, h);
                pixman_image_composite32 (PIXMAN_OP_SRC, src, NULL, dst, 0, 0, 0, 0, 0, 0, 8, 8);
                vf_count ("evaluations", 64); vf_count ("constant_image_draws", 1);
                uint32_t want = colour; if (variant == 1) want = (colour & 0xff00ff00u) | ((colour & 0xff) << 16) | ((colour >> 16) & 0xff);
                for (int i = 0; i < 64; i++) if (dstpx[i] != want) {
                    vf_violation ("C18:constant-not-preserved", "constant image %08x filtered to %08x at pixel %d (w=%d h=%d, variant %d)", want, dstpx[i], i, w, h, variant);
                    break;
                }
            }
        }
        if (src) pixman_image_unref (src);
        if (dst) pixman_image_unref (dst);
    }
    free (p);
}

static void filter_case (long idx, vf_rng *rng)
{
    axis_t ax, ay;
    if (!strcmp (vf.config, "grid")) {
        /* exhaustive per-axis grid: x axis enumerates the grid, y axis walks it with a different stride */
        if (idx >= GRID) return;
        axis_from_index (idx, &ax); axis_from_index ((idx * 37 + 11) % GRID, &ay);
        vf_count ("grid_points", 1);
    } else {
        axis_random (rng, &ax); axis_random (rng, &ay);
        if (vf_chance (rng, 1, 6)) ay = ax;
        if (vf_chance (rng, 1, 6)) { ay = ax; ay.bits = (int)(vf_next (rng) % NBITS); }
        /* the two axes (and consecutive calls) ask for nearly the same table: same kernels and depth, scales one or two units apart, placed where the
         * table width steps (kernel widths are 1, 2, 4, 6: the width changes where scale * k is an integer) */
        if (vf_chance (rng, 1, 4)) {
            static const int den[] = { 1, 2, 3, 4, 6, 8 };
            ax.scale = (pixman_fixed_t)(vf_range (rng, 1, 24) * 65536 / VF_PICK (rng, den)) + (pixman_fixed_t)vf_range (rng, -1, 1);
            if (ax.scale < 1) ax.scale = 1;
            ay = ax; ay.scale = ax.scale + (vf_chance (rng, 1, 2) ? 1 : -1) * (int)vf_range (rng, 1, 2); if (ay.scale < 1) ay.scale = ax.scale + 1;
            if (ax.bits > 4) ax.bits = ay.bits = (int)vf_range (rng, 0, 4);
            vf_count ("near_equal_axis_pairs", 1);
        }
    }
    axis_clamp (&ax); axis_clamp (&ay);
    check_block (&ax, &ay, (int)(vf_next (rng) % 32));
    /* the block is a function of the arguments alone: the same request repeated after a different one gives the same bytes */
    if (strcmp (vf.config, "grid") && (idx & 1)) {
        int n1 = -1, n2 = -1, n3 = -1;
        vf_inflight ("create_separable_convolution repeated after another request: x=(%s,%s,0x%x,%d) y=(%s,%s,0x%x,%d)", kn[ax.rk], kn[ax.sk], (unsigned)ax.scale, ax.bits, kn[ay.rk], kn[ay.sk], (unsigned)ay.scale, ay.bits);
        pixman_fixed_t *p1 = pixman_filter_create_separable_convolution (&n1, ax.scale, ay.scale, ax.rk, ay.rk, ax.sk, ay.sk, ax.bits, ay.bits);
        pixman_fixed_t *p2 = pixman_filter_create_separable_convolution (&n2, ay.scale, ax.scale, ay.rk, ax.rk, ay.sk, ax.sk, ay.bits, ax.bits);      /* axes exchanged */
        pixman_fixed_t *p3 = pixman_filter_create_separable_convolution (&n3, ax.scale, ay.scale, ax.rk, ay.rk, ax.sk, ay.sk, ax.bits, ay.bits);
        vf_count ("evaluations", 2); vf_count ("repeated_requests", 1);
        if (p1 && p3 && (n1 != n3 || memcmp (p1, p3, (size_t)n1 * sizeof *p1)))
            vf_violation ("C18:same-request-different-block", "the same request gives different blocks before and after an intervening request with the axes exchanged (lengths %d and %d)", n1, n3);
        /* and the x table of a request is the y table of the exchanged request */
        if (p1 && p2 && n1 == n2 && n1 >= 4) {
            int w = pixman_fixed_to_int (p1[0]), h = pixman_fixed_to_int (p1[1]); long nx = (long)w * (1 << ax.bits), ny = (long)h * (1 << ay.bits);
            if (4 + nx + ny == n1 && p2[0] == p1[1] && p2[1] == p1[0] && (memcmp (p1 + 4, p2 + 4 + ny, (size_t)nx * sizeof *p1) || memcmp (p1 + 4 + nx, p2 + 4, (size_t)ny * sizeof *p1)))
                vf_violation ("C18:table-depends-on-axis", "the x table of a request differs from the y table of the same request with the axes exchanged");
        } else if (p1 && p2 && n1 != n2) vf_violation ("C18:table-depends-on-axis", "exchanging the axes changes the block length (%d vs %d)", n1, n2);
        free (p1); free (p2); free (p3);
    }
    if (idx < 3) vf_sample ("x=(%s reconstruct,%s sample,scale=%g,%d bits) y=(%s,%s,scale=%g,%d bits)", kn[ax.rk], kn[ax.sk], ax.scale / 65536.0, ax.bits, kn[ay.rk], kn[ay.sk], ay.scale / 65536.0, ay.bits);
}

int main (int argc, char **argv) { return vf_main (argc, argv, "C18", NULL, filter_case, NULL); }
