#include "ref_pixel.h"
#include <math.h>

#define F(x) { PIXMAN_##x, #x }
const rp_fmt_t rp_formats[] = {
    F (rgba_float), F (rgb_float),
    F (a8r8g8b8), F (x8r8g8b8), F (a8b8g8r8), F (x8b8g8r8), F (b8g8r8a8), F (b8g8r8x8), F (r8g8b8a8), F (r8g8b8x8),
    F (x14r6g6b6), F (x2r10g10b10), F (a2r10g10b10), F (x2b10g10r10), F (a2b10g10r10),
    F (a8r8g8b8_sRGB),
    F (r8g8b8), F (b8g8r8),
    F (r5g6b5), F (b5g6r5), F (a1r5g5b5), F (x1r5g5b5), F (a1b5g5r5), F (x1b5g5r5),
    F (a4r4g4b4), F (x4r4g4b4), F (a4b4g4r4), F (x4b4g4r4),
    F (a8), F (r3g3b2), F (b2g3r3), F (a2r2g2b2), F (a2b2g2r2), F (c8), F (g8), F (x4a4), F (x4c4), F (x4g4),
    F (a4), F (r1g2b1), F (b1g2r1), F (a1r1g1b1), F (a1b1g1r1), F (c4), F (g4),
    F (a1), F (g1),
    F (yuy2), F (yv12),
};
const int rp_nformats = sizeof rp_formats / sizeof rp_formats[0];

const char *rp_name (pixman_format_code_t c)
{
    for (int i = 0; i < rp_nformats; i++) if (rp_formats[i].code == c) return rp_formats[i].name;
    return "?";
}
int rp_is_float (pixman_format_code_t c) { return PIXMAN_FORMAT_TYPE (c) == PIXMAN_TYPE_RGBA_FLOAT; }
int rp_is_srgb (pixman_format_code_t c) { return PIXMAN_FORMAT_TYPE (c) == PIXMAN_TYPE_ARGB_SRGB; }
int rp_is_indexed (pixman_format_code_t c) { int t = PIXMAN_FORMAT_TYPE (c); return t == PIXMAN_TYPE_COLOR || t == PIXMAN_TYPE_GRAY; }
int rp_is_direct (pixman_format_code_t c)
{
    int t = PIXMAN_FORMAT_TYPE (c);
    return t == PIXMAN_TYPE_A || t == PIXMAN_TYPE_ARGB || t == PIXMAN_TYPE_ABGR || t == PIXMAN_TYPE_BGRA || t == PIXMAN_TYPE_RGBA ||
           t == PIXMAN_TYPE_ARGB_SRGB || t == PIXMAN_TYPE_RGBA_FLOAT;
}
int rp_is_wide (pixman_format_code_t c)
{
    return rp_is_float (c) || rp_is_srgb (c) || PIXMAN_FORMAT_A (c) > 8 || PIXMAN_FORMAT_R (c) > 8 || PIXMAN_FORMAT_G (c) > 8 || PIXMAN_FORMAT_B (c) > 8;
}

void rp_layout (pixman_format_code_t c, int sh[4], int bits[4])
{
    int A = PIXMAN_FORMAT_A (c), R = PIXMAN_FORMAT_R (c), G = PIXMAN_FORMAT_G (c), B = PIXMAN_FORMAT_B (c), bpp = PIXMAN_FORMAT_BPP (c);
    bits[0] = A; bits[1] = R; bits[2] = G; bits[3] = B;
    switch (PIXMAN_FORMAT_TYPE (c)) {
    case PIXMAN_TYPE_ARGB: case PIXMAN_TYPE_ARGB_SRGB:
        sh[3] = 0; sh[2] = B; sh[1] = B + G; sh[0] = B + G + R; break;
    case PIXMAN_TYPE_ABGR:
        sh[1] = 0; sh[2] = R; sh[3] = R + G; sh[0] = R + G + B; break;
    case PIXMAN_TYPE_BGRA:
        sh[3] = bpp - B; sh[2] = sh[3] - G; sh[1] = sh[2] - R; sh[0] = sh[1] - A; break;
    case PIXMAN_TYPE_RGBA:
        sh[1] = bpp - R; sh[2] = sh[1] - G; sh[3] = sh[2] - B; sh[0] = sh[3] - A; break;
    default: /* A */
        sh[0] = sh[1] = sh[2] = sh[3] = 0; break;
    }
}
uint32_t rp_defined_mask (pixman_format_code_t c)
{
    int bpp = PIXMAN_FORMAT_BPP (c);
    if (rp_is_indexed (c)) {           /* c8/g8: 8 bits, x4c4/x4g4: low 4, c4/g4: 4, g1: 1 */
        int depth = PIXMAN_FORMAT_DEPTH (c);
        if (depth == 0 || depth > bpp) depth = bpp;
        return depth >= 32 ? 0xffffffffu : ((1u << depth) - 1);
    }
    int sh[4], bits[4]; uint32_t m = 0;
    rp_layout (c, sh, bits);
    for (int i = 0; i < 4; i++) if (bits[i]) m |= (bits[i] >= 32 ? 0xffffffffu : ((1u << bits[i]) - 1)) << sh[i];
    return m;
}
static uint32_t replicate (uint32_t v, int bits, int to)
{
    /* widen a `bits`-wide value to `to` bits by repeating its bit pattern */
    if (bits == 0) return 0;
    uint32_t r = 0; int have = 0;
    while (have < to) { r = (r << bits) | v; have += bits; }
    return r >> (have - to);
}
void rp_decode8 (pixman_format_code_t c, uint32_t raw, uint8_t argb[4])
{
    int sh[4], bits[4]; rp_layout (c, sh, bits);
    for (int i = 0; i < 4; i++) {
        if (!bits[i]) { argb[i] = i == 0 ? 0xff : 0; continue; }
        uint32_t v = (raw >> sh[i]) & ((1u << bits[i]) - 1);
        argb[i] = (uint8_t)replicate (v, bits[i], 8);
    }
}
uint32_t rp_encode8 (pixman_format_code_t c, const uint8_t argb[4])
{
    int sh[4], bits[4]; uint32_t raw = 0; rp_layout (c, sh, bits);
    for (int i = 0; i < 4; i++) if (bits[i]) raw |= (uint32_t)(argb[i] >> (8 - bits[i])) << sh[i];
    return raw;
}
void rp_raw_channels (pixman_format_code_t c, uint32_t raw, uint32_t ch[4])
{
    int sh[4], bits[4]; rp_layout (c, sh, bits);
    for (int i = 0; i < 4; i++) ch[i] = bits[i] ? (raw >> sh[i]) & (bits[i] >= 32 ? 0xffffffffu : ((1u << bits[i]) - 1)) : 0;
}
void rp_channel_max (pixman_format_code_t c, int max[4])
{
    if (rp_is_float (c)) { max[0] = max[1] = max[2] = max[3] = 0; return; }
    int sh[4], bits[4]; rp_layout (c, sh, bits);
    for (int i = 0; i < 4; i++) max[i] = bits[i] ? (int)((1u << bits[i]) - 1) : 0;
}
double rp_srgb_to_linear (double v) { return v <= 0.04045 ? v / 12.92 : pow ((v + 0.055) / 1.055, 2.4); }
double rp_linear_to_srgb (double v) { return v <= 0.0031308 ? v * 12.92 : 1.055 * pow (v, 1.0 / 2.4) - 0.055; }

void rp_decodef_row (pixman_format_code_t c, const uint8_t *row, int x, double argb[4])
{
    if (rp_is_float (c)) {
        int n = PIXMAN_FORMAT_BPP (c) / 32;        /* 4 or 3 floats: r,g,b,(a) */
        float f[4]; memcpy (f, row + (size_t)x * n * 4, n * 4);
        argb[1] = f[0]; argb[2] = f[1]; argb[3] = f[2]; argb[0] = n == 4 ? f[3] : 1.0;
        return;
    }
    int bpp = PIXMAN_FORMAT_BPP (c);
    uint32_t raw = vf_get_px (row, bpp, x);
    int sh[4], bits[4]; rp_layout (c, sh, bits);
    for (int i = 0; i < 4; i++) {
        if (!bits[i]) { argb[i] = i == 0 ? 1.0 : 0.0; continue; }
        uint32_t v = (raw >> sh[i]) & ((1u << bits[i]) - 1);
        argb[i] = (double)v / (double)((1u << bits[i]) - 1);      /* the real value the field denotes */
        if (rp_is_srgb (c) && i > 0) argb[i] = rp_srgb_to_linear (argb[i]);
    }
}
