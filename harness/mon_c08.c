/* Monitor for C08: transformed sampling against a reference sampler written from the statement
 * and rounding.txt: exact positions in 64/128-bit integers, nearest = floor(x - e), bilinear with
 * 7-bit weights, convolution alignment, repeat maps written from their definitions. */
#include "vf.h"
/* run for C04 (--prop C04) the sampling oracles stay silent: that run only watches memory safety (ASan / guard pages around the source) */
#define vf_violation(...) do { if (!strcmp (vf.prop, "C08")) (vf_violation) (__VA_ARGS__); } while (0)
#include "vf_req.h"
#include "ref_pixel.h"
#include <math.h>

typedef __int128 i128;
typedef struct { const vf_buf *b; pixman_format_code_t fmt; int w, h, repeat; } src_t;

/* repeat maps, from their definitions */
static int map_coord (int repeat, int c, int size, int *outside)
{
    *outside = 0;
    switch (repeat) {
    case PIXMAN_REPEAT_NONE: if (c < 0 || c >= size) *outside = 1; return c;
    case PIXMAN_REPEAT_NORMAL: { int m = c % size; if (m < 0) m += size; return m; }
    case PIXMAN_REPEAT_PAD: return c < 0 ? 0 : c >= size ? size - 1 : c;
    default: { int p = 2 * size, m = c % p; if (m < 0) m += p; return m < size ? m : p - 1 - m; }   /* REFLECT */
    }
}
/* canonical a,r,g,b of the source pixel at (x,y) after the repeat map; transparent outside a NONE image */
static void src_px (const src_t *s, int x, int y, uint8_t p[4])
{
    int ox, oy; int mx = map_coord (s->repeat, x, s->w, &ox), my = map_coord (s->repeat, y, s->h, &oy);
    if (ox || oy) { p[0] = p[1] = p[2] = p[3] = 0; return; }
    rp_decode8 (s->fmt, vf_get_px (vf_buf_row (s->b, my), s->b->bpp, mx), p);
}
static uint32_t pack (const uint8_t p[4]) { return (uint32_t)p[0] << 24 | (uint32_t)p[1] << 16 | (uint32_t)p[2] << 8 | p[3]; }

static uint32_t ref_nearest (const src_t *s, int64_t px, int64_t py)
{
    uint8_t p[4]; src_px (s, (int)((px - 1) >> 16), (int)((py - 1) >> 16), p); return pack (p);
}
static uint32_t ref_bilinear (const src_t *s, int64_t px, int64_t py)
{
    int64_t x1 = px - 0x8000, y1 = py - 0x8000;
    int wx = (int)((x1 >> 9) & 0x7f) * 2, wy = (int)((y1 >> 9) & 0x7f) * 2;
    int ix = (int)(x1 >> 16), iy = (int)(y1 >> 16);
    uint8_t tl[4], tr[4], bl[4], br[4], o[4];
    src_px (s, ix, iy, tl); src_px (s, ix + 1, iy, tr); src_px (s, ix, iy + 1, bl); src_px (s, ix + 1, iy + 1, br);
    for (int c = 0; c < 4; c++)
        o[c] = (uint8_t)((tl[c] * (256 - wx) * (256 - wy) + tr[c] * wx * (256 - wy) + bl[c] * (256 - wx) * wy + br[c] * wx * wy) >> 16);
    return pack (o);
}
/* convolution / separable convolution: real-valued sum with the kernel aligned per rounding.txt; returns per channel value*1 (double) */
static void ref_convolution (const src_t *s, const rq_image *im, int64_t px, int64_t py, double out[4])
{
    const pixman_fixed_t *pr = im->params;
    int cw = pixman_fixed_to_int (pr[0]), ch = pixman_fixed_to_int (pr[1]);
    double acc[4] = { 0, 0, 0, 0 };
    if (im->filter == PIXMAN_FILTER_CONVOLUTION) {
        int64_t xoff = (pr[0] - 65536) >> 1, yoff = (pr[1] - 65536) >> 1;
        int x1 = (int)((px - 1 - xoff) >> 16), y1 = (int)((py - 1 - yoff) >> 16);
        for (int j = 0; j < ch; j++) for (int i = 0; i < cw; i++) {
            double f = pr[2 + j * cw + i] / 65536.0; if (f == 0) continue;
            uint8_t p[4]; src_px (s, x1 + i, y1 + j, p);
            for (int c = 0; c < 4; c++) acc[c] += p[c] * f;
        }
    } else {
        int xb = pixman_fixed_to_int (pr[2]), yb = pixman_fixed_to_int (pr[3]);
        int xs = 16 - xb, ys = 16 - yb;
        int64_t xoff = (((int64_t)cw << 16) - 65536) >> 1, yoff = (((int64_t)ch << 16) - 65536) >> 1;
        /* the phase: position rounded to the middle of the closest phase */
        int64_t x = ((px >> xs) << xs) + ((1 << xs) >> 1), y = ((py >> ys) << ys) + ((1 << ys) >> 1);
        int phx = (int)((x & 0xffff) >> xs), phy = (int)((y & 0xffff) >> ys);
        const pixman_fixed_t *xp = pr + 4 + phx * cw, *yp = pr + 4 + (1 << xb) * cw + phy * ch;
        int x1 = (int)((x - 1 - xoff) >> 16), y1 = (int)((y - 1 - yoff) >> 16);
        for (int j = 0; j < ch; j++) for (int i = 0; i < cw; i++) {
            double f = (yp[j] / 65536.0) * (xp[i] / 65536.0); if (f == 0) continue;
            uint8_t p[4]; src_px (s, x1 + i, y1 + j, p);
            for (int c = 0; c < 4; c++) acc[c] += p[c] * f;
        }
    }
    for (int c = 0; c < 4; c++) out[c] = acc[c] < 0 ? 0 : acc[c] > 255 ? 255 : acc[c];
}

static const pixman_format_code_t src_formats[] = { PIXMAN_a8r8g8b8, PIXMAN_x8r8g8b8, PIXMAN_a8, PIXMAN_r5g6b5, PIXMAN_a8b8g8r8, PIXMAN_a1r5g5b5, PIXMAN_a4, PIXMAN_a1, PIXMAN_x8b8g8r8, PIXMAN_b8g8r8a8, PIXMAN_r8g8b8, PIXMAN_a4r4g4b4 };

/* the exact 8-bit OVER of the library on a8r8g8b8: d' = s + d*(255-sa)/255 with the (t + (t>>8))>>8 rounding, saturating add */
static uint32_t over8888 (uint32_t sp, uint32_t dp)
{
    unsigned ia = 255 - (sp >> 24); uint32_t out = 0;
    for (int c = 0; c < 4; c++) { unsigned sv = (sp >> (8 * c)) & 0xff, dv = (dp >> (8 * c)) & 0xff, t = dv * ia + 0x80; unsigned v = sv + ((t + (t >> 8)) >> 8); if (v > 255) v = 255; out |= v << (8 * c); }
    return out;
}
static void c08_case (long idx, vf_rng *r)
{
    rq_request q; memset (&q, 0, sizeof q);
    rq_image *s = &q.src, *d = &q.dst;
    s->kind = RQ_BITS; s->fmt = vf_chance (r, 1, 2) ? src_formats[vf_next (r) % 4] : VF_PICK (r, src_formats);
    s->w = vf_chance (r, 1, 5) ? (int)vf_range (r, 1, 2) : (int)vf_range (r, 1, 24); s->h = vf_chance (r, 1, 5) ? (int)vf_range (r, 1, 2) : (int)vf_range (r, 1, 24);
    if (vf_chance (r, 1, 8)) s->w = (int)vf_range (r, 60, 130);
    s->pad = (int)(vf_next (r) % 2); s->pixseed = vf_next (r); s->pixstyle = (int)(vf_next (r) % 3);
    static const int classes[] = { TR_INT_TRANSLATE, TR_FRAC_TRANSLATE, TR_FRAC_TRANSLATE, TR_SCALE_POS, TR_SCALE_ANY, TR_SCALE_ANY, TR_ROT90, TR_ROT180, TR_ROT270, TR_AFFINE, TR_AFFINE, TR_PROJECTIVE, TR_PROJECTIVE, TR_IDENTITY };
    rq_gen_transform (r, s, VF_PICK (r, classes), 0);
    static const int filters[] = { PIXMAN_FILTER_NEAREST, PIXMAN_FILTER_NEAREST, PIXMAN_FILTER_BILINEAR, PIXMAN_FILTER_BILINEAR, PIXMAN_FILTER_CONVOLUTION, PIXMAN_FILTER_SEPARABLE_CONVOLUTION };
    rq_gen_filter (r, s, VF_PICK (r, filters));
    s->repeat = (int)(vf_next (r) % 4);
    /* very wide sources (positions near the ends of the 16.16 range) */
    int wide_src = 0, tight_rot = 0;
    if ((s->tr_class == TR_SCALE_POS || s->tr_class == TR_SCALE_ANY) && vf_chance (r, 1, 6)) {
        wide_src = 1; s->w = (int)vf_range (r, 12000, 32766); s->h = (int)vf_range (r, 1, 2);
        if (PIXMAN_FORMAT_BPP (s->fmt) < 8) s->fmt = PIXMAN_a8;
    }
    d->kind = RQ_BITS; d->fmt = PIXMAN_a8r8g8b8; d->w = (int)vf_range (r, 1, 40); d->h = (int)vf_range (r, 1, 6); d->pixseed = vf_next (r);
    /* destination clipped into several runs so that run starts vary */
    if (vf_chance (r, 1, 3)) { d->n_clip = (int)vf_range (r, 1, 4); for (int i = 0; i < d->n_clip; i++) { int x1 = (int)vf_range (r, 0, d->w - 1); d->clip[i].x1 = x1; d->clip[i].x2 = x1 + (int)vf_range (r, 1, 12); d->clip[i].y1 = (int)vf_range (r, 0, d->h - 1); d->clip[i].y2 = d->clip[i].y1 + (int)vf_range (r, 1, 3); } }
    q.op = PIXMAN_OP_SRC; q.w = d->w; q.h = d->h;
    /* nearly affine: the bottom row is one unit (1/65536) away from (0, 0, 1), the request a few hundred to a thousand pixels wide, the source
     * just as large as the true (divided) footprint: walking it as if it were affine ends far from where the projective mapping says */
    int nearly_affine = 0;
    if (!wide_src && vf_chance (r, 1, 12)) {
        d->w = (int)vf_range (r, 300, 1100); d->h = (int)vf_range (r, 1, 2); d->n_clip = 0; q.w = d->w; q.h = d->h; q.sx = q.sy = 0;
        static const pixman_fixed_t scs[] = { 65536, 65536, 32768, 98304 }; pixman_fixed_t sc = VF_PICK (r, scs); int e0, e1, e2; do { e0 = (int)(vf_next (r) % 3) - 1; e1 = (int)(vf_next (r) % 3) - 1; e2 = (int)(vf_next (r) % 3) - 1; } while (!e0 && !e1 && !e2);
        s->tr_class = TR_PROJECTIVE; pixman_transform_init_identity (&s->tr); s->tr.matrix[0][0] = sc; s->tr.matrix[2][0] = e0; s->tr.matrix[2][1] = e1; s->tr.matrix[2][2] = 65536 + e2;
        double xmax = 0; for (int k = 0; k < 2; k++) { double X = k ? d->w : 0.0, wv = (e0 * X + e1 * 1.0) / 65536.0 + (65536 + e2) / 65536.0, xv = sc / 65536.0 * X / wv; if (xv > xmax) xmax = xv; }
        s->w = (int)xmax + 2; if (s->w > 4000) s->w = 4000; s->h = d->h + 1; if (PIXMAN_FORMAT_BPP (s->fmt) < 8) s->fmt = PIXMAN_a8r8g8b8;
        s->filter = vf_chance (r, 1, 2) ? PIXMAN_FILTER_NEAREST : PIXMAN_FILTER_BILINEAR; s->n_params = 0; s->repeat = vf_chance (r, 1, 2) ? PIXMAN_REPEAT_NONE : PIXMAN_REPEAT_PAD; nearly_affine = 1;
    }
    /* wrap-around exactly at the source width: a narrow NORMAL-repeat source walked at a scale of 1, 1/2 or 2 from a position that is a whole
     * pixel, or one unit (1/65536) to either side of it, so that the running coordinate hits k * width (+-1 unit) many times per row */
    int wrap_class = 0;
    if (!wide_src && !tight_rot && !nearly_affine && vf_chance (r, 1, 8)) {
        static const pixman_fixed_t scs[] = { 65536, 65536, 32768, 131072, 65536 / 4 }; static const pixman_fixed_t frs[] = { 0x8000, 0x8001, 0x7fff, 0x8001, 0 };
        s->tr_class = TR_SCALE_POS; pixman_transform_init_identity (&s->tr); s->tr.matrix[0][0] = VF_PICK (r, scs); s->tr.matrix[1][1] = vf_chance (r, 1, 2) ? 65536 : VF_PICK (r, scs);
        s->tr.matrix[0][2] = (pixman_fixed_t)(vf_range (r, -3, 9) * 65536) + VF_PICK (r, frs); s->tr.matrix[1][2] = (pixman_fixed_t)(vf_range (r, -2, 4) * 65536) + VF_PICK (r, frs);
        s->repeat = PIXMAN_REPEAT_NORMAL; s->w = vf_chance (r, 1, 2) ? (int)vf_range (r, 1, 9) : (int)vf_range (r, 64, 100);   /* from 64 pixels on, the scaled fast paths walk the source itself instead of an extended copy */
        s->h = (int)vf_range (r, 1, 5); if (vf_chance (r, 2, 3)) s->fmt = PIXMAN_a8r8g8b8;
        s->filter = vf_chance (r, 2, 3) ? PIXMAN_FILTER_NEAREST : PIXMAN_FILTER_BILINEAR; s->n_params = 0; q.sx = (int)vf_range (r, 0, 3); q.sy = 0; wrap_class = 1;
    }
    /* OVER (exact 8-bit rule on the a8r8g8b8 destination) for the exactly judged classes: the scaled fast paths have separate OVER routines */
    int use_over = s->tr_class != TR_PROJECTIVE && (s->filter == PIXMAN_FILTER_NEAREST || s->filter == PIXMAN_FILTER_BILINEAR) && vf_chance (r, 1, wrap_class ? 2 : 3);
    if (use_over) q.op = PIXMAN_OP_OVER; q.sx = (int)vf_range (r, -3, 5); q.sy = (int)vf_range (r, -2, 3);
    if (vf_chance (r, 1, 2)) q.sx = q.sy = 0;
    /* exact quarter turns that map the request rectangle exactly onto the source (the outermost samples are the source's border pixels),
     * about a centre on the pixel grid or half-way between: a sampler that steps one row or column too far leaves the image */
    if ((s->tr_class == TR_ROT90 || s->tr_class == TR_ROT180 || s->tr_class == TR_ROT270) && !wide_src && vf_chance (r, 1, 2)) {
        static const pixman_fixed_t fr[] = { 0, 0x8000, 0x8000, 0x4000, 0xc000 }; pixman_fixed_t fx = VF_PICK (r, fr), fy = VF_PICK (r, fr);
        q.sx = q.sy = 0;
        if (s->tr_class == TR_ROT180) { s->w = d->w; s->h = d->h; s->tr.matrix[0][2] = d->w * 65536 + fx; s->tr.matrix[1][2] = d->h * 65536 + fy; }
        else { s->w = d->h; s->h = d->w; if (s->tr_class == TR_ROT90) { s->tr.matrix[0][2] = d->h * 65536 + fx; s->tr.matrix[1][2] = fy; } else { s->tr.matrix[0][2] = fx; s->tr.matrix[1][2] = d->w * 65536 + fy; } }
        tight_rot = 1;
    }
    if (wide_src) {
        double sc = (double)s->w / d->w * (0.3 + vf_unit (r));
        int neg = s->tr.matrix[0][0] < 0;
        s->tr.matrix[0][0] = (pixman_fixed_t)(sc * 65536) * (neg ? -1 : 1);
        s->tr.matrix[0][2] = neg ? pixman_int_to_fixed (s->w - (int)vf_range (r, 0, 3000)) : -(pixman_fixed_t)(vf_range (r, 0, 3000) * 65536);
        s->tr.matrix[1][1] = 65536; s->tr.matrix[1][2] = 0; q.sx = (int)vf_range (r, 0, 2); q.sy = 0;
    }
    /* an a8 mask of zeros and 0xff: masked-out pixels must not disturb the sampling of the others */
    int masked = vf_chance (r, 1, use_over ? 2 : 4);
    if (masked) {
        q.has_mask = 1; rq_image *m = &q.mask; memset (m, 0, sizeof *m); m->kind = RQ_BITS; m->fmt = PIXMAN_a8; m->w = d->w; m->h = d->h; m->pixseed = vf_next (r); m->filter = PIXMAN_FILTER_NEAREST;
        q.mx = q.my = 0;
    }
    if (!rq_build (&q, r)) return;
    if (masked) { vf_rng mr; vf_rng_seed (&mr, q.mask.pixseed, 3, 3); int style = (int)(vf_next (&mr) % 4); int run = (int)vf_range (&mr, 3, 9), phase = (int)vf_range (&mr, 0, 8);
        for (int y = 0; y < d->h; y++) for (int x = 0; x < d->w; x++) { int z = style == 0 ? vf_chance (&mr, 1, 2) : style == 1 ? ((x / 4) & 1) : style == 2 ? vf_chance (&mr, 1, 8) : (((x + phase + y) / run) & 1);   /* style 3: runs of zeros and of 0xff, of every length and alignment */ vf_put_px (vf_buf_row (&q.mask.buf, y), 8, x, z ? 0 : 0xff); } }
    int overflow_class = s->repeat == PIXMAN_REPEAT_NORMAL && ((int64_t)s->w * 65536 + (s->tr.matrix[0][0] < 0 ? -(int64_t)s->tr.matrix[0][0] : s->tr.matrix[0][0]) > INT32_MAX);
    /* the statement covers transforms whose sample positions stay in the 16.16 range; the library conservatively drops a request
     * when the extents expanded by one pixel (plus the filter footprint) leave it: such requests are not judged here (C04) */
    {
        const pixman_transform_t *tt = &s->tr; int out_of_range = 0;
        double margin = 4 + (s->n_params ? pixman_fixed_to_int (s->params[0]) + pixman_fixed_to_int (s->params[1]) : 0);
        for (int k = 0; k < 4; k++) {
            double X = (k & 1 ? d->w + 1 : -1) + q.sx, Y = (k & 2 ? d->h + 1 : -1) + q.sy;
            double nx = tt->matrix[0][0] / 65536.0 * X + tt->matrix[0][1] / 65536.0 * Y + tt->matrix[0][2] / 65536.0, ny = tt->matrix[1][0] / 65536.0 * X + tt->matrix[1][1] / 65536.0 * Y + tt->matrix[1][2] / 65536.0,
                   nw = tt->matrix[2][0] / 65536.0 * X + tt->matrix[2][1] / 65536.0 * Y + tt->matrix[2][2] / 65536.0;
            if (nw == 0 || fabs (nx / nw) > 32767 - margin || fabs (ny / nw) > 32767 - margin || fabs (nx) > 32767 - margin || fabs (ny) > 32767 - margin || fabs (nw) > 32767) out_of_range = 1;
        }
        if (out_of_range) { vf_count ("not_representable_not_judged", 1); rq_free (&q); return; }
    }
    vf_buf_snapshot (&d->buf);
    static char desc[1500]; rq_describe (&q, desc, sizeof desc);
    vf_case_desc ("%s chain='%s'", desc, vf_chain_env ()); vf_inflight ("%s", desc);
    rq_run (&q);

    src_t S = { &s->buf, s->fmt, s->w, s->h, s->repeat };
    const pixman_transform_t *t = &s->tr;
    int affine = t->matrix[2][0] == 0 && t->matrix[2][1] == 0 && t->matrix[2][2] == 65536;
    int conv = s->filter == PIXMAN_FILTER_CONVOLUTION || s->filter == PIXMAN_FILTER_SEPARABLE_CONVOLUTION;
    long npx = 0, nboundary = 0, nambig = 0; int reported = 0;
    char key[160];
    const char *fname = rq_filter_name (s->filter);
    for (int y = 0; y < d->h && !reported; y++) for (int x = 0; x < d->w; x++) {
        uint32_t got = vf_get_px (vf_buf_row (&d->buf, y), 32, x), before = vf_get_px (vf_buf_snaprow (&d->buf, y), 32, x);
        /* inside the clip? (pixels outside keep their old value; C03 checks that) */
        int in = d->n_clip == 0;
        for (int i = 0; i < d->n_clip && !in; i++) if (x >= d->clip[i].x1 && x < d->clip[i].x2 && y >= d->clip[i].y1 && y < d->clip[i].y2) in = 1;
        if (!in) { (void)before; continue; }
        npx++;
        if (masked && vf_get_px (vf_buf_row (&q.mask.buf, y), 8, x) == 0) {
            if (got != (use_over ? before : 0)) { vf_violation (use_over ? "C08:masked-out-pixel-changed" : "C08:masked-out-pixel-not-transparent", "destination (%d,%d) has mask 0 but holds %08x after %s (before: %08x)", x, y, got, use_over ? "OP_OVER" : "OP_SRC", before); reported = 1; break; }
            continue;
        }
        /* destination pixel centre in source space: exact with 32 fractional bits */
        int64_t cx = ((int64_t)(x + q.sx) << 16) + 0x8000, cy = ((int64_t)(y + q.sy) << 16) + 0x8000;
        i128 nx = (i128)t->matrix[0][0] * cx + (i128)t->matrix[0][1] * cy + ((i128)t->matrix[0][2] << 16);
        i128 ny = (i128)t->matrix[1][0] * cx + (i128)t->matrix[1][1] * cy + ((i128)t->matrix[1][2] << 16);
        i128 nw = (i128)t->matrix[2][0] * cx + (i128)t->matrix[2][1] * cy + ((i128)t->matrix[2][2] << 16);
        if (affine) {
            /* documented rounding of the 32-fraction product to 16.16: half up (C11) */
            int64_t px = (int64_t)((nx + 0x8000) >> 16), py = (int64_t)((ny + 0x8000) >> 16);
            if (((px - 1) & 0xffff) == 0xffff || ((px) & 0xffff) == 0x8000) nboundary++;
            if (!conv) {
                uint32_t want = (s->filter == PIXMAN_FILTER_NEAREST) ? ref_nearest (&S, px, py) : ref_bilinear (&S, px, py);
                if (use_over) want = over8888 (want, before);
                if (got != want) {
                    snprintf (key, sizeof key, "C08:affine-%s-%s:%s%s", fname, rq_repeat_name (s->repeat), rq_tr_name[s->tr_class], overflow_class ? ":normal-repeat-width-plus-step-beyond-16.16" : "");
                    vf_violation (key, "destination (%d,%d): source position (%lld,%lld)/65536 -> got %08x, reference sampler gives %08x (source %s %dx%d)", x, y, (long long)px, (long long)py, got, want, rp_name (s->fmt), s->w, s->h);
                    reported = 1; break;
                }
            } else {
                double want[4]; ref_convolution (&S, s, px, py, want);
                for (int c = 0; c < 4; c++) { int g = (got >> (24 - 8 * c)) & 0xff; if (fabs (g - want[c]) > 1.0 + 1e-6) {
                    snprintf (key, sizeof key, "C08:affine-%s-%s:%s", fname, rq_repeat_name (s->repeat), rq_tr_name[s->tr_class]);
                    vf_violation (key, "destination (%d,%d) channel %d: got %d, kernel aligned per rounding.txt gives %.3f (position (%lld,%lld)/65536)", x, y, c, g, want[c], (long long)px, (long long)py);
                    reported = 1; break; } }
                if (reported) break;
            }
        } else {
            /* projective: the exact quotient; the library divides 16.16-rounded numerators, so any position within the
             * propagated rounding error of the exact one is admissible */
            if (nw == 0) { nambig++; continue; }
            double qx = (double)nx / (double)nw * 65536.0, qy = (double)ny / (double)nw * 65536.0, w = fabs ((double)nw / 4294967296.0);
            if (fabs (qx) > 2.0e9 || fabs (qy) > 2.0e9) { nambig++; continue; }
            double dx = (0.5 + 0.5 * fabs (qx) / 65536.0 / 65536.0 * 65536.0) / w + 1.5, dy = (0.5 + 0.5 * fabs (qy) / 65536.0) / w + 1.5;
            dx = (0.5 + 0.5 * fabs (qx / 65536.0)) / w + 1.5;
            if (dx > 48 || dy > 48) { nambig++; continue; }
            int ok = 0; int64_t lx = (int64_t)floor (qx - dx), hx = (int64_t)ceil (qx + dx), ly = (int64_t)floor (qy - dy), hy = (int64_t)ceil (qy + dy);
            if (conv) {
                /* kernel alignment changes only at phase / pixel boundaries: try the corner and centre positions */
                for (int k = 0; k < 9 && !ok; k++) { int64_t px = k % 3 == 0 ? lx : k % 3 == 1 ? (int64_t)llround (qx) : hx, py = k / 3 == 0 ? ly : k / 3 == 1 ? (int64_t)llround (qy) : hy;
                    double want[4]; ref_convolution (&S, s, px, py, want); int good = 1;
                    for (int c = 0; c < 4; c++) if (fabs ((double)((got >> (24 - 8 * c)) & 0xff) - want[c]) > 1.0 + 1e-6) good = 0;
                    ok = good; }
                if (!ok) {
                    /* full scan of the admissible window */
                    for (int64_t py = ly; py <= hy && !ok; py++) for (int64_t px = lx; px <= hx; px++) { double want[4]; ref_convolution (&S, s, px, py, want); int good = 1;
                        for (int c = 0; c < 4; c++) if (fabs ((double)((got >> (24 - 8 * c)) & 0xff) - want[c]) > 1.0 + 1e-6) good = 0;
                        if (good) { ok = 1; break; } }
                }
            } else {
                for (int64_t py = ly; py <= hy && !ok; py++) for (int64_t px = lx; px <= hx; px++) {
                    uint32_t want = (s->filter == PIXMAN_FILTER_NEAREST) ? ref_nearest (&S, px, py) : ref_bilinear (&S, px, py);
                    if (want == got) { ok = 1; break; }
                }
            }
            if (!ok) {
                snprintf (key, sizeof key, "C08:projective-%s-%s", fname, rq_repeat_name (s->repeat));
                vf_violation (key, "destination (%d,%d): exact source position (%.2f,%.2f)/65536 (w=%.4f): got %08x, no position within +-(%.1f,%.1f) units gives it (source %s %dx%d)", x, y, qx, qy, (double)nw / 4294967296.0, got, dx, dy, rp_name (s->fmt), s->w, s->h);
                reported = 1; break;
            }
        }
    }
    vf_count ("evaluations", npx);
    vf_count (affine ? (conv ? "pixels_affine_convolution" : "pixels_affine_exact") : "pixels_projective", npx);
    if (masked) vf_count ("masked_cases", 1); if (use_over) vf_count ("over_cases", 1);
    if (wide_src) vf_count ("wide_source_cases", 1); if (tight_rot) vf_count ("tight_quarter_turn_cases", 1); if (wrap_class) vf_count ("wrap_exactly_at_width_cases", 1); if (nearly_affine) vf_count ("nearly_affine_wide_cases", 1);
    vf_count ("samples_on_a_boundary", nboundary); vf_count ("projective_not_judged", nambig);
    vf_label ("filter_repeat_transform", "%s/%s/%s", fname, rq_repeat_name (s->repeat), rq_tr_name[s->tr_class]);
    vf_cell ("cells", vf_mix (vf_mix ((uint64_t)s->fmt, s->filter * 16 + s->repeat), vf_mix (s->tr_class, (s->w <= 2) * 2 + (s->h <= 2) + 4 * (d->n_clip > 0))));
    if (idx < 3) vf_sample ("%s", desc);
    rq_free (&q);
}

int main (int argc, char **argv) { return vf_main (argc, argv, "C08", NULL, c08_case, NULL); }
