/* Allocation fail-points and accounting, linked with -Wl,--wrap=malloc,--wrap=calloc,--wrap=realloc,--wrap=free.
 * While accounting is ON every allocation made by the process (library and harness alike) is counted and
 * recorded; the k-th one can be made to fail (once or from then on). */
#ifndef VF_ALLOC_H
#define VF_ALLOC_H
#include <stddef.h>
void vf_alloc_begin (long fail_at, int persistent);   /* fail_at < 0: never fail */
void vf_alloc_end (void);
long vf_alloc_count (void);            /* allocations attempted since begin */
long vf_alloc_failed (void);           /* allocations that were made to fail */
long vf_alloc_live (void);             /* blocks allocated since the last reset and not yet freed */
void vf_alloc_reset_live (void);
void *vf_alloc_first_live_site (size_t *size);   /* return address of the allocation of some live block */
void *vf_alloc_last_failed_site (void);
#endif
