/* Reference pixel codec written from the public format macros of pixman.h and the
 * statement of C10/C01 (bit replication when widening, truncation when narrowing,
 * absent alpha = 1, absent colour = 0).  Never calls into pixman. */
#ifndef REF_PIXEL_H
#define REF_PIXEL_H
#include "vf.h"

typedef struct {
    pixman_format_code_t code;
    const char *name;
} rp_fmt_t;

extern const rp_fmt_t rp_formats[];
extern const int rp_nformats;
const char *rp_name (pixman_format_code_t c);

/* classification */
int rp_is_wide (pixman_format_code_t c);          /* > 8 bits in a channel, sRGB or float */
int rp_is_direct (pixman_format_code_t c);        /* ARGB/ABGR/BGRA/RGBA/A types (incl. wide), not indexed/YUV */
int rp_is_indexed (pixman_format_code_t c);
int rp_is_float (pixman_format_code_t c);
int rp_is_srgb (pixman_format_code_t c);
/* channel geometry for direct formats <= 32 bpp: order a,r,g,b */
void rp_layout (pixman_format_code_t c, int shift[4], int bits[4]);
uint32_t rp_defined_mask (pixman_format_code_t c);   /* bits of a raw pixel the format defines */

/* narrow direct formats: raw <-> canonical 8-bit a,r,g,b */
void rp_decode8 (pixman_format_code_t c, uint32_t raw, uint8_t argb[4]);
uint32_t rp_encode8 (pixman_format_code_t c, const uint8_t argb[4]);
/* any direct format: pixel at x of a row -> real-valued a,r,g,b in [0,1] (sRGB colour decoded to linear) */
void rp_decodef_row (pixman_format_code_t c, const uint8_t *row, int x, double argb[4]);
/* channel maximum (2^bits-1) of a destination channel, 0 when the channel is absent; float -> 0 */
void rp_channel_max (pixman_format_code_t c, int max[4]);
/* raw channel values of a pixel (for tolerance comparison in the destination's own units) */
void rp_raw_channels (pixman_format_code_t c, uint32_t raw, uint32_t ch[4]);
double rp_srgb_to_linear (double v);
double rp_linear_to_srgb (double v);

#endif
