/* Request generator shared by the drawing monitors (C02, C03, C04, C09, C14, C19):
 * a request = operator + source/mask/destination image descriptions + geometry,
 * regenerable from a PRNG state, buildable on guarded storage, executable and digestible. */
#ifndef VF_REQ_H
#define VF_REQ_H
#include "vf.h"

enum { RQ_BITS = 0, RQ_SOLID, RQ_LINEAR, RQ_RADIAL, RQ_CONICAL };
enum { TR_NONE = 0, TR_IDENTITY, TR_INT_TRANSLATE, TR_FRAC_TRANSLATE, TR_SCALE_POS, TR_SCALE_ANY, TR_ROT90, TR_ROT180, TR_ROT270, TR_AFFINE, TR_PROJECTIVE, TR_NCLASSES };
extern const char *rq_tr_name[];
extern const char *rq_filter_name (int f);
extern const char *rq_repeat_name (int r);

#define RQ_MAX_PARAMS 260
#define RQ_MAX_CLIP 8
typedef struct {
    int kind;
    pixman_format_code_t fmt;
    int w, h, pad, neg;
    uint64_t pixseed;
    int pixstyle;                  /* 0 random, 1 opaque-biased, 2 sparse (many zero), 3 constant */
    pixman_color_t solid;
    int tr_class; pixman_transform_t tr;
    int filter; int n_params; pixman_fixed_t params[RQ_MAX_PARAMS];
    int repeat;
    int ca;
    int n_clip; pixman_box32_t clip[RQ_MAX_CLIP]; int clip_sources; int has_client_clip_only;
    int alpha_map, am_x, am_y, am_w, am_h;
    int accessors;
    int n_stops; pixman_gradient_stop_t stops[8];
    pixman_point_fixed_t p1, p2; pixman_fixed_t r1, r2, angle;
    int indexed_gray;
    /* live state */
    vf_buf buf, abuf;
    pixman_image_t *img, *amap;
    pixman_fixed_t *live_params;
    pixman_indexed_t *palette;
} rq_image;

typedef struct {
    pixman_op_t op;
    rq_image src, mask, dst;
    int has_mask;
    int sx, sy, mx, my, dx, dy, w, h;
    int cover;                     /* generator tried to make the source cover the sampled area */
    int pixbuf;                    /* 1/2: mask is an a8b8g8r8/a8r8g8b8 view of the source's own storage (pixbuf fast paths) */
} rq_request;

/* generation profiles (bit flags) */
#define RQP_SIMPLE_DEST   1      /* destination: no clip, no alpha map, no accessors */
#define RQP_NO_GRADIENT   2
#define RQP_NARROW_ONLY   4      /* only formats of <= 8 bits per channel */
#define RQP_HOSTILE       8      /* extreme geometry (C04) */
#define RQP_CLIPPY       16      /* multi-rectangle clips everywhere (C03) */
#define RQP_NO_ACCESSORS 32
#define RQP_NO_ALPHAMAP  64
#define RQP_NO_INDEXED  128
#define RQP_OPAQUE_BIAS 256

void rq_generate (vf_rng *r, rq_request *q, unsigned profile);
/* directed: formats/op fixed by caller (e.g. from a fast-path table entry), property classes chosen here */
void rq_gen_image (vf_rng *r, rq_image *im, int role, unsigned profile);   /* role 0 src, 1 mask, 2 dst */
void rq_gen_geometry (vf_rng *r, rq_request *q, unsigned profile);
void rq_gen_transform (vf_rng *r, rq_image *im, int cls, unsigned profile);
void rq_gen_filter (vf_rng *r, rq_image *im, int filter);

int  rq_build (rq_request *q, vf_rng *r);       /* allocate guarded storage, fill pixels, create images; 0 on failure */
void rq_run (rq_request *q);
uint64_t rq_digest (const rq_request *q);
void rq_free (rq_request *q);
void rq_make_premultiplied (rq_image *im);
void rq_describe (const rq_request *q, char *buf, size_t n);
void rq_label (const rq_request *q, char *buf, size_t n);   /* short class label */
uint64_t rq_cell (const rq_request *q);
pixman_indexed_t *rq_make_palette (pixman_format_code_t f, uint64_t seed);   /* coherent: ent[key(rgba[i])] == i */

extern const pixman_format_code_t rq_dst_formats[]; extern const int rq_n_dst_formats;
extern const pixman_format_code_t rq_src_formats[]; extern const int rq_n_src_formats;

#endif
