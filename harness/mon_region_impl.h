/* Region interpreter body, instantiated twice (16- and 32-bit API).
 * Before including define: SUF (16|32), RP(name) -> API function, REG_T, BOX_T, DATA_T,
 * CMIN, CMAX (int64 coordinate limits). */

#define CAT_(a, b) a##b
#define CAT(a, b) CAT_ (a, b)
#define FN(name) CAT (CAT (r, SUF), CAT (_, name))

typedef struct { REG_T reg; bm_t m; } FN (ent);

/* ---- full verification of one region against its model bitmap ---- */
static int FN (verify) (REG_T *reg, const bm_t *m, const char *opname)
{
    int bad = 0;
    char key[160];
    if (FOCUS ("C05")) {
        long n = 0;
        for (int j = 0; j < WIN; j++)
            for (int i = 0; i < WIN; i++) {
                int got = RP (contains_point) (reg, (int)(win_x + i), (int)(win_y + j), NULL) != 0;
                n++;
                if (got != m->b[j][i]) {
                    snprintf (key, sizeof key, "C05:membership:%s:%d", opname, SUF);
                    vf_violation (key, "point (%lld,%lld) is %s the region but %s the model after %s",
                                  (long long)win_x + i, (long long)win_y + j, got ? "in" : "not in", m->b[j][i] ? "in" : "not in", opname);
                    bad = 1; goto done05;
                }
            }
        /* ring of points just outside the window: never members (only where representable) */
        for (int k = -1; k <= WIN; k++) {
            int64_t px[4] = { win_x + k, win_x + k, win_x - 1, win_x + WIN };
            int64_t py[4] = { win_y - 1, win_y + WIN, win_y + k, win_y + k };
            for (int q = 0; q < 4; q++) {
                if (px[q] < INT32_MIN || px[q] > INT32_MAX || py[q] < INT32_MIN || py[q] > INT32_MAX) continue;
                n++;
                if (RP (contains_point) (reg, (int)px[q], (int)py[q], NULL)) {
                    snprintf (key, sizeof key, "C05:membership-outside:%s:%d", opname, SUF);
                    vf_violation (key, "point (%lld,%lld) outside every operand is in the result of %s", (long long)px[q], (long long)py[q], opname);
                    bad = 1; goto done05;
                }
            }
        }
done05:
        vf_count ("evaluations", n);
    }
    if (FOCUS ("C06") || FOCUS ("C07")) {
        static rect_t canon[MAXRECTS]; rect_t ext;
        int nc = bm_canonical (m, WIN, WIN, canon, &ext);
        int n = 0; BOX_T *r = RP (rectangles) (reg, &n);
        BOX_T *e = RP (extents) (reg);
        if (FOCUS ("C06")) {
            vf_count ("evaluations", 1 + nc);
            int same = (n == nc);
            for (int i = 0; same && i < n; i++)
                same = (r[i].x1 == win_x + canon[i].x1 && r[i].x2 == win_x + canon[i].x2 &&
                        r[i].y1 == win_y + canon[i].y1 && r[i].y2 == win_y + canon[i].y2);
            if (!same) {
                char got[300] = "", want[300] = ""; int p = 0, q = 0;
                for (int i = 0; i < n && i < 6; i++) p += snprintf (got + p, sizeof got - p, "[%lld,%lld %lldx%lld]", (long long)r[i].x1 - win_x, (long long)r[i].y1 - win_y, (long long)r[i].x2 - r[i].x1, (long long)r[i].y2 - r[i].y1);
                for (int i = 0; i < nc && i < 6; i++) q += snprintf (want + q, sizeof want - q, "[%d,%d %dx%d]", canon[i].x1, canon[i].y1, canon[i].x2 - canon[i].x1, canon[i].y2 - canon[i].y1);
                snprintf (key, sizeof key, "C06:noncanonical:%s:%d", opname, SUF);
                vf_violation (key, "rectangle list after %s is not the canonical list of its point set: got %d rects %s.. want %d rects %s.. (window-relative)", opname, n, got, nc, want);
                bad = 1;
            }
            if (nc > 0 && !(e->x1 == win_x + ext.x1 && e->x2 == win_x + ext.x2 && e->y1 == win_y + ext.y1 && e->y2 == win_y + ext.y2)) {
                snprintf (key, sizeof key, "C06:extents:%s:%d", opname, SUF);
                vf_violation (key, "extents after %s are not the tight bounding box", opname);
                bad = 1;
            }
            if (nc == 0 && !(e->x1 >= e->x2 || e->y1 >= e->y2)) {
                snprintf (key, sizeof key, "C06:extents-empty:%s:%d", opname, SUF);
                vf_violation (key, "empty region after %s has non-empty extents", opname);
                bad = 1;
            }
            if (n == 1 && reg->data != NULL) {
                snprintf (key, sizeof key, "C06:single-rect-has-list:%s:%d", opname, SUF);
                vf_violation (key, "single rectangle stored with a list after %s", opname);
                bad = 1;
            }
            if (n == 0 && (reg->data == NULL || RP (not_empty) (reg))) {
                snprintf (key, sizeof key, "C06:empty-form:%s:%d", opname, SUF);
                vf_violation (key, "empty region after %s not stored in the empty form", opname);
                bad = 1;
            }
            if (!RP (selfcheck) (reg)) {
                snprintf (key, sizeof key, "C06:selfcheck:%s:%d", opname, SUF);
                vf_violation (key, "selfcheck fails after %s", opname);
                bad = 1;
            }
            if (nc >= 2) vf_cell ("cells", vf_mix (vf_hash (canon, nc * sizeof (rect_t), SUF), opname[0] * 131 + opname[1]));
        }
        if (FOCUS ("C07")) {
            /* descriptors */
            vf_count ("evaluations", 3);
            if ((RP (not_empty) (reg) != 0) != (nc > 0) || RP (n_rects) (reg) != nc) {
                snprintf (key, sizeof key, "C07:descriptors:%s:%d", opname, SUF);
                vf_violation (key, "not_empty=%d n_rects=%d but the set has %d canonical rectangles", RP (not_empty) (reg), RP (n_rects) (reg), nc);
                bad = 1;
            }
            if (nc > 0 && !(e->x1 == win_x + ext.x1 && e->x2 == win_x + ext.x2 && e->y1 == win_y + ext.y1 && e->y2 == win_y + ext.y2)) {
                snprintf (key, sizeof key, "C07:extents:%s:%d", opname, SUF);
                vf_violation (key, "extents() does not describe the set after %s", opname);
                bad = 1;
            }
        }
    }
    return bad;
}

/* queries of C07 on a region with known model */
static void FN (queries) (REG_T *reg, const bm_t *m, vf_rng *rng, int nq)
{
    char key[128];
    int nr = 0; BOX_T *rl = RP (rectangles) (reg, &nr);
    long ne = 0;
    /* contains_point with box: on all points */
    for (int j = 0; j < WIN; j++)
        for (int i = 0; i < WIN; i++) {
            BOX_T bx = { 0, 0, 0, 0 };
            int64_t X = win_x + i, Y = win_y + j;
            int got = RP (contains_point) (reg, (int)X, (int)Y, &bx) != 0;
            ne++;
            if (got != m->b[j][i]) {
                vf_violation ("C07:contains_point", "contains_point(%lld,%lld)=%d model=%d", (long long)X, (long long)Y, got, m->b[j][i]);
                goto qdone;
            }
            if (got) {
                int inlist = 0;
                for (int k = 0; k < nr; k++) if (!memcmp (&rl[k], &bx, sizeof bx)) { inlist = 1; break; }
                if (!(bx.x1 <= X && X < bx.x2 && bx.y1 <= Y && Y < bx.y2) || !inlist) {
                    vf_violation ("C07:contains_point-box", "box returned for (%lld,%lld) is [%lld,%lld,%lld,%lld]: %s",
                                  (long long)X, (long long)Y, (long long)bx.x1, (long long)bx.y1, (long long)bx.x2, (long long)bx.y2,
                                  inlist ? "does not hold the point" : "not a member rectangle");
                    goto qdone;
                }
            }
        }
    /* points that are not representable in the region's coordinate type but alias a member when truncated to it (the entry point takes int):
     * never members */
    if (SUF == 16) {
        for (int q = 0; q < 24; q++) {
            int i = (int)(vf_next (rng) % WIN), j = (int)(vf_next (rng) % WIN); int64_t X = win_x + i, Y = win_y + j;
            int kx = (int)(vf_next (rng) % 3) - 1, ky = (int)(vf_next (rng) % 3) - 1; if (!kx && !ky) kx = 1;
            X += 65536LL * kx; Y += 65536LL * ky; ne++;
            if (RP (contains_point) (reg, (int)X, (int)Y, NULL)) {
                vf_violation ("C07:contains_point-beyond-16-bit", "contains_point(%lld,%lld) is TRUE for a 16-bit region: the point is outside the coordinate range (it aliases member (%lld,%lld) modulo 65536)", (long long)X, (long long)Y, (long long)(win_x + i), (long long)(win_y + j));
                goto qdone; }
        }
    }
    /* contains_rectangle: boxes biased to the region's own edges */
    for (int q = 0; q < nq; q++) {
        int x1, y1, x2, y2;
        if (nr && vf_chance (rng, 3, 4)) {
            BOX_T *a = &rl[vf_next (rng) % nr], *b = &rl[vf_next (rng) % nr];
            x1 = (int)(a->x1 - win_x) + (int)vf_range (rng, -1, 1);
            y1 = (int)(a->y1 - win_y) + (int)vf_range (rng, -1, 1);
            x2 = (int)((vf_chance (rng, 1, 2) ? b->x2 : a->x2) - win_x) + (int)vf_range (rng, -1, 1);
            y2 = (int)((vf_chance (rng, 1, 2) ? b->y2 : a->y2) - win_y) + (int)vf_range (rng, -1, 1);
        } else {
            x1 = (int)vf_range (rng, -2, WIN); y1 = (int)vf_range (rng, -2, WIN);
            x2 = x1 + (int)vf_range (rng, 1, 20); y2 = y1 + (int)vf_range (rng, 1, 20);
        }
        if (x2 <= x1 || y2 <= y1) continue;      /* only valid query boxes */
        int64_t X1 = win_x + x1, X2 = win_x + x2, Y1 = win_y + y1, Y2 = win_y + y2;
        if (X1 < CMIN || X2 > CMAX || Y1 < CMIN || Y2 > CMAX) continue;
        long in = 0, tot = (long)(x2 - x1) * (y2 - y1);
        for (int j = y1; j < y2; j++) for (int i = x1; i < x2; i++)
            if (i >= 0 && i < WIN && j >= 0 && j < WIN && m->b[j][i]) in++;
        pixman_region_overlap_t want = in == 0 ? PIXMAN_REGION_OUT : in == tot ? PIXMAN_REGION_IN : PIXMAN_REGION_PART;
        BOX_T qb; qb.x1 = X1; qb.x2 = X2; qb.y1 = Y1; qb.y2 = Y2;
        pixman_region_overlap_t got = RP (contains_rectangle) (reg, &qb);
        ne++;
        vf_cell ("cells", vf_mix (vf_mix (nr > 3 ? 3 : nr, want), (x2 - x1 > 3) * 2 + (y2 - y1 > 3) + 16 * SUF));
        if (got != want) {
            static const char *nm[] = { "OUT", "IN", "PART" };
            snprintf (key, sizeof key, "C07:contains_rectangle:%s-for-%s", nm[got], nm[want]);
            vf_violation (key, "contains_rectangle([%d,%d,%d,%d] window-relative)=%s, set says %s (%ld of %ld points) on a %d-rect region",
                          x1, y1, x2, y2, nm[got], nm[want], in, tot, nr);
            break;
        }
    }
qdone:
    vf_count ("evaluations", ne);
}

/* resynchronise a region with its model after a reported violation (stops cascades) */
static void FN (resync) (REG_T *reg, const bm_t *m)
{
    static rect_t canon[MAXRECTS]; rect_t ext;
    static BOX_T bx[MAXRECTS];
    int nc = bm_canonical (m, WIN, WIN, canon, &ext);
    for (int i = 0; i < nc; i++) { bx[i].x1 = win_x + canon[i].x1; bx[i].x2 = win_x + canon[i].x2; bx[i].y1 = win_y + canon[i].y1; bx[i].y2 = win_y + canon[i].y2; }
    memset (reg, 0, sizeof *reg);     /* the old object may be arbitrarily malformed; leak it */
    RP (init_rects) (reg, bx, nc);
}

static void FN (box_from) (BOX_T *b, const rect_t *r)
{ b->x1 = win_x + r->x1; b->x2 = win_x + r->x2; b->y1 = win_y + r->y1; b->y2 = win_y + r->y2; }

/* translate test on a temporary copy (C07, canonical clause C06) */
static void FN (translate_out) (FN (ent) *e, vf_rng *rng)
{
    REG_T tmp; RP (init) (&tmp);
    if (!RP (copy) (&tmp, &e->reg)) { RP (fini) (&tmp); return; }
    int64_t dx, dy;
    int kind = (int)(vf_next (rng) % 9);
    int64_t span = CMAX - CMIN;
    switch (kind) {
    case 0: dx = vf_range (rng, -3, 3); dy = vf_range (rng, -3, 3); break;
    case 1: dx = CMAX - (win_x + WIN) + vf_range (rng, -4, WIN + 4); dy = vf_range (rng, -2, 2); break;   /* partly past +x */
    case 2: dx = vf_range (rng, -2, 2); dy = CMIN - win_y - vf_range (rng, -4, WIN + 4); break;            /* partly past -y */
    case 3: dx = CMIN - win_x - vf_range (rng, -4, WIN + 4); dy = CMAX - (win_y + WIN) + vf_range (rng, -4, WIN + 4); break;
    case 4: dx = vf_chance (rng, 1, 2) ? span : -span; dy = vf_range (rng, -100, 100); break;             /* wholly out */
    case 6: dx = CMIN - win_x - vf_range (rng, -4, WIN + 4); dy = vf_range (rng, -2, 2); break;              /* partly past -x only */
    case 7: dx = vf_range (rng, -2, 2); dy = CMAX - (win_y + WIN) + vf_range (rng, -4, WIN + 4); break;      /* partly past +y only */
    case 8: dx = CMAX - (win_x + WIN) + vf_range (rng, -4, WIN + 4); dy = CMIN - win_y - vf_range (rng, -4, WIN + 4); break;   /* past +x and -y */
    default: dx = vf_range (rng, -span, span); dy = vf_range (rng, -span, span); break;
    }
    if (dx > INT32_MAX) dx = INT32_MAX;
    if (dx < INT32_MIN) dx = INT32_MIN;
    if (dy > INT32_MAX) dy = INT32_MAX;
    if (dy < INT32_MIN) dy = INT32_MIN;
    vf_inflight ("translate%d window=(%lld,%lld) by (%lld,%lld)", SUF, (long long)win_x, (long long)win_y, (long long)dx, (long long)dy);
    RP (translate) (&tmp, (int)dx, (int)dy);
    /* model: point kept iff its image lies in [CMIN, CMAX-1]^2 */
    bm_t k; memset (&k, 0, sizeof k);
    int64_t nx = win_x + dx, ny = win_y + dy; int clipped = 0, kept = 0;
    for (int j = 0; j < WIN; j++) for (int i = 0; i < WIN; i++) if (e->m.b[j][i]) {
        int64_t X = nx + i, Y = ny + j;
        if (X >= CMIN && X <= CMAX - 1 && Y >= CMIN && Y <= CMAX - 1) { k.b[j][i] = 1; kept++; } else clipped++;
    }
    vf_cell ("cells", vf_mix (vf_mix (kind, SUF), (clipped > 0) * 2 + (kept > 0)));
    vf_count (clipped ? (kept ? "translate_partly_clipped" : "translate_wholly_clipped") : "translate_unclipped", 1);
    static rect_t canon[MAXRECTS]; rect_t ext;
    int nc = bm_canonical (&k, WIN, WIN, canon, &ext);
    int n = 0; BOX_T *r = RP (rectangles) (&tmp, &n);
    long ne = 0; int bad = 0;
    /* point set (C07) */
    for (int j = 0; j < WIN && !bad; j++) for (int i = 0; i < WIN; i++) {
        int64_t X = nx + i, Y = ny + j;
        if (X < INT32_MIN || X > INT32_MAX || Y < INT32_MIN || Y > INT32_MAX) continue;
        int got = RP (contains_point) (&tmp, (int)X, (int)Y, NULL) != 0; ne++;
        if (got != k.b[j][i]) {
            if (FOCUS ("C07")) vf_violation (clipped ? "C07:translate-clip-points" : "C07:translate-points",
                          "after translate by (%lld,%lld) of window (%lld,%lld): point (%lld,%lld) member=%d, model=%d",
                          (long long)dx, (long long)dy, (long long)win_x, (long long)win_y, (long long)X, (long long)Y, got, k.b[j][i]);
            bad = 1; break;
        }
    }
    /* no point outside the image of the window (extents confined) */
    if (!bad && n > 0) {
        BOX_T *ex = RP (extents) (&tmp); ne++;
        int64_t lx = nx < CMIN ? CMIN : nx, ly = ny < CMIN ? CMIN : ny, hx = nx + WIN > CMAX ? CMAX : nx + WIN, hy = ny + WIN > CMAX ? CMAX : ny + WIN;
        if (ex->x1 < lx || ex->y1 < ly || ex->x2 > hx || ex->y2 > hy || ex->x1 >= ex->x2 || ex->y1 >= ex->y2) {
            if (FOCUS ("C07")) vf_violation (clipped ? "C07:translate-clip-extents" : "C07:translate-extents",
                          "after translate by (%lld,%lld): extents [%lld,%lld,%lld,%lld] not inside the translated window", (long long)dx, (long long)dy,
                          (long long)ex->x1, (long long)ex->y1, (long long)ex->x2, (long long)ex->y2);
            bad = 1;
        }
    }
    /* "extents describe the set": the tight bounding box of the points that stayed (C07) */
    if (!bad && n > 0 && nc > 0) {
        BOX_T *ex = RP (extents) (&tmp); ne++;
        if (ex->x1 != nx + ext.x1 || ex->y1 != ny + ext.y1 || ex->x2 != nx + ext.x2 || ex->y2 != ny + ext.y2) {
            if (FOCUS ("C07")) vf_violation (clipped ? "C07:translate-clip-extents-not-tight" : "C07:translate-extents-not-tight",
                          "after translate by (%lld,%lld) of window (%lld,%lld): extents [%lld,%lld,%lld,%lld], the points that remain span [%lld,%lld,%lld,%lld]", (long long)dx, (long long)dy, (long long)win_x, (long long)win_y,
                          (long long)ex->x1, (long long)ex->y1, (long long)ex->x2, (long long)ex->y2, (long long)(nx + ext.x1), (long long)(ny + ext.y1), (long long)(nx + ext.x2), (long long)(ny + ext.y2));
            bad = 1;
        }
    }
    if (!bad && ((RP (not_empty) (&tmp) != 0) != (nc > 0))) {
        if (FOCUS ("C07")) vf_violation ("C07:translate-not_empty", "not_empty=%d after translate but %d points remain", RP (not_empty) (&tmp), kept);
        bad = 1;
    }
    if (FOCUS ("C07")) vf_count ("evaluations", ne);
    /* canonical form of what translate produced (C06) */
    if (!bad && FOCUS ("C06")) {
        int same = n == nc;
        for (int i = 0; same && i < n; i++)
            same = (r[i].x1 == nx + canon[i].x1 && r[i].x2 == nx + canon[i].x2 && r[i].y1 == ny + canon[i].y1 && r[i].y2 == ny + canon[i].y2);
        vf_count ("evaluations", 1);
        if (!same) {
            /* is the list merely missing vertical merges of bands that became identical by clamping? (known defect class) */
            int only_unmerged = 0;
            if (clipped && n > nc && n < MAXRECTS) {
                static uint8_t cover[WIN][WIN]; memset (cover, 0, sizeof cover); int okc = 1;
                for (int i = 0; i < n && okc; i++) {
                    if (r[i].x1 >= r[i].x2 || r[i].y1 >= r[i].y2) { okc = 0; break; }
                    for (int64_t Y = r[i].y1; Y < r[i].y2 && okc; Y++) for (int64_t X = r[i].x1; X < r[i].x2; X++) {
                        int64_t ii = X - nx, jj = Y - ny;
                        if (ii < 0 || ii >= WIN || jj < 0 || jj >= WIN || cover[jj][ii]) { okc = 0; break; }
                        cover[jj][ii] = 1;
                    }
                }
                /* disjoint rectangles covering exactly the model, in y-x order, every row a maximal run */
                if (okc && !memcmp (cover, k.b, sizeof cover)) {
                    only_unmerged = 1;
                    for (int i = 1; i < n; i++) if (r[i].y1 < r[i - 1].y1 || (r[i].y1 == r[i - 1].y1 && (r[i].y2 != r[i - 1].y2 || r[i].x1 <= r[i - 1].x2))) only_unmerged = 0;
                }
            }
            char key[100];
            if (only_unmerged) snprintf (key, sizeof key, "C06:translate-clip-unmerged-bands:%d", SUF);
            else snprintf (key, sizeof key, "C06:noncanonical:translate%s:%d", clipped ? "-clipped" : "", SUF);
            vf_violation (key, "translate by (%lld,%lld) of window (%lld,%lld) leaves %d rects, canonical form of the same points has %d",
                          (long long)dx, (long long)dy, (long long)win_x, (long long)win_y, n, nc);
        }
    }
    /* whatever points it holds: the list itself must be well formed (C06: rectangles non-empty, banded, ordered) */
    if (bad && FOCUS ("C06")) {
        int malformed = 0; vf_count ("evaluations", 1);
        for (int i = 0; i < n && !malformed; i++) {
            if (r[i].x1 >= r[i].x2 || r[i].y1 >= r[i].y2) malformed = 1;
            if (i && (r[i].y1 < r[i - 1].y1 || (r[i].y1 == r[i - 1].y1 && (r[i].y2 != r[i - 1].y2 || r[i].x1 <= r[i - 1].x2)) || (r[i].y1 > r[i - 1].y1 && r[i].y1 < r[i - 1].y2))) malformed = 1;
        }
        if (malformed) { char key[100]; snprintf (key, sizeof key, "C06:malformed-list:translate%s:%d", clipped ? "-clipped" : "", SUF);
            vf_violation (key, "translate by (%lld,%lld) of window (%lld,%lld) leaves a list of %d rectangles that is not banded / ordered / non-empty", (long long)dx, (long long)dy, (long long)win_x, (long long)win_y, n); }
    }
    /* an empty result is the canonical empty region: no list, extents an empty box (C06 "extents equal to the tight bounding box") */
    if (!bad && FOCUS ("C06")) {
        BOX_T *ex = RP (extents) (&tmp); vf_count ("evaluations", 1);
        if (n == 0 && (ex->x1 != ex->x2 || ex->y1 != ex->y2)) {
            char key[100]; snprintf (key, sizeof key, "C06:translate-empty-result-with-stale-extents:%d", SUF);
            vf_violation (key, "translate by (%lld,%lld) of window (%lld,%lld) drops every rectangle but leaves extents [%lld,%lld,%lld,%lld]", (long long)dx, (long long)dy, (long long)win_x, (long long)win_y,
                          (long long)ex->x1, (long long)ex->y1, (long long)ex->x2, (long long)ex->y2);
        } else if (!RP (selfcheck) (&tmp)) {
            char key[100]; snprintf (key, sizeof key, "C06:selfcheck:translate%s:%d", clipped ? "-clipped" : "", SUF);
            int only_unmerged_known = clipped && n > nc;      /* the unmerged-bands class is keyed above */
            if (!only_unmerged_known) vf_violation (key, "the library's own selfcheck rejects the result of translate by (%lld,%lld) of window (%lld,%lld) (%d rects)", (long long)dx, (long long)dy, (long long)win_x, (long long)win_y, n);
        }
    }
    RP (fini) (&tmp);
}

/* init_from_image (C07) */
static void FN (from_image) (vf_rng *rng)
{
    int w = (int)vf_range (rng, 1, 130), h = (int)vf_range (rng, 0, 24);
    if (vf_chance (rng, 1, 4)) w = (int[]){ 1, 31, 32, 33, 63, 64, 65, 96, 127, 128 }[vf_next (rng) % 10];
    int stride_words = (w + 31) / 32 + (int)vf_range (rng, 0, 2);
    uint32_t *bits = malloc ((size_t)stride_words * 4 * (h ? h : 1));
    static bm2_t m; memset (&m, 0, sizeof m);
    int pattern = (int)(vf_next (rng) % 6);
    uint64_t rowseed = vf_next (rng);
    for (int y = 0; y < h; y++) {
        /* identical rows, identical rows separated by a blank row, dense runs, runs ending at the last bit */
        if (!(pattern == 0 && y > 0 && vf_chance (rng, 2, 3))) rowseed = vf_next (rng);
        vf_rng rr; vf_rng_seed (&rr, rowseed, 5, 5);
        int blank = (pattern == 1 && (y % 3) == 1);
        int prev = 0;
        for (int x = 0; x < stride_words * 32; x++) {
            int bit;
            switch (pattern) {
            case 2: bit = vf_chance (&rr, 15, 16); break;
            case 3: bit = vf_chance (&rr, 1, 16); break;
            case 4: bit = (x / (1 + (int)(rowseed % 7))) & 1; break;
            default: bit = (x && vf_chance (&rr, 3, 4)) ? prev : vf_chance (&rr, 1, 2); break;
            }
            if (blank) bit = 0;
            if (pattern == 5 && x >= w - 3) bit = 1;
            prev = bit;
            if (x < w) m.b[y][x] = bit;
            else bit = vf_chance (&rr, 1, 2);        /* set padding bits: must be ignored */
            uint32_t *wd = &bits[y * stride_words + (x >> 5)];
            if (bit) *wd |= 1u << (x & 31); else *wd &= ~(1u << (x & 31));
        }
    }
    pixman_image_t *img = pixman_image_create_bits (PIXMAN_a1, w, h, bits, stride_words * 4);
    if (!img) { free (bits); return; }
    REG_T reg;
    vf_inflight ("init_from_image%d %dx%d stride=%d pattern=%d", SUF, w, h, stride_words, pattern);
    RP (init_from_image) (&reg, img);
    static rect_t canon[MAXRECTS]; rect_t ext;
    int nc = bm2_canonical (&m, w, h, canon, &ext);
    int n = 0; BOX_T *r = RP (rectangles) (&reg, &n);
    int same = n == nc;
    for (int i = 0; same && i < n; i++) same = (r[i].x1 == canon[i].x1 && r[i].x2 == canon[i].x2 && r[i].y1 == canon[i].y1 && r[i].y2 == canon[i].y2);
    vf_count ("evaluations", (long)w * h + 1);
    vf_count ("from_image_cases", 1);
    vf_cell ("cells", vf_mix (vf_mix (w & 31, pattern), (h > 0) + 2 * (nc > 1) + 64 * SUF));
    if (FOCUS ("C07")) {
        /* the point set first */
        int pbad = 0;
        for (int y = 0; y < h && !pbad; y++) for (int x = 0; x < w; x++)
            if ((RP (contains_point) (&reg, x, y, NULL) != 0) != m.b[y][x]) {
                vf_violation ("C07:init_from_image-points", "a1 image %dx%d pattern %d: pixel (%d,%d)=%d but region membership differs", w, h, pattern, x, y, m.b[y][x]);
                pbad = 1; break;
            }
        if (!pbad && n > 0) {
            BOX_T *ex = RP (extents) (&reg);
            if (ex->x1 < 0 || ex->y1 < 0 || ex->x2 > w || ex->y2 > h) {
                vf_violation ("C07:init_from_image-extents", "a1 image %dx%d: extents [%lld,%lld,%lld,%lld] exceed the image (padding bits not ignored?)", w, h,
                              (long long)ex->x1, (long long)ex->y1, (long long)ex->x2, (long long)ex->y2);
                pbad = 1;
            }
        }
        if (!pbad && ((RP (not_empty) (&reg) != 0) != (nc > 0) || (nc > 0 && RP (n_rects) (&reg) != n)))
            vf_violation ("C07:init_from_image-descriptors", "a1 image %dx%d: not_empty/n_rects inconsistent", w, h);
    }
    if (FOCUS ("C06") && !same) {
        char key[64]; snprintf (key, sizeof key, "C06:noncanonical:init_from_image:%d", SUF);
        vf_violation (key, "a1 image %dx%d pattern %d: %d rects, canonical %d", w, h, pattern, n, nc);
    }
    RP (fini) (&reg);
    pixman_image_unref (img);
    free (bits);
}


/* ---- one interpreter step on a pool ---- */
static void FN (gen_rect) (vf_rng *rng, rect_t *r, int allow_empty)
{
    int k = (int)(vf_next (rng) % 8);
    int x1, y1, w, h;
    if (k < 4) { w = (int)vf_range (rng, 1, 10); h = (int)vf_range (rng, 1, 10); }
    else if (k < 6) { w = (int)vf_range (rng, 1, WIN); h = (int)vf_range (rng, 1, 4); }
    else if (k < 7) { w = (int)vf_range (rng, 1, 4); h = (int)vf_range (rng, 1, WIN); }
    else { w = (int)vf_range (rng, 1, WIN); h = (int)vf_range (rng, 1, WIN); }
    x1 = (int)vf_range (rng, 0, WIN - 1); y1 = (int)vf_range (rng, 0, WIN - 1);
    if (vf_chance (rng, 1, 3)) { x1 &= ~3; y1 &= ~3; w = (w + 3) & ~3; h = (h + 3) & ~3; }   /* grid-aligned: bands and edges coincide often */
    if (x1 + w > WIN) w = WIN - x1;
    if (y1 + h > WIN) h = WIN - y1;
    if (allow_empty && vf_chance (rng, 1, 8)) { if (vf_chance (rng, 1, 2)) w = 0; else h = 0; }
    r->x1 = x1; r->y1 = y1; r->x2 = x1 + w; r->y2 = y1 + h;
}

static const char *FN (step) (FN (ent) *pool, vf_rng *rng)
{
    static const char *names[] = { "union", "intersect", "subtract", "inverse", "union_rect", "intersect_rect", "copy",
                                   "reset", "clear", "init_rects", "init_rect", "init_with_extents", "translate" };
    static const int weights[] = { 9, 6, 8, 4, 8, 4, 2, 1, 1, 5, 1, 1, 3 };
    int tot = 0, op = 0; for (unsigned i = 0; i < sizeof weights / sizeof *weights; i++) tot += weights[i];
    int pick = (int)(vf_next (rng) % tot);
    for (op = 0; pick >= weights[op]; op++) pick -= weights[op];
    int d = (int)(vf_next (rng) % NPOOL), a = (int)(vf_next (rng) % NPOOL), b = (int)(vf_next (rng) % NPOOL);
    switch (vf_next (rng) % 8) { case 0: a = d; break; case 1: b = d; break; case 2: b = a; break; case 3: a = b = d; break; default: break; }
    const char *alias = (a == d && b == d) ? "d=a=b" : a == d ? "d=a" : b == d ? "d=b" : a == b ? "a=b" : "distinct";
    bm_t res; rect_t rc; BOX_T bx; pixman_bool_t ok = TRUE; int has_status = 1;
    const char *name = names[op];
    int degenerate_irect = 0;
    switch (op) {
    case 0: bm_union (&res, &pool[a].m, &pool[b].m);
        vf_inflight ("%s%d d=%d a=%d b=%d", name, SUF, d, a, b);
        ok = RP (union) (&pool[d].reg, &pool[a].reg, &pool[b].reg); break;
    case 1: bm_intersect (&res, &pool[a].m, &pool[b].m);
        vf_inflight ("%s%d d=%d a=%d b=%d", name, SUF, d, a, b);
        ok = RP (intersect) (&pool[d].reg, &pool[a].reg, &pool[b].reg); break;
    case 2: bm_subtract (&res, &pool[a].m, &pool[b].m);
        vf_inflight ("%s%d d=%d a=%d b=%d", name, SUF, d, a, b);
        ok = RP (subtract) (&pool[d].reg, &pool[a].reg, &pool[b].reg); break;
    case 3: FN (gen_rect) (rng, &rc, 0); if (vf_chance (rng, 1, 4)) { rc.x1 = rc.y1 = 0; rc.x2 = rc.y2 = WIN; }
        bm_rect (&res, &rc); bm_subtract (&res, &res, &pool[a].m); FN (box_from) (&bx, &rc);
        alias = a == d ? "d=a" : "distinct";
        vf_inflight ("%s%d d=%d a=%d box=[%d,%d,%d,%d]", name, SUF, d, a, rc.x1, rc.y1, rc.x2, rc.y2);
        ok = RP (inverse) (&pool[d].reg, &pool[a].reg, &bx); break;
    case 4: FN (gen_rect) (rng, &rc, 1); { bm_t t; bm_rect (&t, &rc); bm_union (&res, &pool[a].m, &t); }
        alias = a == d ? "d=a" : "distinct";
        vf_inflight ("%s%d d=%d a=%d rect=[%d,%d,%d,%d]", name, SUF, d, a, rc.x1, rc.y1, rc.x2, rc.y2);
        ok = RP (union_rect) (&pool[d].reg, &pool[a].reg, (int)(win_x + rc.x1), (int)(win_y + rc.y1), rc.x2 - rc.x1, rc.y2 - rc.y1); break;
    case 5: FN (gen_rect) (rng, &rc, 1); { bm_t t; bm_rect (&t, &rc); bm_intersect (&res, &pool[a].m, &t); }
        alias = a == d ? "d=a" : "distinct";
        degenerate_irect = (rc.x2 == rc.x1 || rc.y2 == rc.y1);
        if (degenerate_irect) name = "intersect_rect-degenerate";
        vf_inflight ("%s%d d=%d a=%d rect=[%d,%d,%d,%d]", name, SUF, d, a, rc.x1, rc.y1, rc.x2, rc.y2);
        /* rectangles more than half the coordinate range wide or high (the width is unsigned: x = INT32_MIN with a width above 2^31 is a valid rectangle):
         * the left / top side is pushed out to the coordinate minimum, the part inside the window is the same */
        if (SUF == 32 && !degenerate_irect && vf_chance (rng, 1, 6) && win_x + rc.x2 > 0 && win_y + rc.y2 > 0 && win_x + rc.x2 <= INT32_MAX && win_y + rc.y2 <= INT32_MAX) {
            int hx = vf_chance (rng, 2, 3), hy = !hx || vf_chance (rng, 1, 2);
            { bm_t t; rect_t r2 = rc; if (hx) r2.x1 = 0; if (hy) r2.y1 = 0; bm_rect (&t, &r2); bm_intersect (&res, &pool[a].m, &t); }
            int64_t X1 = hx ? INT32_MIN : win_x + rc.x1, Y1 = hy ? INT32_MIN : win_y + rc.y1, X2 = win_x + rc.x2, Y2 = win_y + rc.y2;
            vf_count ("intersect_rect_beyond_half_range", 1);
            ok = RP (intersect_rect) (&pool[d].reg, &pool[a].reg, (int)X1, (int)Y1, (unsigned int)(X2 - X1), (unsigned int)(Y2 - Y1)); break;
        }
        ok = RP (intersect_rect) (&pool[d].reg, &pool[a].reg, (int)(win_x + rc.x1), (int)(win_y + rc.y1), rc.x2 - rc.x1, rc.y2 - rc.y1); break;
    case 6: res = pool[a].m; alias = a == d ? "d=a" : "distinct";
        vf_inflight ("%s%d d=%d a=%d", name, SUF, d, a);
        ok = RP (copy) (&pool[d].reg, &pool[a].reg); break;
    case 7: FN (gen_rect) (rng, &rc, 0); bm_rect (&res, &rc); FN (box_from) (&bx, &rc); alias = "-"; has_status = 0;
        vf_inflight ("%s%d d=%d", name, SUF, d);
        RP (reset) (&pool[d].reg, &bx); break;
    case 8: memset (&res, 0, sizeof res); alias = "-"; has_status = 0;
        vf_inflight ("%s%d d=%d", name, SUF, d);
        RP (clear) (&pool[d].reg); break;
    case 9: {
        static BOX_T boxes[64]; int n = (int)vf_range (rng, 0, 14); if (vf_chance (rng, 1, 10)) n = (int)vf_range (rng, 15, 60);
        memset (&res, 0, sizeof res);
        int style = (int)(vf_next (rng) % 5);
        if (style == 4) {
            /* "comb": bands of many narrow teeth (up to WIN/2 boxes per band, more than 32 boxes in all) under / between full bars, so that
             * per-band searches (contains_point, contains_rectangle, the band sweeps of the set operations) walk long bands */
            n = 0; int y = (int)vf_range (rng, 0, 6);
            while (y < WIN && n < 62) {
                int h = (int)vf_range (rng, 1, 5); if (y + h > WIN) h = WIN - y;
                if (vf_chance (rng, 1, 3)) { rc.x1 = (int)vf_range (rng, 0, 10); rc.x2 = (int)vf_range (rng, rc.x1 + 1, WIN); rc.y1 = y; rc.y2 = y + h;
                    FN (box_from) (&boxes[n++], &rc); bm_t t; bm_rect (&t, &rc); bm_union (&res, &res, &t); }
                else { int per = (int)vf_range (rng, 2, 3), tw = (int)vf_range (rng, 1, per - 1), x = (int)vf_range (rng, 0, 12);
                    for (; x + tw <= WIN && n < 62; x += per) { rc.x1 = x; rc.x2 = x + tw; rc.y1 = y; rc.y2 = y + h;
                        FN (box_from) (&boxes[n++], &rc); bm_t t; bm_rect (&t, &rc); bm_union (&res, &res, &t); } }
                y += h + (vf_chance (rng, 1, 2) ? 0 : (int)vf_range (rng, 1, 3));
            }
            if (vf_chance (rng, 1, 2)) for (int i = n - 1; i > 0; i--) { int j = (int)vf_range (rng, 0, i); BOX_T t = boxes[i]; boxes[i] = boxes[j]; boxes[j] = t; }   /* any order */
        }
        else for (int i = 0; i < n; i++) {
            FN (gen_rect) (rng, &rc, 1);
            if (style == 1) { rc.y1 = (i * 5) % WIN; rc.y2 = rc.y1 + 3 > WIN ? WIN : rc.y1 + 3; }       /* sorted bands */
            if (style == 2 && i > 0 && vf_chance (rng, 1, 2)) { rc.y1 = (int)(boxes[i - 1].y1 - win_y); rc.y2 = (int)(boxes[i - 1].y2 - win_y); } /* same band, x overlaps */
            FN (box_from) (&boxes[i], &rc);
            if (vf_chance (rng, 1, 12)) { int k = (int)vf_range (rng, 0, 3); if ((int64_t)boxes[i].x1 - k < CMIN) k = 0; boxes[i].x2 = boxes[i].x1 - k; rc.x2 = rc.x1; }  /* malformed / empty: dropped */
            if (rc.x2 > rc.x1 && rc.y2 > rc.y1) { bm_t t; bm_rect (&t, &rc); bm_union (&res, &res, &t); }
        }
        alias = "-";
        vf_inflight ("%s%d d=%d n=%d style=%d", name, SUF, d, n, style);
        RP (fini) (&pool[d].reg);
        ok = RP (init_rects) (&pool[d].reg, boxes, n);
        break; }
    case 10: FN (gen_rect) (rng, &rc, 1); bm_rect (&res, &rc); alias = "-"; has_status = 0;
        vf_inflight ("%s%d d=%d", name, SUF, d);
        RP (fini) (&pool[d].reg);
        RP (init_rect) (&pool[d].reg, (int)(win_x + rc.x1), (int)(win_y + rc.y1), rc.x2 - rc.x1, rc.y2 - rc.y1); break;
    case 11: FN (gen_rect) (rng, &rc, 1); bm_rect (&res, &rc); FN (box_from) (&bx, &rc); alias = "-"; has_status = 0;
        vf_inflight ("%s%d d=%d", name, SUF, d);
        RP (fini) (&pool[d].reg);
        RP (init_with_extents) (&pool[d].reg, &bx); break;
    default: {   /* translate inside the window */
        rect_t ext; static rect_t canon[MAXRECTS]; int nc = bm_canonical (&pool[d].m, WIN, WIN, canon, &ext);
        int dx = 0, dy = 0;
        if (nc) { dx = (int)vf_range (rng, -ext.x1, WIN - ext.x2); dy = (int)vf_range (rng, -ext.y1, WIN - ext.y2); }
        memset (&res, 0, sizeof res);
        for (int j = 0; j < WIN; j++) for (int i = 0; i < WIN; i++) if (pool[d].m.b[j][i]) res.b[j + dy][i + dx] = 1;
        alias = "-"; has_status = 0;
        vf_inflight ("%s%d d=%d by (%d,%d)", name, SUF, d, dx, dy);
        RP (translate) (&pool[d].reg, dx, dy); break; }
    }
    pool[d].m = res;
    vf_count ("ops", 1);
    vf_label ("ops_seen", "%s%d/%s", name, SUF, alias);
    if (has_status && !ok && FOCUS ("C05")) {
        char key[100]; snprintf (key, sizeof key, "C05:reports-failure:%s:%d", name, SUF);
        vf_violation (key, "%s returned FALSE without an allocation failure", name);
    }
    if (FOCUS ("C05")) {
        int pop = bm_count (&res);
        if (pop) vf_cell ("cells", vf_mix (vf_mix (op * 8 + SUF, vf_hash (alias, strlen (alias), 1)), vf_hash (&res, sizeof res, 3)));
    }
    if (degenerate_irect) {
        /* zero-sized intersect_rect: judged under its own key (see DESIGN 6/C05) */
        int n = RP (n_rects) (&pool[d].reg);
        BOX_T *e = RP (extents) (&pool[d].reg);
        if (n != 0 || RP (not_empty) (&pool[d].reg)) {
            if (FOCUS ("C06")) vf_violation ("C06:intersect_rect-degenerate", "intersect_rect with zero width or height leaves n_rects=%d not_empty=%d extents=[%lld,%lld,%lld,%lld]",
                                             n, RP (not_empty) (&pool[d].reg), (long long)e->x1, (long long)e->y1, (long long)e->x2, (long long)e->y2);
            if (FOCUS ("C07")) vf_violation ("C07:intersect_rect-degenerate", "intersect_rect with zero width or height: not_empty=%d n_rects=%d for an empty set", RP (not_empty) (&pool[d].reg), n);
            FN (resync) (&pool[d].reg, &pool[d].m);
            return name;
        }
    }
    if (FN (verify) (&pool[d].reg, &pool[d].m, name))
        FN (resync) (&pool[d].reg, &pool[d].m);
    return name;
}

/* equal() over all pool pairs (C06) */
static void FN (equal_pairs) (FN (ent) *pool)
{
    for (int i = 0; i < NPOOL; i++) for (int j = 0; j < NPOOL; j++) {
        int want = !memcmp (&pool[i].m, &pool[j].m, sizeof (bm_t));
        int got = RP (equal) (&pool[i].reg, &pool[j].reg) != 0;
        vf_count ("evaluations", 1);
        if (want) vf_count (bm_count (&pool[i].m) ? "equal_true_pairs_nonempty" : "equal_true_pairs_empty", 1);
        if (got != want) {
            int ei = bm_count (&pool[i].m) == 0, ej = bm_count (&pool[j].m) == 0;
            if (ei && ej) {
                BOX_T *a = RP (extents) (&pool[i].reg), *b = RP (extents) (&pool[j].reg);
                vf_violation ("C06:equal-empty-pair", "equal() is FALSE for two empty regions (extents [%lld,%lld,%lld,%lld] vs [%lld,%lld,%lld,%lld])",
                              (long long)a->x1, (long long)a->y1, (long long)a->x2, (long long)a->y2, (long long)b->x1, (long long)b->y1, (long long)b->x2, (long long)b->y2);
            } else
                vf_violation (got ? "C06:equal-true-for-different-sets" : "C06:equal-false-for-equal-sets", "equal()=%d but point sets %s (pool %d,%d, width %d)", got, want ? "are equal" : "differ", i, j, SUF);
        }
    }
}

#undef FN
#undef CAT
#undef CAT_
