/* Monitor for C19: pixman_fill / pixman_blt against a byte model on guarded exact-size storage,
 * pixman_image_fill_boxes / fill_rectangles against compositing a solid image box by box. */
#include "vf.h"
/* run for C04 (--prop C04) the behavioural oracles stay silent: that run only watches memory safety (ASan / guard pages) */
#define vf_violation(...) do { if (!strcmp (vf.prop, "C19")) (vf_violation) (__VA_ARGS__); } while (0)
#include "vf_req.h"
#include "ref_pixel.h"
#include "ref_ops.h"

static const int bpps[] = { 1, 4, 8, 16, 24, 32, 64, 128 };

static int same_storage (const vf_buf *a, const uint8_t *model, size_t *where)
{
    for (size_t i = 0; i < a->bytes; i++) if (a->base[i] != model[i]) { *where = i; return 0; }
    return 1;
}

static void fill_case (vf_rng *r)
{
    int bpp = VF_PICK (r, bpps);
    int w = (int)vf_range (r, 1, 90), h = (int)vf_range (r, 1, 6);
    vf_buf b;
    if (!vf_buf_alloc_raw (&b, 0, bpp, w, h, (int)(vf_next (r) % 3), vf_chance (r, 1, 6), vf_default_place (r))) return;
    vf_buf_fill_random (&b, r); vf_buf_snapshot (&b);
    int x = (int)vf_range (r, 0, w - 1), y = (int)vf_range (r, 0, h - 1);
    int fw = vf_chance (r, 1, 10) ? 0 : (int)vf_range (r, 1, w - x), fh = vf_chance (r, 1, 10) ? 0 : (int)vf_range (r, 1, h - y);
    if (vf_chance (r, 1, 3)) { x = 0; fw = w; }
    static const uint32_t fl[] = { 0, 0xffffffffu, 0xff, 0x1ff, 0xf81f, 0x80000001u, 0x01020304u, 0xff00ff00u };
    uint32_t filler = vf_chance (r, 1, 2) ? VF_PICK (r, fl) : vf_u32 (r);
    vf_inflight ("pixman_fill bpp=%d buf=%dx%d stride=%d rect=(%d,%d %dx%d) filler=%08x", bpp, w, h, b.stride, x, y, fw, fh, filler);
    vf_case_desc ("pixman_fill bpp=%d buf=%dx%d stride=%d rect=(%d,%d %dx%d) filler=%08x chain='%s'", bpp, w, h, b.stride, x, y, fw, fh, filler, vf_chain_env ());
    pixman_bool_t ok = pixman_fill (b.bits, b.stride / 4, bpp, x, y, fw, fh, filler);
    vf_count ("evaluations", 1); vf_count ("fill_calls", 1);
    vf_label ("fill_bpp_result", "bpp%d:%s", bpp, ok ? "TRUE" : "FALSE");
    vf_cell ("cells", vf_mix (vf_mix (1, bpp * 2 + (ok != 0)), vf_mix ((uint64_t)(x & 15) * 16 + (fw & 15), (uintptr_t)vf_buf_row (&b, 0) & 15)));
    uint8_t *model = malloc (b.bytes ? b.bytes : 1); memcpy (model, b.snap, b.bytes);
    if (ok && bpp <= 32) {
        uint32_t v = bpp == 32 ? filler : filler & ((1u << bpp) - 1);
        for (int j = y; j < y + fh; j++) { uint8_t *row = model + ((uint8_t *)vf_buf_row (&b, j) - b.base); for (int i = x; i < x + fw; i++) vf_put_px (row, bpp, i, v); }
    }
    size_t at;
    if (ok && bpp > 32) { char key[64]; snprintf (key, sizeof key, "C19:fill-true-unsupported-bpp:%d", bpp); if (!same_storage (&b, model, &at)) vf_violation (key, "pixman_fill returned TRUE for %d bpp and changed byte %zu", bpp, at); }
    else if (!same_storage (&b, model, &at)) {
        char key[96]; snprintf (key, sizeof key, ok ? "C19:fill-wrong-bytes:bpp%d" : "C19:fill-false-but-changed:bpp%d", bpp);
        int row = 0; size_t off = at;
        for (int j = 0; j < h; j++) { size_t ro = (size_t)((uint8_t *)vf_buf_row (&b, j) - b.base); if (at >= ro && at < ro + (size_t)(b.stride < 0 ? -b.stride : b.stride)) { row = j; off = at - ro; } }
        vf_violation (key, "pixman_fill returned %s; storage byte %zu (row %d, byte %zu in row) is %02x, model says %02x", ok ? "TRUE" : "FALSE", at, row, off, b.base[at], model[at]);
    }
    free (model); vf_buf_free (&b);
}

static void blt_case (vf_rng *r)
{
    int bpp = VF_PICK (r, bpps), dbpp = vf_chance (r, 1, 10) ? VF_PICK (r, bpps) : bpp;
    int sw = (int)vf_range (r, 1, 90), sh = (int)vf_range (r, 1, 6), dw = (int)vf_range (r, 1, 90), dh = (int)vf_range (r, 1, 6);
    vf_buf s, d;
    if (!vf_buf_alloc_raw (&s, 0, bpp, sw, sh, (int)(vf_next (r) % 3), vf_chance (r, 1, 6), vf_default_place (r))) return;
    if (!vf_buf_alloc_raw (&d, 0, dbpp, dw, dh, (int)(vf_next (r) % 3), vf_chance (r, 1, 6), vf_default_place (r))) { vf_buf_free (&s); return; }
    vf_buf_fill_random (&s, r); vf_buf_fill_random (&d, r); vf_buf_snapshot (&d); vf_buf_snapshot (&s);
    int w = (int)vf_range (r, 1, sw < dw ? sw : dw), h = (int)vf_range (r, 1, sh < dh ? sh : dh);
    if (vf_chance (r, 1, 10)) w = 0;
    if (vf_chance (r, 1, 10)) h = 0;
    int sx = (int)vf_range (r, 0, sw - (w ? w : 1)), sy = (int)vf_range (r, 0, sh - (h ? h : 1)), dx = (int)vf_range (r, 0, dw - (w ? w : 1)), dy = (int)vf_range (r, 0, dh - (h ? h : 1));
    vf_inflight ("pixman_blt bpp=%d->%d src=%dx%d stride=%d dst=%dx%d stride=%d from (%d,%d) to (%d,%d) %dx%d", bpp, dbpp, sw, sh, s.stride, dw, dh, d.stride, sx, sy, dx, dy, w, h);
    vf_case_desc ("pixman_blt bpp=%d->%d src=%dx%d stride=%d dst=%dx%d stride=%d from (%d,%d) to (%d,%d) %dx%d chain='%s'", bpp, dbpp, sw, sh, s.stride, dw, dh, d.stride, sx, sy, dx, dy, w, h, vf_chain_env ());
    pixman_bool_t ok = pixman_blt (s.bits, d.bits, s.stride / 4, d.stride / 4, bpp, dbpp, sx, sy, dx, dy, w, h);
    vf_count ("evaluations", 1); vf_count ("blt_calls", 1);
    vf_label ("blt_bpp_result", "bpp%d->%d:%s", bpp, dbpp, ok ? "TRUE" : "FALSE");
    vf_cell ("cells", vf_mix (vf_mix (2, bpp * 2 + (ok != 0)), vf_mix ((uint64_t)(sx & 15) * 256 + (dx & 15) * 16 + (w & 15), ((uintptr_t)vf_buf_row (&d, 0) & 15) * 16 + ((uintptr_t)vf_buf_row (&s, 0) & 15))));
    uint8_t *model = malloc (d.bytes ? d.bytes : 1); memcpy (model, d.snap, d.bytes);
    size_t at;
    if (ok && (bpp != dbpp || bpp > 32)) {
        if (bpp != dbpp) vf_violation ("C19:blt-true-different-depths", "pixman_blt returned TRUE for %d -> %d bpp", bpp, dbpp);
    }
    if (ok && bpp == dbpp && bpp <= 32)
        for (int j = 0; j < h; j++) { uint8_t *row = model + ((uint8_t *)vf_buf_row (&d, dy + j) - d.base); const uint8_t *srow = vf_buf_row (&s, sy + j); for (int i = 0; i < w; i++) vf_put_px (row, bpp, dx + i, vf_get_px (srow, bpp, sx + i)); }
    if (!(ok && bpp > 32) && !same_storage (&d, model, &at)) {
        char key[96]; snprintf (key, sizeof key, ok ? "C19:blt-wrong-bytes:bpp%d" : "C19:blt-false-but-changed:bpp%d", bpp);
        vf_violation (key, "pixman_blt returned %s; destination storage byte %zu is %02x, model says %02x", ok ? "TRUE" : "FALSE", at, d.base[at], model[at]);
    }
    if (memcmp (s.base, s.snap, s.bytes)) vf_violation ("C19:blt-changed-source", "pixman_blt modified the source buffer");
    free (model); vf_buf_free (&s); vf_buf_free (&d);
}

static uint32_t pt_read (const void *src, int size)
{ switch (size) { case 1: return *(const uint8_t *)src; case 2: { uint16_t v; memcpy (&v, src, 2); return v; } default: { uint32_t v; memcpy (&v, src, 4); return v; } } }
static void pt_write (void *dst, uint32_t value, int size)
{ switch (size) { case 1: *(uint8_t *)dst = (uint8_t)value; break; case 2: { uint16_t v = (uint16_t)value; memcpy (dst, &v, 2); break; } default: memcpy (dst, &value, 4); break; } }

/* fill_boxes / fill_rectangles vs compositing a solid */
static void boxes_case (vf_rng *r)
{
    rq_image D; unsigned profile = RQP_NO_INDEXED | (vf_chance (r, 1, 3) ? RQP_CLIPPY : 0);
    rq_gen_image (r, &D, 2, profile);
    if (vf_chance (r, 1, 2)) { static const pixman_format_code_t direct[] = { PIXMAN_a8r8g8b8, PIXMAN_x8r8g8b8, PIXMAN_a8b8g8r8, PIXMAN_b8g8r8a8, PIXMAN_r8g8b8x8, PIXMAN_r5g6b5, PIXMAN_b5g6r5, PIXMAN_a8, PIXMAN_a1, PIXMAN_x8b8g8r8 }; D.fmt = VF_PICK (r, direct); }
    D.neg = 0;
    rq_request q1, q2; memset (&q1, 0, sizeof q1); memset (&q2, 0, sizeof q2);
    q1.dst = D; q2.dst = D;
    q1.src.kind = q2.src.kind = RQ_SOLID;
    pixman_color_t c; c.alpha = vf_chance (r, 1, 3) ? 0xffff : vf_chance (r, 1, 4) ? (uint16_t)(0xff00 + (vf_next (r) & 0xff)) : (uint16_t)vf_next (r);
    c.red = (uint16_t)vf_next (r); c.green = (uint16_t)vf_next (r); c.blue = (uint16_t)vf_next (r);
    if (vf_chance (r, 1, 2)) { c.red = (uint16_t)((uint32_t)c.red * c.alpha / 65535); c.green = (uint16_t)((uint32_t)c.green * c.alpha / 65535); c.blue = (uint16_t)((uint32_t)c.blue * c.alpha / 65535); }
    if (vf_chance (r, 1, 6)) { c.alpha = c.red = c.green = c.blue = vf_chance (r, 1, 2) ? 0 : 0xffff; }
    q1.src.solid = q2.src.solid = c;
    vf_rng r1 = *r, r2 = *r;
    if (!rq_build (&q1, &r1)) return;
    if (!rq_build (&q2, &r2)) { rq_free (&q1); return; }
    /* a destination that was already in use (drawn to, hence validated) BEFORE its alpha map / accessors / clip were attached: the fill entry points must
     * see the current properties, as compositing does */
    int late = 0;
    if ((D.alpha_map || D.accessors || D.n_clip) && q1.dst.img && vf_chance (r, 1, 2)) {
        late = 1;
        if (D.alpha_map && q1.dst.amap) pixman_image_set_alpha_map (q1.dst.img, NULL, 0, 0);
        if (D.accessors) pixman_image_set_accessors (q1.dst.img, NULL, NULL);
        if (D.n_clip) pixman_image_set_clip_region32 (q1.dst.img, NULL);
        pixman_image_composite32 (PIXMAN_OP_OVER, q1.src.img, NULL, q1.dst.img, 0, 0, 0, 0, 0, 0, 0, 0);        /* an empty request: nothing is drawn */
        if (vf_chance (r, 1, 2)) pixman_image_fill_boxes (PIXMAN_OP_SRC, q1.dst.img, &c, 0, NULL);
        if (D.alpha_map && q1.dst.amap) pixman_image_set_alpha_map (q1.dst.img, q1.dst.amap, (int16_t)D.am_x, (int16_t)D.am_y);
        if (D.accessors && PIXMAN_FORMAT_BPP (D.fmt) <= 32) pixman_image_set_accessors (q1.dst.img, pt_read, pt_write);
        if (D.n_clip) { pixman_region32_t reg; pixman_region32_init_rects (&reg, D.clip, D.n_clip); pixman_image_set_clip_region32 (q1.dst.img, &reg); pixman_region32_fini (&reg); }
        vf_count ("properties_attached_after_first_use", 1);
    }
    static const pixman_op_t common[] = { PIXMAN_OP_SRC, PIXMAN_OP_SRC, PIXMAN_OP_OVER, PIXMAN_OP_OVER, PIXMAN_OP_CLEAR, PIXMAN_OP_ADD };
    pixman_op_t op = vf_chance (r, 1, 2) ? VF_PICK (r, common) : ro_ops[vf_next (r) % ro_nops];
    int n = (int)vf_range (r, 0, 10);
    pixman_box32_t bx[10]; pixman_rectangle16_t rc[10];
    int use_rects = vf_chance (r, 1, 3), far_edge = 0;
    for (int i = 0; i < n; i++) {
        int x1 = (int)vf_range (r, -3, D.w + 1), y1 = (int)vf_range (r, -2, D.h), w = (int)vf_range (r, 0, D.w / 2 + 4), h = (int)vf_range (r, 0, D.h / 2 + 2);
        if (use_rects && x1 < -3) x1 = -3;
        /* "to the far edge": extents far beyond the image, up to the limits of the 16-bit rectangle type (x + width above 32767) */
        if (vf_chance (r, 1, 7)) { if (vf_chance (r, 2, 3)) w = vf_chance (r, 1, 2) ? 0xffff : (int)vf_range (r, 0x7ff0, 0xffff); if (vf_chance (r, 2, 3)) h = vf_chance (r, 1, 2) ? 0xffff : (int)vf_range (r, 0x7ff0, 0xffff); far_edge = 1; }
        bx[i].x1 = x1; bx[i].y1 = y1; bx[i].x2 = x1 + w; bx[i].y2 = y1 + h;
        rc[i].x = (int16_t)x1; rc[i].y = (int16_t)y1; rc[i].width = (uint16_t)w; rc[i].height = (uint16_t)h;
    }
    static char desc[900]; int k = snprintf (desc, sizeof desc, "%s op=%s color=(a%04x r%04x g%04x b%04x) dst=%s %dx%d clip=%d%s%s boxes=", use_rects ? "fill_rectangles" : "fill_boxes", ro_op_name (op), c.alpha, c.red, c.green, c.blue,
                           rp_name (D.fmt), D.w, D.h, D.n_clip, D.alpha_map ? " alphamap" : "", D.accessors ? " accessors" : "");
    if (late) k += snprintf (desc + k, sizeof desc - k, "(attached after the destination had been used) ");
    for (int i = 0; i < n && k < 800; i++) k += snprintf (desc + k, sizeof desc - k, "[%d,%d %dx%d]", bx[i].x1, bx[i].y1, bx[i].x2 - bx[i].x1, bx[i].y2 - bx[i].y1);
    snprintf (desc + k, sizeof desc - k, " chain='%s'", vf_chain_env ());
    vf_case_desc ("%s", desc); vf_inflight ("%s", desc);
    pixman_bool_t ok = use_rects ? pixman_image_fill_rectangles (op, q1.dst.img, &c, n, rc) : pixman_image_fill_boxes (op, q1.dst.img, &c, n, bx);
    /* reference: composite the solid over each box, in order */
    vf_inflight ("reference compositing for: %s", desc);
    for (int i = 0; i < n; i++) pixman_image_composite32 (op, q2.src.img, NULL, q2.dst.img, 0, 0, 0, 0, bx[i].x1, bx[i].y1, bx[i].x2 - bx[i].x1, bx[i].y2 - bx[i].y1);
    vf_count ("evaluations", 1); vf_count ("fill_boxes_calls", 1); if (far_edge) vf_count (use_rects ? "fill_rectangles_beyond_32767" : "fill_boxes_far_edge", 1);
    vf_label ("boxes_op_fmt", "%s/%s", ro_op_name (op), rp_name (D.fmt));
    vf_cell ("cells", vf_mix (vf_mix (3, op), vf_mix ((uint32_t)D.fmt, (c.alpha == 0xffff) + 2 * (D.n_clip > 0) + 4 * D.alpha_map + 8 * D.accessors + 16 * use_rects + 32 * (n > 2))));
    if (!ok) vf_violation ("C19:fill_boxes-returns-false", "returned FALSE without an allocation failure");
    uint64_t a = rq_digest (&q1), b = rq_digest (&q2);
    if (a != b) {
        char key[128];
        int direct = (op == PIXMAN_OP_SRC || op == PIXMAN_OP_CLEAR || (op == PIXMAN_OP_OVER && c.alpha == 0xffff));
        snprintf (key, sizeof key, "C19:fill_boxes-differs-from-composite:%s%s%s", direct ? "direct-fill-ops" : ro_op_name (op), D.alpha_map ? ":alphamap" : "", D.accessors ? ":accessors" : "");
        /* first differing pixel */
        int fx = -1, fy = -1; uint32_t pa = 0, pb = 0;
        for (int y = 0; y < D.h && fx < 0; y++) for (int x = 0; x < D.w; x++) if (q1.dst.buf.bpp <= 32) { uint32_t m = rp_defined_mask (D.fmt); pa = vf_get_px (vf_buf_row (&q1.dst.buf, y), q1.dst.buf.bpp, x) & m; pb = vf_get_px (vf_buf_row (&q2.dst.buf, y), q2.dst.buf.bpp, x) & m; if (pa != pb) { fx = x; fy = y; break; } }
        vf_violation (key, "result differs from compositing the solid box by box; first differing pixel (%d,%d): fill=%x composite=%x", fx, fy, pa, pb);
    }
    rq_free (&q1); rq_free (&q2);
}

/* source and destination inside ONE buffer, rows disjoint: the upper half copied onto the lower, or every other row gathered to the top
 * (same origin, source stride twice the destination stride).  Row copies never overlap, so the byte model applies. */
static void blt_same_buffer_case (vf_rng *r)
{
    int bpp = VF_PICK (r, ((int[]){ 8, 16, 32, 32 })), w = (int)vf_range (r, 1, 70), h = (int)vf_range (r, 2, 8) & ~1; if (h < 2) h = 2;
    vf_buf b; if (!vf_buf_alloc_raw (&b, 0, bpp, w, h, (int)(vf_next (r) % 2), 0, vf_default_place (r))) return;
    vf_buf_fill_random (&b, r); vf_buf_snapshot (&b);
    int stride = b.stride / 4, decimate = vf_chance (r, 1, 2), rows = h / 2;
    int x = (int)vf_range (r, 0, w - 1), ww = (int)vf_range (r, 1, w - x);
    uint8_t *model = malloc (b.bytes); memcpy (model, b.snap, b.bytes);
    pixman_bool_t ok;
    vf_case_desc ("pixman_blt inside one buffer (%s) bpp=%d %dx%d stride=%d columns %d..%d chain='%s'", decimate ? "every other row gathered to the top: same origin, source stride = 2 x destination stride" : "upper half onto lower half", bpp, w, h, b.stride, x, x + ww, vf_chain_env ());
    vf_inflight ("pixman_blt inside one buffer bpp=%d %dx%d", bpp, w, h);
    if (decimate) {     /* destination row j <- source row 2j (row 0 is copied onto itself) */
        for (int j = 0; j < rows; j++) for (int i = 0; i < ww; i++) vf_put_px (model + (size_t)j * b.stride, bpp, x + i, vf_get_px (model + (size_t)(2 * j) * b.stride, bpp, x + i));
        ok = pixman_blt (b.bits, b.bits, 2 * stride, stride, bpp, bpp, x, 0, x, 0, ww, rows);
    } else {
        for (int j = 0; j < rows; j++) for (int i = 0; i < ww; i++) vf_put_px (model + (size_t)(rows + j) * b.stride, bpp, x + i, vf_get_px ((const uint8_t *)b.snap + (size_t)j * b.stride, bpp, x + i));
        ok = pixman_blt (b.bits, b.bits, stride, stride, bpp, bpp, x, 0, x, rows, ww, rows);
    }
    vf_count ("evaluations", 1); vf_count ("blt_calls", 1); vf_count ("blt_inside_one_buffer", 1);
    size_t at;
    if (ok ? !same_storage (&b, model, &at) : memcmp (b.base, b.snap, b.bytes) != 0) { char key[96]; snprintf (key, sizeof key, ok ? "C19:blt-wrong-bytes:same-buffer:bpp%d" : "C19:blt-false-but-changed:bpp%d", bpp);
        vf_violation (key, "pixman_blt returned %s but the buffer is not what copying the rows gives", ok ? "TRUE" : "FALSE"); }
    free (model); vf_buf_free (&b);
}

/* C04: storage the LIBRARY allocates must be as large as the image it then describes.  Sizes on either side of the points where width x depth
 * leaves 31, 32 ... 36 bits: the constructor either refuses or returns an image whose stride holds a whole row (nothing is written here) */
static void create_case (vf_rng *r)
{
    static const pixman_format_code_t fs[] = { PIXMAN_a1, PIXMAN_a4, PIXMAN_a8, PIXMAN_r5g6b5, PIXMAN_r8g8b8, PIXMAN_a8r8g8b8, PIXMAN_rgb_float, PIXMAN_rgba_float };
    pixman_format_code_t f = VF_PICK (r, fs); int bpp = PIXMAN_FORMAT_BPP (f);
    int k = (int)vf_range (r, 29, 37); int64_t w = ((int64_t)1 << k) / bpp + vf_range (r, -2, 2);
    if (vf_chance (r, 1, 4)) w = ((int64_t)3 << (k - 1)) / bpp + vf_range (r, -2, 2);
    if (w < 1 || w > INT32_MAX) return;
    int h = (int)vf_range (r, 1, 2);
    vf_case_desc ("pixman_image_create_bits (%s, %lld, %d, NULL, 0)", rp_name (f), (long long)w, h); vf_inflight ("create_bits %s %lldx%d", rp_name (f), (long long)w, h);
    pixman_image_t *im = vf_chance (r, 1, 2) ? pixman_image_create_bits (f, (int)w, h, NULL, 0) : pixman_image_create_bits_no_clear (f, (int)w, h, NULL, 0);
    vf_count ("evaluations", 1); vf_count ("huge_creations", 1);
    if (!im) { vf_count ("huge_creations_refused", 1); return; }
    int64_t need = (w * bpp + 7) / 8, stride = pixman_image_get_stride (im);
    if (stride < need || pixman_image_get_width (im) != (int)w || !pixman_image_get_data (im))
        vf_violation ("C04:created-image-smaller-than-described", "create_bits (%s, width %lld) returned an image with stride %lld bytes; a row needs %lld", rp_name (f), (long long)w, (long long)stride, (long long)need);
    pixman_image_unref (im);
}

static void blt_monitor_case (long idx, vf_rng *r)
{
    if (!strcmp (vf.prop, "C04") && idx % 4 == 0) create_case (r);
    for (int k = 0; k < 20; k++) {
        switch (vf_next (r) % 5) { case 0: case 1: fill_case (r); break; case 2: if (vf_chance (r, 1, 4)) blt_same_buffer_case (r); else blt_case (r); break; default: boxes_case (r); break; }
    }
    if (idx < 2) vf_sample ("case %ld: 20 calls mixed over pixman_fill (byte model), pixman_blt (byte model) and fill_boxes/fill_rectangles (vs compositing a solid per box)", idx);
}

int main (int argc, char **argv) { return vf_main (argc, argv, "C19", NULL, blt_monitor_case, NULL); }
