/* Monitor for C17: glyph cache history vs a map model (with the PIXMAN_VERIF table-size override so that
 * tables fill up, tombstones build up and probe sequences wrap), and glyph drawing vs per-glyph
 * compositing / explicit mask accumulation.  A probe sequence longer than the table is reported by the
 * library hook (logical-step verdict for "lookup always terminates"). */
#include "config.h"
#include "pixman-private.h"       /* only for the types of the coverage hook H2 (which precision served a call) */
#include "vf.h"
#include "vf_req.h"
#include "ref_pixel.h"
#include "ref_ops.h"

extern void (*pixman_verif_trace_composite) (pixman_implementation_t *imp, pixman_composite_func_t func, const pixman_fast_path_t *key);
extern void (*pixman_verif_trace_iter) (pixman_implementation_t *imp, const pixman_iter_info_t *info, iter_flags_t iter_flags);
static int seen_lookup, seen_wide;
static void trace_fp (pixman_implementation_t *imp, pixman_composite_func_t func, const pixman_fast_path_t *key) { (void)imp; (void)func; (void)key; seen_lookup = 1; }
static void trace_it (pixman_implementation_t *imp, const pixman_iter_info_t *info, iter_flags_t fl) { (void)imp; (void)info; if (fl & ITER_WIDE) seen_wide = 1; }

static int HW = 16384;          /* N_GLYPHS_HIGH_WATER of the library build under test (from --config hwN) */
#define MAXK 40000

typedef struct {
    int live; const void *handle;
    pixman_format_code_t fmt; int w, h, ox, oy;
    uint32_t *copy; int stride;         /* the monitor's private copy of the inserted pixels */
    long used;                          /* recency stamp of the last DEFINITE use (insert) */
    long removed_clock;                 /* value of insert_clock when the key was last removed / evicted (-1: not since the table was last emptied) */
    long used_hi;                       /* last POSSIBLE use: a draw call that was given the glyph (it may have been clipped away, which does not count as a use) */
} entry_t;
static entry_t *ent; static int nkeys;
static long stamp; static int live_count; static long removes_total; static int freeze_depth;
static long insert_clock;            /* number of successful inserts so far */

static void *fkey (int k) { return (void *)(uintptr_t)(0x1000 + (k % 7) * 0x10); }
static void *gkey (int k) { return (void *)(uintptr_t)(0x40 + k * 8); }

static void drop_entry (entry_t *e) { free (e->copy); e->copy = NULL; e->live = 0; e->handle = NULL; e->removed_clock = insert_clock; }

static pixman_format_code_t glyph_formats[] = { PIXMAN_a8, PIXMAN_a8, PIXMAN_a8, PIXMAN_a1, PIXMAN_a4, PIXMAN_a8r8g8b8, PIXMAN_a8r8g8b8, PIXMAN_x8r8g8b8, PIXMAN_r5g6b5,
    PIXMAN_a8b8g8r8, PIXMAN_b8g8r8a8, PIXMAN_a8r8g8b8_sRGB, PIXMAN_a4r4g4b4, PIXMAN_a1r5g5b5, PIXMAN_a2r10g10b10 };

static int do_insert (pixman_glyph_cache_t *c, int k, vf_rng *r, int tiny)
{
    entry_t *e = &ent[k];
    pixman_format_code_t f = tiny ? PIXMAN_a8 : VF_PICK (r, glyph_formats);
    int w = tiny ? 1 : (int)vf_range (r, 1, 14), h = tiny ? 1 : (int)vf_range (r, 1, 9);
    pixman_image_t *img = pixman_image_create_bits (f, w, h, NULL, 0);
    if (!img) return 0;
    uint32_t *bits = pixman_image_get_data (img); int stride = pixman_image_get_stride (img);
    for (int i = 0; i < stride * h / 4; i++) bits[i] = vf_u32 (r);
    e->fmt = f; e->w = w; e->h = h; e->ox = tiny ? 0 : (int)vf_range (r, -4, 4); e->oy = tiny ? 0 : (int)vf_range (r, -4, 4); e->stride = stride;
    e->copy = malloc ((size_t)stride * h); memcpy (e->copy, bits, (size_t)stride * h);
    vf_inflight ("glyph_cache_insert key %d (%s %dx%d) with %d live entries, HW=%d", k, rp_name (f), w, h, live_count, HW);
    const void *hnd = pixman_glyph_cache_insert (c, fkey (k), gkey (k), e->ox, e->oy, img);
    /* the cache must hold its own copy: scribble over the caller's image */
    for (int i = 0; i < stride * h / 4; i++) bits[i] = ~bits[i];
    pixman_image_unref (img);
    vf_count ("evaluations", 1); vf_count ("inserts", 1);
    if (!hnd) {
        vf_count ("inserts_refused", 1);
        /* refusal is legitimate only when the table may really be full: live entries plus every tombstone that can exist */
        if ((long)live_count + removes_total < 2L * HW - 1 && live_count < HW)
            vf_violation ("C17:insert-refused-with-room", "insert refused with %d live entries and at most %ld tombstones in a table of %d slots (high water %d)", live_count, removes_total, 2 * HW, HW);
        free (e->copy); e->copy = NULL; return 0;
    }
    /* A key that is inserted again before ANY other insert has happened since it was removed finds its old slot still a tombstone, and every slot before
     * it on its probe path occupied (they were when it was first placed, and slots are only emptied when the whole table is): the insert lands on a
     * tombstone, so the number of tombstones is back to what it was before the removal.  Keeps the upper bound on tombstones from drifting in
     * remove/re-insert churn (assumes what the tombstone scheme is: an insert takes the first free-or-tombstone slot of a per-key probe sequence). */
    if (e->removed_clock == insert_clock && e->removed_clock >= 0 && removes_total > 0) removes_total--;
    insert_clock++;
    e->live = 1; e->handle = hnd; e->used = e->used_hi = ++stamp; live_count++;
    return 1;
}

static void check_lookup (pixman_glyph_cache_t *c, int k)
{
    vf_inflight ("glyph_cache_lookup key %d (%s) with %d live entries, HW=%d", k, ent[k].live ? "present" : "absent", live_count, HW);
    const void *h = pixman_glyph_cache_lookup (c, fkey (k), gkey (k));
    vf_count ("evaluations", 1); vf_count ("lookups", 1);
    if (ent[k].live ? h != ent[k].handle : h != NULL)
        vf_violation (ent[k].live ? (h ? "C17:lookup-wrong-entry" : "C17:lookup-misses-live-entry") : "C17:lookup-finds-absent-key", "lookup of key %d returned %p, the model says %p (%d live entries)", k, h, ent[k].live ? ent[k].handle : NULL, live_count);
}

/* after a thaw to depth 0: which entries may have disappeared */
static void after_thaw (pixman_glyph_cache_t *c)
{
    int LOW = HW / 2;
    /* observe survivors */
    int survivors = 0; static int alive[MAXK];
    for (int k = 0; k < nkeys; k++) if (ent[k].live) {
        const void *h = pixman_glyph_cache_lookup (c, fkey (k), gkey (k));
        alive[k] = (h != NULL);
        if (h && h != ent[k].handle) { vf_violation ("C17:lookup-wrong-entry", "after thaw key %d maps to another entry", k); }
        survivors += alive[k];
    }
    vf_count ("evaluations", live_count);
    if (vf.verbose) { fprintf (stderr, "THAW live=%d survivors=%d removes_total=%ld:", live_count, survivors, removes_total); for (int k = 0; k < nkeys; k++) if (ent[k].live) fprintf (stderr, " k%d(used %ld)%s", k, ent[k].used, alive[k] ? "" : "X"); fprintf (stderr, "\n"); }
    if (survivors == live_count) { if (live_count > HW) vf_violation ("C17:no-eviction-above-high-water", "thaw left %d entries although the high-water mark is %d", live_count, HW); return; }
    /* something was evicted: only permitted when the cache can have been above the high-water mark (entries + tombstones) */
    vf_count ("thaws_with_eviction", 1);
    if ((long)live_count + removes_total <= HW)
        vf_violation ("C17:eviction-below-high-water", "thaw evicted %d of %d entries although entries + tombstones cannot exceed the high-water mark %d", live_count - survivors, live_count, HW);
    else if (survivors == 0 && removes_total > HW) { vf_count ("thaws_that_dumped_the_table", 1); }     /* more tombstones than HW: the table may be dumped */
    else {
        /* least recently used first, down to the low-water mark: every survivor is more recent than every victim */
        long oldest_survivor = -1, newest_victim = -1;
        for (int k = 0; k < nkeys; k++) if (ent[k].live) { if (alive[k]) { if (oldest_survivor < 0 || ent[k].used_hi < oldest_survivor) oldest_survivor = ent[k].used_hi; } else if (ent[k].used > newest_victim) newest_victim = ent[k].used; }
        if (survivors && newest_victim > oldest_survivor) vf_violation ("C17:eviction-not-lru", "thaw evicted an entry used at step %ld but kept one used at step %ld", newest_victim, oldest_survivor);
        /* removes_total bounds the tombstones from above: with at most HW of them the table is not dumped, so exactly LOW entries stay
         * (an eviction needs more than LOW live entries, and it stops at LOW) */
        if (survivors != LOW) vf_violation ("C17:eviction-wrong-count", "thaw left %d entries (from %d, at most %ld tombstones); eviction goes down to the low-water mark %d and the table is dumped only with more than %d tombstones", survivors, live_count, removes_total, LOW, HW);
    }
    for (int k = 0; k < nkeys; k++) if (ent[k].live && !alive[k]) { drop_entry (&ent[k]); live_count--; removes_total++; }      /* an eviction leaves a tombstone like a removal */
    if (survivors == 0) { removes_total = 0; for (int k = 0; k < nkeys; k++) ent[k].removed_clock = -1; }       /* a dumped / emptied table has no tombstones */
}

static pixman_image_t *glyph_image_from_copy (entry_t *e)
{
    pixman_image_t *g = pixman_image_create_bits (e->fmt, e->w, e->h, e->copy, e->stride);
    if (g && PIXMAN_FORMAT_A (e->fmt) && PIXMAN_FORMAT_RGB (e->fmt)) pixman_image_set_component_alpha (g, 1);
    return g;
}

/* drawing through the cache vs the per-glyph reference */
static void draw_check (pixman_glyph_cache_t *c, vf_rng *r)
{
    int cand[64], nc = 0; for (int k = 0; k < nkeys && nc < 64; k++) if (ent[k].live && ent[k].w > 0) cand[nc++] = k;
    if (!nc) return;
    rq_request q1, q2; memset (&q1, 0, sizeof q1);
    unsigned prof = RQP_NO_INDEXED | RQP_NO_ALPHAMAP | RQP_NO_ACCESSORS | RQP_NARROW_ONLY | RQP_NO_GRADIENT;
    rq_gen_image (r, &q1.dst, 2, prof | (vf_chance (r, 1, 2) ? RQP_CLIPPY : 0)); rq_gen_image (r, &q1.src, 0, prof);
    /* a projective source whose w changes sign inside the destination has coordinates outside 16.16: pixman_image_composite32 refuses such a request
     * (documented behaviour, see C08) while the glyph entry points do not analyse extents at all; that regime is outside the statement and not generated */
    if (q1.src.tr_class == TR_PROJECTIVE) rq_gen_transform (r, &q1.src, TR_AFFINE, 0);
    /* every other draw repeats the previous call's operator, destination format and first glyph with the OTHER kind of source (solid after an
     * image, an image after solid): whatever a call remembers about its routine must not leak into the next */
    static int have_last, last_solid, last_first = -1; static pixman_op_t last_op; static pixman_format_code_t last_dfmt; int repeat_last = 0;
    if (have_last && vf_chance (r, 1, 2)) { repeat_last = 1; q1.dst.fmt = last_dfmt; q1.dst.n_clip = 0;
        if (last_solid) { if (q1.src.kind != RQ_BITS) { q1.src.kind = RQ_BITS; q1.src.fmt = PIXMAN_a8r8g8b8; q1.src.w = 16; q1.src.h = 8; q1.src.repeat = PIXMAN_REPEAT_NORMAL; q1.src.tr_class = TR_NONE; pixman_transform_init_identity (&q1.src.tr); q1.src.filter = PIXMAN_FILTER_NEAREST; q1.src.n_params = 0; q1.src.alpha_map = 0; } }
        else { q1.src.kind = RQ_SOLID; q1.src.solid.alpha = (uint16_t)(vf_next (r) | 0x8000); q1.src.solid.red = (uint16_t)(vf_next (r) % (q1.src.solid.alpha + 1u)); q1.src.solid.green = q1.src.solid.red / 2; q1.src.solid.blue = (uint16_t)(vf_next (r) % (q1.src.solid.alpha + 1u)); q1.src.n_clip = 0; } }
    q1.dst.neg = 0; q2 = q1;
    vf_rng r1 = *r, r2 = *r;
    if (!rq_build (&q1, &r1)) return; if (!rq_build (&q2, &r2)) { rq_free (&q1); return; }
    int n = (int)vf_range (r, 1, 6); pixman_glyph_t gl[6]; int gk[6];
    for (int i = 0; i < n; i++) { gk[i] = cand[vf_next (r) % nc]; gl[i].glyph = ent[gk[i]].handle; gl[i].x = (int)vf_range (r, -6, q1.dst.w + 4); gl[i].y = (int)vf_range (r, -4, q1.dst.h + 3); }
    pixman_op_t op = vf_chance (r, 1, 2) ? PIXMAN_OP_OVER : vf_chance (r, 1, 2) ? PIXMAN_OP_ADD : (pixman_op_t)(vf_next (r) % 14);
    if (repeat_last) { op = last_op; if (last_first >= 0 && last_first < nkeys && ent[last_first].live) gk[0] = last_first, gl[0].glyph = ent[last_first].handle; vf_count ("draws_repeating_the_previous_call", 1); }
    have_last = 1; last_op = op; last_dfmt = q1.dst.fmt; last_solid = q1.src.kind == RQ_SOLID; last_first = gk[0];
    int sx = (int)vf_range (r, -3, 5), sy = (int)vf_range (r, -2, 3), dx = (int)vf_range (r, -3, 3), dy = (int)vf_range (r, -2, 2);
    int with_mask = vf_chance (r, 1, 2);
    static const pixman_format_code_t mfs[] = { PIXMAN_a8, PIXMAN_a8, PIXMAN_a8r8g8b8, PIXMAN_a8r8g8b8, PIXMAN_a1, PIXMAN_a4, PIXMAN_a8r8g8b8_sRGB, PIXMAN_a8b8g8r8, PIXMAN_a4r4g4b4, PIXMAN_a2r10g10b10 };
    pixman_format_code_t mf = VF_PICK (r, mfs);
    int mx = (int)vf_range (r, -2, q1.dst.w / 2), my = (int)vf_range (r, -2, 2), mw = (int)vf_range (r, 1, q1.dst.w + 6), mh = (int)vf_range (r, 1, q1.dst.h + 4);
    static char desc[1100]; int kk = snprintf (desc, sizeof desc, "%s op=%s n=%d src_xy=(%d,%d) dest_xy=(%d,%d)", with_mask ? "composite_glyphs" : "composite_glyphs_no_mask", ro_op_name (op), n, sx, sy, dx, dy);
    if (with_mask) kk += snprintf (desc + kk, sizeof desc - kk, " mask=%s at (%d,%d) %dx%d", rp_name (mf), mx, my, mw, mh);
    for (int i = 0; i < n; i++) kk += snprintf (desc + kk, sizeof desc - kk, " g%d{%s %dx%d origin(%d,%d) at (%d,%d)}", i, rp_name (ent[gk[i]].fmt), ent[gk[i]].w, ent[gk[i]].h, ent[gk[i]].ox, ent[gk[i]].oy, gl[i].x, gl[i].y);
    char d2[500]; rq_describe (&q1, d2, sizeof d2);
    vf_case_desc ("%s | %s", desc, d2); vf_inflight ("%s", desc);
    /* the two query helpers clients size their mask with: the extents are the union of the glyph boxes placed at (x - origin_x, y - origin_y) */
    { pixman_box32_t ex; pixman_glyph_get_extents (c, n, gl, &ex); int x1 = INT32_MAX, y1 = INT32_MAX, x2 = INT32_MIN, y2 = INT32_MIN;
      for (int i = 0; i < n; i++) { entry_t *e = &ent[gk[i]]; int gx = gl[i].x - e->ox, gy = gl[i].y - e->oy; if (gx < x1) x1 = gx; if (gy < y1) y1 = gy; if (gx + e->w > x2) x2 = gx + e->w; if (gy + e->h > y2) y2 = gy + e->h; }
      vf_count ("evaluations", 1); vf_count ("extents_queries", 1);
      if (ex.x1 != x1 || ex.y1 != y1 || ex.x2 != x2 || ex.y2 != y2) vf_violation ("C17:glyph-extents", "pixman_glyph_get_extents gives [%d,%d,%d,%d], the glyph boxes at (x - origin_x, y - origin_y) span [%d,%d,%d,%d]", ex.x1, ex.y1, ex.x2, ex.y2, x1, y1, x2, y2);
      /* a mask of the format the library proposes is deep enough to hold every glyph of the run: drawing through it equals drawing through a8r8g8b8 when a glyph has colour, through a8 otherwise */
      pixman_format_code_t pf = pixman_glyph_get_mask_format (c, n, gl); int any_rgb = 0, deepest = 0; for (int i = 0; i < n; i++) { if (PIXMAN_FORMAT_RGB (ent[gk[i]].fmt)) any_rgb = 1; if ((int)PIXMAN_FORMAT_A (ent[gk[i]].fmt) > deepest) deepest = (int)PIXMAN_FORMAT_A (ent[gk[i]].fmt); }
      vf_label ("proposed_mask_formats", "%s", rp_name (pf));
      if (any_rgb ? !(PIXMAN_FORMAT_RGB (pf) && PIXMAN_FORMAT_A (pf) >= 8) : (PIXMAN_FORMAT_RGB (pf) || (int)PIXMAN_FORMAT_A (pf) < (deepest > 8 ? 8 : deepest)))
          vf_violation ("C17:glyph-mask-format", "pixman_glyph_get_mask_format proposes %s for a run whose glyphs %s and have up to %d alpha bits", rp_name (pf), any_rgb ? "carry colour" : "are alpha-only", deepest);
    }
    seen_lookup = seen_wide = 0; pixman_verif_trace_composite = trace_fp; pixman_verif_trace_iter = trace_it;
    if (with_mask) pixman_composite_glyphs (op, q1.src.img, q1.dst.img, mf, sx, sy, mx, my, mx + dx, my + dy, mw, mh, c, n, gl);
    else pixman_composite_glyphs_no_mask (op, q1.src.img, q1.dst.img, sx, sy, dx, dy, c, n, gl);
    int cache_wide = seen_wide, ref_narrow = 0;
    for (int i = 0; i < n; i++) ent[gk[i]].used_hi = ++stamp;
    /* reference from the monitor's private copies */
    vf_inflight ("reference for: %s", desc);
    if (!with_mask) {
        for (int i = 0; i < n; i++) { entry_t *e = &ent[gk[i]]; pixman_image_t *g = glyph_image_from_copy (e); if (!g) continue;
            int X = dx + gl[i].x - e->ox, Y = dy + gl[i].y - e->oy;
            seen_lookup = seen_wide = 0;
            pixman_image_composite32 (op, q2.src.img, g, q2.dst.img, sx + X - dx, sy + Y - dy, 0, 0, X, Y, e->w, e->h); pixman_image_unref (g);
            if (seen_lookup && !seen_wide) ref_narrow = 1; }
    } else {
        pixman_image_t *m = pixman_image_create_bits (mf, mw, mh, NULL, 0);
        if (m) {
            if (PIXMAN_FORMAT_A (mf) && PIXMAN_FORMAT_RGB (mf)) pixman_image_set_component_alpha (m, 1);
            static const pixman_color_t white = { 0xffff, 0xffff, 0xffff, 0xffff }; pixman_image_t *wh = pixman_image_create_solid_fill (&white);
            for (int i = 0; i < n; i++) { entry_t *e = &ent[gk[i]]; pixman_image_t *g = glyph_image_from_copy (e); if (!g) continue;
                int X = gl[i].x - e->ox - mx, Y = gl[i].y - e->oy - my;
                if (e->fmt == mf) { pixman_image_set_component_alpha (g, 0); pixman_image_composite32 (PIXMAN_OP_ADD, g, NULL, m, 0, 0, 0, 0, X, Y, e->w, e->h); }
                else pixman_image_composite32 (PIXMAN_OP_ADD, wh, g, m, 0, 0, 0, 0, X, Y, e->w, e->h);
                pixman_image_unref (g); }
            seen_lookup = seen_wide = 0;
            pixman_image_composite32 (op, q2.src.img, m, q2.dst.img, sx, sy, 0, 0, mx + dx, my + dy, mw, mh);
            if (seen_lookup && !seen_wide) ref_narrow = 1;
            pixman_image_unref (m); if (wh) pixman_image_unref (wh);
        }
    }
    pixman_verif_trace_composite = NULL; pixman_verif_trace_iter = NULL;
    /* SATURATE divides by the source alpha: an 8-bit and a floating-point intermediate can then be arbitrarily far apart.  The cache route
     * passes the operator on unreduced (float), the per-glyph route may be strength-reduced to an 8-bit operator when source and glyph are
     * opaque; such a pair is not "the same drawing at the same precision" and is not judged */
    if (op == PIXMAN_OP_SATURATE && cache_wide && ref_narrow) { vf_count ("draws_not_judged_saturate_at_different_precision", 1); rq_free (&q1); rq_free (&q2); return; }
    vf_count ("evaluations", (long)q1.dst.w * q1.dst.h); vf_count (with_mask ? "draws_with_mask" : "draws_no_mask", 1);
    vf_label ("draw_op_maskfmt", "%s/%s/%s", with_mask ? "mask" : "nomask", ro_op_name (op), with_mask ? rp_name (mf) : "-");
    vf_cell ("cells", vf_mix (vf_mix (500 + with_mask, op * 64 + (uint32_t)(mf >> 12 & 15)), vf_mix ((uint64_t)q1.dst.fmt, (q1.dst.n_clip > 0) + 2 * n)));
    if (rq_digest (&q1) != rq_digest (&q2)) {
        int fx = -1, fy = -1; uint32_t a = 0, b = 0, m = q1.dst.buf.bpp <= 32 ? rp_defined_mask (q1.dst.fmt) : 0xffffffffu;
        /* operators of the floating-point class: the per-glyph route may be strength-reduced to an integer operator when a glyph image is opaque
         * (alpha-less glyph formats) while the cache route is not: two code values apart at most (same rule as C09) */
        int tol = ro_needs_float (op) ? 2 : 0; int sh[4], bits[4]; if (q1.dst.buf.bpp <= 32 && rp_is_direct (q1.dst.fmt)) rp_layout (q1.dst.fmt, sh, bits); else tol = 0;
        for (int y = 0; y < q1.dst.h && fx < 0; y++) for (int x = 0; x < q1.dst.w; x++) if (q1.dst.buf.bpp <= 32) { a = vf_get_px (vf_buf_row (&q1.dst.buf, y), q1.dst.buf.bpp, x) & m; b = vf_get_px (vf_buf_row (&q2.dst.buf, y), q2.dst.buf.bpp, x) & m;
            if (a == b) continue;
            int dev = 99; if (tol) { dev = 0; for (int c = 0; c < 4; c++) if (bits[c]) { uint32_t cm = (1u << bits[c]) - 1; int d = (int)((a >> sh[c]) & cm) - (int)((b >> sh[c]) & cm); if (d < 0) d = -d; if (d > dev) dev = d; } }
            if (dev > tol) { fx = x; fy = y; break; } }
        if (fx < 0 && q1.dst.buf.bpp <= 32) { rq_free (&q1); rq_free (&q2); return; }
        char key[128]; snprintf (key, sizeof key, "C17:%s-differs-from-per-glyph-reference:%s", with_mask ? "composite_glyphs" : "composite_glyphs_no_mask", ro_op_name (op));
        vf_violation (key, "pixel (%d,%d): %x through the cache, %x from the per-glyph reference built from the monitor's copies", fx, fy, a, b);
    }
    rq_free (&q1); rq_free (&q2);
}

static void glyph_case (long idx, vf_rng *r)
{
    int filling = HW > 64 ? (idx % 64 == 0) : 0;      /* production-size table: a few table-filling histories */
    nkeys = HW <= 64 ? 3 * HW + 4 : (filling ? 2 * HW + 40 : 60);
    if (nkeys > MAXK) nkeys = MAXK;
    memset (ent, 0, sizeof (entry_t) * nkeys); for (int k_ = 0; k_ < nkeys; k_++) ent[k_].removed_clock = -1; stamp = 0; live_count = 0; removes_total = 0; freeze_depth = 0;
    pixman_glyph_cache_t *c = pixman_glyph_cache_create (); if (!c) return;
    int steps = filling ? 2 * HW + 200 : 200;
    char hist[400]; int hk = 0; hist[0] = 0;
    for (int s = 0; s < steps; s++) {
        int op = (int)(vf_next (r) % 16);
        if (filling) op = s < 2 * HW + 8 ? 2 : op;          /* insert, insert, insert ... then lookups of absent keys */
        if (s == 0 || (op == 0 && freeze_depth < 3)) { pixman_glyph_cache_freeze (c); freeze_depth++; if (hk < 380) hk += snprintf (hist + hk, sizeof hist - hk, "F "); continue; }
        if (op == 1 && freeze_depth > 0 && !filling) {
            vf_inflight ("glyph_cache_thaw at depth %d with %d live entries", freeze_depth, live_count);
            pixman_glyph_cache_thaw (c); freeze_depth--; vf_count ("thaws", 1);
            if (hk < 380) hk += snprintf (hist + hk, sizeof hist - hk, "T ");
            vf_case_desc ("HW=%d history: %s... (step %d)", HW, hist, s);
            if (freeze_depth == 0) after_thaw (c);
            continue;
        }
        int k = filling ? (s < 2 * HW + 8 ? s : (int)(vf_next (r) % nkeys)) : (int)(vf_next (r) % nkeys);
        vf_case_desc ("HW=%d history: %s... (step %d, key %d)", HW, hist, s, k);
        if (op <= 6) {           /* lookup, then insert if absent (as clients do) */
            check_lookup (c, k);
            if (!ent[k].live && freeze_depth > 0) { int ok = do_insert (c, k, r, filling || HW > 64 ? (filling ? 1 : 0) : 0); if (hk < 380) hk += snprintf (hist + hk, sizeof hist - hk, ok ? "I%d " : "i%d(refused) ", k); if (ok) check_lookup (c, k); }
        } else if (op <= 9) {    /* remove */
            if (ent[k].live) { vf_inflight ("glyph_cache_remove key %d", k); pixman_glyph_cache_remove (c, fkey (k), gkey (k)); drop_entry (&ent[k]); live_count--; removes_total++; vf_count ("removes", 1);
                if (hk < 380) hk += snprintf (hist + hk, sizeof hist - hk, "R%d ", k); check_lookup (c, k);
                /* the neighbours of a removed entry must still be found */
                for (int j = 0; j < 6; j++) check_lookup (c, (int)(vf_next (r) % nkeys)); }
        } else if (op <= 12) check_lookup (c, k);
        else if (op == 15 && !filling && freeze_depth > 0 && ent[k].live && HW <= 64) {
            /* churn: one key removed and inserted again, many times over (a client re-rendering one glyph): the cache holds no more afterwards than before */
            int R = (int)vf_range (r, HW, 3 * HW); vf_count ("churn_runs", 1);
            if (hk < 380) hk += snprintf (hist + hk, sizeof hist - hk, "churn(k%d x%d) ", k, R);
            for (int q = 0; q < R; q++) {
                pixman_glyph_cache_remove (c, fkey (k), gkey (k)); drop_entry (&ent[k]); live_count--; removes_total++; vf_count ("removes", 1);
                if (!do_insert (c, k, r, 0)) break;
            }
            check_lookup (c, k);
        }
        else if (!filling && freeze_depth > 0) draw_check (c, r);
    }
    /* all live entries still resolve */
    for (int k = 0; k < nkeys; k += (nkeys > 400 ? 97 : 1)) check_lookup (c, k);
    vf_max ("max_live_entries", live_count);
    vf_cell ("cells", vf_mix (HW, vf_hash (hist, strlen (hist), 3)));
    while (freeze_depth > 0) { pixman_glyph_cache_thaw (c); freeze_depth--; }
    if (idx < 3) vf_sample ("HW=%d: history %s... ending with %d live entries", HW, hist, live_count);
    for (int k = 0; k < nkeys; k++) if (ent[k].copy) { free (ent[k].copy); ent[k].copy = NULL; }
    vf_inflight ("glyph_cache_destroy");
    pixman_glyph_cache_destroy (c);
    vf_count ("histories", 1);
}

/* Exhaustive small scope (config "hwN-exhaustiveL"): every history of exactly L symbols over the alphabet
 * { freeze, thaw, use(k) = lookup then insert if absent, remove(k) = remove if present : k in 6 keys } on a cache
 * that starts frozen once.  Case idx is the history written in base 14.  After every symbol all 6 keys are looked up
 * and compared with the model; thaws to depth 0 are judged as in the random histories. */
static int EXL;
static void exhaustive_case (long idx, vf_rng *r)
{
    enum { NK = 6, NSYM = 2 + 2 * NK };
    nkeys = NK; memset (ent, 0, sizeof (entry_t) * nkeys); for (int k_ = 0; k_ < nkeys; k_++) ent[k_].removed_clock = -1; stamp = 0; live_count = 0; removes_total = 0; freeze_depth = 0;
    pixman_glyph_cache_t *c = pixman_glyph_cache_create (); if (!c) return;
    pixman_glyph_cache_freeze (c); freeze_depth = 1;
    char hist[120]; int hk = 0; hist[0] = 0; long code = idx; int nontrivial = 0;
    for (int s = 0; s < EXL; s++) {
        int sym = (int)(code % NSYM); code /= NSYM;
        if (sym == 0) { if (freeze_depth < 3) { pixman_glyph_cache_freeze (c); freeze_depth++; } hk += snprintf (hist + hk, sizeof hist - hk, "F "); }
        else if (sym == 1) { hk += snprintf (hist + hk, sizeof hist - hk, "T ");
            if (freeze_depth > 0) { vf_case_desc ("HW=%d exhaustive history: F %s", HW, hist); pixman_glyph_cache_thaw (c); freeze_depth--; vf_count ("thaws", 1); if (freeze_depth == 0) after_thaw (c); } }
        else if (sym < 2 + NK) { int k = sym - 2; vf_case_desc ("HW=%d exhaustive history: F %s then use(%d)", HW, hist, k);
            check_lookup (c, k);
            if (!ent[k].live && freeze_depth > 0) { int ok = do_insert (c, k, r, 1); hk += snprintf (hist + hk, sizeof hist - hk, ok ? "I%d " : "i%d(refused) ", k); nontrivial += ok; }
            else hk += snprintf (hist + hk, sizeof hist - hk, "L%d ", k); }
        else { int k = sym - 2 - NK; vf_case_desc ("HW=%d exhaustive history: F %s then remove(%d)", HW, hist, k);
            if (ent[k].live) { pixman_glyph_cache_remove (c, fkey (k), gkey (k)); drop_entry (&ent[k]); live_count--; removes_total++; vf_count ("removes", 1); hk += snprintf (hist + hk, sizeof hist - hk, "R%d ", k); nontrivial++; }
            else hk += snprintf (hist + hk, sizeof hist - hk, "r%d ", k); }
        vf_case_desc ("HW=%d exhaustive history: F %s", HW, hist);
        for (int k = 0; k < NK; k++) check_lookup (c, k);
    }
    /* a cell = the history's shape (which kind of symbol at each position, not which key): 4^L shapes */
    if (nontrivial) { uint64_t shape = 0; long c2 = idx; for (int s2 = 0; s2 < EXL; s2++) { int sym = (int)(c2 % NSYM); c2 /= NSYM; shape = shape * 4 + (uint64_t)(sym < 2 ? sym : sym < 2 + NK ? 2 : 3); } vf_cell ("cells", vf_mix (HW * 131 + EXL, shape)); }
    vf_count ("exhaustive_histories", 1); vf_max ("max_live_entries", live_count);
    while (freeze_depth > 0) { pixman_glyph_cache_thaw (c); freeze_depth--; }
    if (idx % 100003 == 7) vf_sample ("HW=%d exhaustive history #%ld: F %s", HW, idx, hist);
    for (int k = 0; k < nkeys; k++) if (ent[k].copy) { free (ent[k].copy); ent[k].copy = NULL; }
    pixman_glyph_cache_destroy (c);
    vf_count ("histories", 1);
}
static void any_case (long idx, vf_rng *r) { if (EXL) exhaustive_case (idx, r); else glyph_case (idx, r); }

static void init (void) { if (sscanf (vf.config, "hw%d", &HW) != 1) HW = 16384; const char *e = strstr (vf.config, "exhaustive"); if (e) EXL = atoi (e + 10); ent = calloc (MAXK, sizeof (entry_t)); }
int main (int argc, char **argv) { return vf_main (argc, argv, "C17", init, any_case, NULL); }
