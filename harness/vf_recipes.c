#include "vf_recipes.h"
#include "ref_pixel.h"

/* ---- recipes: every entry of every implementation's tables, in a chain-independent order ---- */
recipe_t *recipes; int n_recipes;
const char *imp_names[] = { "general", "fast", "mmx", "sse2", "ssse3", "noop" };
static pixman_implementation_t *imps[6];

void collect (void)
{
    pixman_implementation_t *g = _pixman_implementation_create_general ();
    imps[0] = g;
    imps[1] = _pixman_implementation_create_fast_path (g);
    imps[2] = _pixman_implementation_create_mmx (imps[1]);
    imps[3] = _pixman_implementation_create_sse2 (imps[2]);
    imps[4] = _pixman_implementation_create_ssse3 (imps[3]);
    imps[5] = _pixman_implementation_create_noop (imps[4]);
    int cap = 4096; recipes = calloc (cap, sizeof *recipes);
    for (int i = 1; i < 6; i++) {
        int k = 0;
        for (const pixman_fast_path_t *e = imps[i]->fast_paths; e && e->op != PIXMAN_OP_NONE; e++, k++) {
            if (n_recipes == cap) break;
            recipes[n_recipes].imp = i; recipes[n_recipes].fp = *e; recipes[n_recipes].index = k; n_recipes++;
        }
        k = 0;
        for (const pixman_iter_info_t *e = imps[i]->iter_info; e && e->format != PIXMAN_null; e++, k++) {
            if (n_recipes == cap) break;
            recipes[n_recipes].imp = i; recipes[n_recipes].is_iter = 1; recipes[n_recipes].it = *e; recipes[n_recipes].index = k; n_recipes++;
        }
    }
    { int k = 0; for (const pixman_iter_info_t *e = g->iter_info; e && e->format != PIXMAN_null; e++, k++) { recipes[n_recipes].imp = 0; recipes[n_recipes].is_iter = 1; recipes[n_recipes].it = *e; recipes[n_recipes].index = k; n_recipes++; } }
}

/* image properties promised by a flag word */
static void props_from_flags (vf_rng *r, rq_image *im, uint32_t flags, int *cover)
{
    int cls;
    if (flags & FAST_PATH_ID_TRANSFORM) { static const int c[] = { TR_NONE, TR_NONE, TR_IDENTITY, TR_INT_TRANSLATE }; cls = VF_PICK (r, c); }
    else if (flags & FAST_PATH_SCALE_TRANSFORM) cls = (flags & FAST_PATH_X_UNIT_POSITIVE) ? TR_SCALE_POS : TR_SCALE_ANY;
    else if (flags & FAST_PATH_ROTATE_90_TRANSFORM) cls = TR_ROT90;
    else if (flags & FAST_PATH_ROTATE_180_TRANSFORM) cls = TR_ROT180;
    else if (flags & FAST_PATH_ROTATE_270_TRANSFORM) cls = TR_ROT270;
    else if (flags & FAST_PATH_AFFINE_TRANSFORM) { static const int c[] = { TR_AFFINE, TR_AFFINE, TR_SCALE_ANY, TR_FRAC_TRANSLATE, TR_ROT90 }; cls = VF_PICK (r, c); }
    else if (flags & FAST_PATH_HAS_TRANSFORM) cls = (int)vf_range (r, TR_FRAC_TRANSLATE, TR_PROJECTIVE);
    else cls = vf_chance (r, 1, 2) ? TR_NONE : (int)vf_range (r, TR_IDENTITY, TR_PROJECTIVE);
    rq_gen_transform (r, im, cls, 0);
    if ((flags & FAST_PATH_SCALE_TRANSFORM) && vf_chance (r, 1, 2)) { im->tr.matrix[1][1] = 65536; }
    int filter;
    if (flags & FAST_PATH_NEAREST_FILTER) filter = vf_chance (r, 3, 4) ? PIXMAN_FILTER_NEAREST : PIXMAN_FILTER_FAST;
    else if (flags & FAST_PATH_BILINEAR_FILTER) { static const int f[] = { PIXMAN_FILTER_BILINEAR, PIXMAN_FILTER_BILINEAR, PIXMAN_FILTER_GOOD, PIXMAN_FILTER_BEST }; filter = VF_PICK (r, f); }
    else if (flags & FAST_PATH_SEPARABLE_CONVOLUTION_FILTER) filter = PIXMAN_FILTER_SEPARABLE_CONVOLUTION;
    else { static const int f[] = { PIXMAN_FILTER_NEAREST, PIXMAN_FILTER_BILINEAR, PIXMAN_FILTER_CONVOLUTION, PIXMAN_FILTER_SEPARABLE_CONVOLUTION }; filter = (flags & FAST_PATH_NO_CONVOLUTION_FILTER) ? f[vf_next (r) % 2] : VF_PICK (r, f); }
    rq_gen_filter (r, im, filter);
    int allowed[4], na = 0;
    if (!(flags & FAST_PATH_NO_NONE_REPEAT)) allowed[na++] = PIXMAN_REPEAT_NONE;
    if (!(flags & FAST_PATH_NO_NORMAL_REPEAT)) allowed[na++] = PIXMAN_REPEAT_NORMAL;
    if (!(flags & FAST_PATH_NO_PAD_REPEAT)) allowed[na++] = PIXMAN_REPEAT_PAD;
    if (!(flags & FAST_PATH_NO_REFLECT_REPEAT)) allowed[na++] = PIXMAN_REPEAT_REFLECT;
    im->repeat = na ? allowed[vf_next (r) % na] : PIXMAN_REPEAT_NONE;
    if (flags & (FAST_PATH_SAMPLES_COVER_CLIP_NEAREST | FAST_PATH_SAMPLES_COVER_CLIP_BILINEAR)) *cover = 1;
    im->ca = (flags & FAST_PATH_COMPONENT_ALPHA) ? 1 : (flags & FAST_PATH_UNIFIED_ALPHA) ? 0 : vf_chance (r, 1, 4);
    im->alpha_map = (flags & FAST_PATH_NO_ALPHA_MAP) ? 0 : vf_chance (r, 1, 3);
    im->accessors = (flags & FAST_PATH_NO_ACCESSORS) ? 0 : vf_chance (r, 1, 3);
    if (im->alpha_map) { im->am_x = (int)vf_range (r, -2, 2); im->am_y = (int)vf_range (r, -1, 1); im->am_w = (int)vf_range (r, 1, 30); im->am_h = (int)vf_range (r, 1, 8); }
}

static pixman_format_code_t any_narrow (vf_rng *r, int dst)
{
    for (;;) { pixman_format_code_t f = dst ? rq_dst_formats[vf_next (r) % rq_n_dst_formats] : rq_src_formats[vf_next (r) % rq_n_src_formats]; if (!rp_is_indexed (f)) return f; }
}

void set_operand (vf_rng *r, rq_image *im, pixman_format_code_t fmt, uint32_t flags, int role, int *cover)
{
    memset (im, 0, sizeof *im);
    im->pixseed = vf_next (r); im->pixstyle = (int)(vf_next (r) % 4);
    if (fmt == PIXMAN_solid) {
        if (vf_chance (r, 3, 4)) { rq_gen_image (r, im, role, RQP_NO_GRADIENT); while (im->kind != RQ_SOLID) rq_gen_image (r, im, role, RQP_NO_GRADIENT); if (role == 1) im->ca = (flags & FAST_PATH_COMPONENT_ALPHA) ? 1 : 0; return; }
        /* a 1x1 repeating bits image is also "solid" */
        im->kind = RQ_BITS; im->fmt = vf_chance (r, 1, 2) ? PIXMAN_a8r8g8b8 : any_narrow (r, 0); im->w = im->h = 1; im->repeat = PIXMAN_REPEAT_NORMAL; im->filter = PIXMAN_FILTER_NEAREST;
        if (role == 1) im->ca = (flags & FAST_PATH_COMPONENT_ALPHA) ? 1 : 0;
        return;
    }
    im->kind = RQ_BITS;
    im->fmt = (fmt == PIXMAN_any || fmt == PIXMAN_unknown) ? any_narrow (r, role == 2) : fmt;
    if (role == 2) { im->w = (int)vf_range (r, 1, 70); im->h = (int)vf_range (r, 1, 5); im->pad = (int)(vf_next (r) % 3); im->neg = vf_chance (r, 1, 8);
        if (vf_chance (r, 1, 4)) { im->n_clip = (int)vf_range (r, 1, 4); for (int i = 0; i < im->n_clip; i++) { int x1 = (int)vf_range (r, 0, im->w - 1), y1 = (int)vf_range (r, 0, im->h - 1); im->clip[i].x1 = x1; im->clip[i].y1 = y1; im->clip[i].x2 = x1 + (int)vf_range (r, 1, im->w); im->clip[i].y2 = y1 + (int)vf_range (r, 1, im->h); } }
        return; }
    im->w = vf_chance (r, 1, 8) ? (int)vf_range (r, 1, 2) : (int)vf_range (r, 1, 40); im->h = vf_chance (r, 1, 6) ? 1 : (int)vf_range (r, 1, 12);
    if (vf_chance (r, 1, 6)) im->w = (int)vf_range (r, 60, 200);
    im->pad = (int)(vf_next (r) % 3); im->neg = vf_chance (r, 1, 8);
    props_from_flags (r, im, flags, cover);
}


int recipe_request (vf_rng *r, const recipe_t *rc, rq_request *qp)
{
#define q (*qp)
    int cover = 0;
    if (!rc->is_iter) {
        const pixman_fast_path_t *e = &rc->fp;
        q.op = e->op == PIXMAN_OP_any ? (pixman_op_t)(vf_next (r) % 14) : e->op;
        set_operand (r, &q.dst, e->dest_format, e->dest_flags, 2, &cover);
        if (e->src_format == PIXMAN_pixbuf || e->src_format == PIXMAN_rpixbuf) {
            set_operand (r, &q.src, e->src_format == PIXMAN_pixbuf ? PIXMAN_x8b8g8r8 : PIXMAN_x8r8g8b8, FAST_PATH_ID_TRANSFORM | FAST_PATH_NEAREST_FILTER | FAST_PATH_NO_ALPHA_MAP | FAST_PATH_NO_ACCESSORS, 0, &cover);
            q.src.tr_class = TR_NONE; q.pixbuf = e->src_format == PIXMAN_pixbuf ? 1 : 2; q.has_mask = 1; cover = 1;
        } else {
            set_operand (r, &q.src, e->src_format, e->src_flags, 0, &cover);
            q.has_mask = e->mask_format != PIXMAN_null;
            if (q.has_mask) { int c2 = 0; set_operand (r, &q.mask, e->mask_format, e->mask_flags, 1, &c2); }
        }
    } else {
        /* an iterator (fetcher / writer) entry: drive it through an operator the whole-op tables rarely cover */
        static const pixman_op_t ops[] = { PIXMAN_OP_OVER, PIXMAN_OP_ATOP, PIXMAN_OP_XOR, PIXMAN_OP_IN_REVERSE, PIXMAN_OP_ADD, PIXMAN_OP_SRC, PIXMAN_OP_SATURATE, PIXMAN_OP_MULTIPLY, PIXMAN_OP_CONJOINT_OVER };
        q.op = VF_PICK (r, ops);
        int wide = (rc->it.iter_flags & ITER_WIDE) != 0;
        if (rc->it.iter_flags & ITER_DEST) {
            set_operand (r, &q.dst, rc->it.format, rc->it.image_flags, 2, &cover);
            set_operand (r, &q.src, vf_chance (r, 1, 2) ? PIXMAN_a8r8g8b8 : PIXMAN_any, FAST_PATH_ID_TRANSFORM | FAST_PATH_NO_ALPHA_MAP, 0, &cover);
        } else {
            set_operand (r, &q.dst, wide ? PIXMAN_a2r10g10b10 : (vf_chance (r, 1, 2) ? PIXMAN_a8r8g8b8 : PIXMAN_any), 0, 2, &cover);
            set_operand (r, &q.src, rc->it.format, rc->it.image_flags, 0, &cover);
        }
        q.has_mask = vf_chance (r, 1, 3);
        if (q.has_mask) { int c2 = 0; set_operand (r, &q.mask, vf_chance (r, 1, 2) ? PIXMAN_a8 : PIXMAN_any, 0, 1, &c2); }
    }
    return cover;
#undef q
}
