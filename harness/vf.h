/* Common monitor runtime: PRNG, result log, in-flight record, crash/hang attribution,
 * guarded pixel storage, footprint snapshots.  Used by every mon_cNN program. */
#ifndef VF_H
#define VF_H
#include <stdint.h>
#include <stddef.h>
#include <stdio.h>
#include <stdlib.h>
#include <string.h>
#include <stdarg.h>
#include "pixman.h"
#ifndef TRUE
#define TRUE 1
#define FALSE 0
#endif

/* ---------- PRNG (xoshiro256** seeded through splitmix64) ---------- */
typedef struct { uint64_t s[4]; } vf_rng;
void     vf_rng_seed (vf_rng *r, uint64_t a, uint64_t b, uint64_t c);
uint64_t vf_next (vf_rng *r);
static inline uint32_t vf_u32 (vf_rng *r) { return (uint32_t)(vf_next (r) >> 32); }
/* uniform in [lo,hi] inclusive */
static inline int64_t vf_range (vf_rng *r, int64_t lo, int64_t hi)
{ uint64_t span = (uint64_t)(hi - lo) + 1; return span ? lo + (int64_t)(vf_next (r) % span) : (int64_t)vf_next (r); }
static inline int vf_chance (vf_rng *r, int num, int den) { return (int)(vf_next (r) % (unsigned)den) < num; }
static inline double vf_unit (vf_rng *r) { return (vf_next (r) >> 11) * (1.0 / 9007199254740992.0); }
#define VF_PICK(r, arr) ((arr)[vf_next (r) % (sizeof (arr) / sizeof ((arr)[0]))])
uint64_t vf_hash (const void *p, size_t n, uint64_t seed);
static inline uint64_t vf_mix (uint64_t h, uint64_t v)
{ h ^= v + 0x9e3779b97f4a7c15ull + (h << 6) + (h >> 2); h *= 0xff51afd7ed558ccdull; h ^= h >> 32; return h; }

/* ---------- run context ---------- */
typedef struct {
    const char *prop;        /* "C05" */
    uint64_t seed;
    int shard, nshards;
    long cases;              /* number of cases of this shard's stride to run (global count) */
    long start;              /* first global case index to run */
    long only;               /* >=0: run exactly this case, verbosely */
    const char *tier;        /* quick | thorough */
    const char *config;      /* free-form configuration name (chain, table size, ...) */
    int verbose;
    long case_idx;           /* current global case index */
    int thorough;
} vf_ctx;
extern vf_ctx vf;

typedef void (*vf_case_fn) (long idx, vf_rng *rng);
/* parses the common command line, runs cases idx = shard, shard+n, ... < cases; returns exit status */
int vf_main (int argc, char **argv, const char *prop, void (*init) (void), vf_case_fn fn, void (*fini) (void));

/* ---------- result log ---------- */
void vf_violation (const char *key, const char *fmt, ...) __attribute__ ((format (printf, 2, 3)));
void vf_count (const char *name, int64_t add);
void vf_max (const char *name, int64_t v);
void vf_cell (const char *set, uint64_t h);          /* distinct-cell hash set */
void vf_label (const char *set, const char *fmt, ...) __attribute__ ((format (printf, 2, 3))); /* distinct labels */
void vf_sample (const char *fmt, ...) __attribute__ ((format (printf, 1, 2)));
void vf_sample_n (int maxn, const char *fmt, ...) __attribute__ ((format (printf, 2, 3)));
/* describe what is about to be executed (goes to the mmap'ed in-flight record) */
void vf_inflight (const char *fmt, ...) __attribute__ ((format (printf, 1, 2)));
void vf_case_desc (const char *fmt, ...) __attribute__ ((format (printf, 1, 2))); /* appended to violations */
int  vf_violations_so_far (void);
void vf_digest_line (long idx, uint64_t digest, const char *label);
void vf_fatal (const char *fmt, ...) __attribute__ ((format (printf, 1, 2), noreturn)); /* harness failure: exit 2 */
/* called by the PIXMAN_VERIF hooks inside the library */
void _pixman_verif_fail (const char *what);

/* ---------- guarded pixel storage ---------- */
enum { VF_PLACE_END = 0, VF_PLACE_START = 1, VF_PLACE_MALLOC = 2 };
typedef struct {
    pixman_format_code_t fmt;
    int w, h, bpp;
    int stride;              /* bytes, may be negative */
    int rowbytes;            /* bytes of a row that belong to the caller's storage */
    uint8_t *map; size_t map_len;
    uint8_t *base;           /* lowest address of the storage */
    size_t bytes;            /* total storage */
    uint32_t *bits;          /* row 0 */
    uint8_t *snap;           /* snapshot for footprint diff */
    int place;
} vf_buf;
/* pad: extra stride in units of 4 bytes; neg: negative stride */
int  vf_buf_alloc (vf_buf *b, pixman_format_code_t fmt, int w, int h, int pad_words, int neg, int place);
int  vf_buf_alloc_raw (vf_buf *b, pixman_format_code_t fmt, int bpp, int w, int h, int pad_words, int neg, int place);
void vf_buf_free (vf_buf *b);
void vf_buf_fill_random (vf_buf *b, vf_rng *r);
void vf_buf_snapshot (vf_buf *b);
static inline uint8_t *vf_buf_row (const vf_buf *b, int y) { return (uint8_t *)b->bits + (ptrdiff_t)y * b->stride; }
static inline const uint8_t *vf_buf_snaprow (const vf_buf *b, int y)
{ return b->snap + (((uint8_t *)b->bits - b->base) + (ptrdiff_t)y * b->stride); }
pixman_image_t *vf_buf_image (vf_buf *b);   /* pixman_image_create_bits on the storage */
int vf_default_place (vf_rng *r);

/* raw pixel access on little-endian storage, any bpp in 1,4,8,16,24,32 */
uint32_t vf_get_px (const uint8_t *row, int bpp, int x);
void     vf_put_px (uint8_t *row, int bpp, int x, uint32_t v);

/* chains */
const char *vf_chain_env (void);   /* value of PIXMAN_DISABLE for evidence */

#endif
