#!/usr/bin/env python3
"""Writes MANIFEST.json from props.py (claimed checks) + the not_applicable list."""
import json, os, subprocess, sys
sys.path.insert(0, os.path.dirname(os.path.abspath(__file__)))
from props import PROPS, MANIFEST_TEXT, NOT_CLAIMED

hooks_commits = subprocess.run("git -C /repo log --format=%h --grep='^hook:'", shell=True, stdout=subprocess.PIPE, text=True).stdout.split()
checks = []
for pid in sorted(PROPS):
    t = MANIFEST_TEXT[pid]
    checks.append(dict(
        property_id=pid,
        quick_cmd="./check %s --tier quick" % pid,
        thorough_cmd="./check %s --tier thorough" % pid,
        evidence_file="evidence/%s.json" % pid,
        replay_cmd_template="./check %s --replay {path}" % pid,
        engine=t.get("engine", "monitors"),
        level_claimed=dict(category=PROPS[pid]["level"], text=t["level_text"], design_ref=t.get("design_ref", "DESIGN.md section 6/" + pid)),
        level_note=t["level_note"],
        technique=t["technique"]))
m = dict(
    version=1,
    setup_cmd="./check --setup",
    hooks=dict(guard="PIXMAN_VERIF", enable="checks compile /repo/pixman/*.c themselves (vfbuild.py) with -DPIXMAN_VERIF; the meson build never defines it",
               baseline_off_cmd="ninja -C /repo/_build && meson test -C /repo/_build",
               source_commits=hooks_commits, add_only=True),
    engines=[dict(name="monitors", path="check", serves_properties=sorted(PROPS),
                  kind_free_text="python3 driver + C monitor programs (harness/) linked against sanitizer flavours of libpixman built from /repo's working tree; "
                                 "reference-model / differential / metamorphic oracles, ASan/UBSan/TSan, guard pages, allocation fail-points")],
    checks=checks,
    notes="Runtime monitoring and sanitizers only.  Exit 0 held / 1 violated (VIOLATION line + replay file) / 2 inconclusive (build failure, watchdog, coverage floor). "
          "Known findings: known-findings.txt.  Seeded changes used to validate the monitors: seeded/.",
    not_applicable=[dict(property_id=p, reason=r) for p, r in sorted(NOT_CLAIMED.items()) if p not in PROPS])
json.dump(m, open(os.path.join(os.path.dirname(os.path.abspath(__file__)), "MANIFEST.json"), "w"), indent=1)
print("claimed:", " ".join(sorted(PROPS)), "| not claimed:", " ".join(x["property_id"] for x in m["not_applicable"]))
