#!/usr/bin/env python3
"""Flavour builder: compiles /repo/pixman/*.c (current working tree) into a static
libpixman.a per sanitizer flavour, keyed by a content hash, always with -DPIXMAN_VERIF.
Also builds the monitor programs of /verif/harness against a flavour.
Only needs gcc, ar and the python3 standard library."""
import hashlib, os, re, shutil, subprocess, sys, time
from concurrent.futures import ThreadPoolExecutor

VERIF = os.path.dirname(os.path.abspath(__file__))
REPO = os.environ.get("VERIF_REPO", "/repo")
BUILD = os.path.join(VERIF, "build")
HARNESS = os.path.join(VERIF, "harness")
SUPPORT = os.path.join(VERIF, "support")
JOBS = int(os.environ.get("VERIF_JOBS", "16"))

COMMON = ["-g", "-fno-strict-aliasing", "-ftrapping-math", "-fvisibility=hidden",
          "-DHAVE_CONFIG_H", "-DPIXMAN_VERIF", "-D_FILE_OFFSET_BITS=64", "-pthread", "-w"]

FLAVOURS = {
    # behavioural oracles at full speed
    "plain": ["-O2"],
    # ASan + the two auxiliary UBSan checks; reports are fatal
    "asan": ["-O1", "-fno-omit-frame-pointer", "-fsanitize=address",
             "-fsanitize=bounds,null", "-fno-sanitize-recover=bounds,null"],
    # asan + arithmetic checks in recover mode (reports are attributed by source location)
    "ubsan": ["-O1", "-fno-omit-frame-pointer", "-fsanitize=address",
              "-fsanitize=signed-integer-overflow,float-cast-overflow,shift",
              "-fsanitize-recover=signed-integer-overflow,float-cast-overflow,shift"],
    "tsan": ["-O1", "-fno-omit-frame-pointer", "-fsanitize=thread"],
}
SIMD = {"pixman-mmx.c": ["-mmmx", "-Winline"], "pixman-sse2.c": ["-msse2", "-Winline"],
        "pixman-ssse3.c": ["-mssse3", "-Winline"]}

FALLBACK_SOURCES = """pixman.c pixman-access.c pixman-access-accessors.c pixman-bits-image.c
pixman-combine32.c pixman-combine-float.c pixman-conical-gradient.c pixman-filter.c pixman-x86.c
pixman-mips.c pixman-arm.c pixman-ppc.c pixman-edge.c pixman-edge-accessors.c pixman-fast-path.c
pixman-glyph.c pixman-general.c pixman-gradient-walker.c pixman-image.c pixman-implementation.c
pixman-linear-gradient.c pixman-matrix.c pixman-noop.c pixman-radial-gradient.c pixman-region16.c
pixman-region32.c pixman-solid-fill.c pixman-timer.c pixman-trap.c pixman-utils.c""".split()


class BuildError(Exception):
    pass


def source_list():
    """library sources as listed in pixman/meson.build (so an added file is picked up)"""
    srcs = None
    try:
        txt = open(os.path.join(REPO, "pixman", "meson.build")).read()
        m = re.search(r"pixman_files\s*=\s*files\((.*?)\)", txt, re.S)
        if m:
            srcs = re.findall(r"'([^']+\.c)'", m.group(1))
    except OSError:
        pass
    if not srcs:
        srcs = list(FALLBACK_SOURCES)
    for s in SIMD:
        if s not in srcs:
            srcs.append(s)
    return [s for s in srcs if os.path.exists(os.path.join(REPO, "pixman", s))]


def project_version():
    try:
        txt = open(os.path.join(REPO, "meson.build")).read()
        m = re.search(r"version\s*:\s*'(\d+)\.(\d+)\.(\d+)'", txt)
        if m:
            return m.groups()
    except OSError:
        pass
    return ("0", "40", "1")


def tree_hash(extra=()):
    h = hashlib.sha256()
    pd = os.path.join(REPO, "pixman")
    for fn in sorted(os.listdir(pd)):
        if fn.endswith((".c", ".h", ".in", ".build")):
            h.update(fn.encode())
            with open(os.path.join(pd, fn), "rb") as f:
                h.update(f.read())
    h.update(open(os.path.join(SUPPORT, "config.h"), "rb").read())
    for e in extra:
        h.update(repr(e).encode())
    return h.hexdigest()[:16]


def _run(cmd, cwd=None):
    p = subprocess.run(cmd, cwd=cwd, stdout=subprocess.PIPE, stderr=subprocess.STDOUT, text=True)
    return p.returncode, p.stdout


def lib_dir(flavour, extra_defs=()):
    key = tree_hash((flavour, FLAVOURS[flavour], COMMON, tuple(extra_defs)))
    tag = flavour + ("-" + "_".join(d.replace("-D", "").replace("=", "") for d in extra_defs) if extra_defs else "")
    return os.path.join(BUILD, "%s-%s" % (tag, key)), tag


def build_lib(flavour, extra_defs=(), quiet=True):
    """returns the directory holding libpixman.a (+ include dir) for this flavour of the current tree"""
    d, tag = lib_dir(flavour, extra_defs)
    lib = os.path.join(d, "libpixman.a")
    if os.path.exists(lib) and os.path.exists(os.path.join(d, ".ok")):
        os.utime(d, None)
        return d
    os.makedirs(BUILD, exist_ok=True)
    tmp = d + ".tmp%d" % os.getpid()
    shutil.rmtree(tmp, ignore_errors=True)
    os.makedirs(os.path.join(tmp, "inc"))
    shutil.copy(os.path.join(SUPPORT, "config.h"), os.path.join(tmp, "inc", "config.h"))
    maj, mi, mic = project_version()
    vin = open(os.path.join(REPO, "pixman", "pixman-version.h.in")).read()
    vin = vin.replace("@PIXMAN_VERSION_MAJOR@", maj).replace("@PIXMAN_VERSION_MINOR@", mi).replace("@PIXMAN_VERSION_MICRO@", mic)
    open(os.path.join(tmp, "inc", "pixman-version.h"), "w").write(vin)
    srcs = source_list()
    flags = COMMON + FLAVOURS[flavour] + list(extra_defs) + ["-I" + os.path.join(tmp, "inc"), "-I" + os.path.join(REPO, "pixman")]

    def cc(s):
        o = os.path.join(tmp, s[:-2] + ".o")
        cmd = ["gcc"] + flags + SIMD.get(s, []) + ["-c", os.path.join(REPO, "pixman", s), "-o", o]
        rc, out = _run(cmd)
        return s, rc, out, o

    t0 = time.time()
    with ThreadPoolExecutor(JOBS) as ex:
        res = list(ex.map(cc, srcs))
    bad = [(s, out) for s, rc, out, o in res if rc != 0]
    if bad:
        shutil.rmtree(tmp, ignore_errors=True)
        raise BuildError("pixman does not compile (%s):\n%s" % (flavour, "\n".join(o[-2000:] for s, o in bad[:3])))
    rc, out = _run(["ar", "rcs", os.path.join(tmp, "libpixman.a")] + [o for _, _, _, o in res])
    if rc:
        shutil.rmtree(tmp, ignore_errors=True)
        raise BuildError("ar failed: " + out)
    for _, _, _, o in res:
        os.unlink(o)
    open(os.path.join(tmp, ".ok"), "w").write("%.1f\n" % (time.time() - t0))
    shutil.rmtree(d, ignore_errors=True)
    try:
        os.rename(tmp, d)
    except OSError:
        shutil.rmtree(tmp, ignore_errors=True)
        if not os.path.exists(lib):
            raise
    _prune(tag, keep=d)
    if not quiet:
        print("built %s in %.1fs" % (d, time.time() - t0), file=sys.stderr)
    return d


def _prune(tag, keep):
    """keep a few generations per flavour tag (VERIF_KEEP_GENERATIONS, default 6) (disk is limited)"""
    try:
        ds = [os.path.join(BUILD, x) for x in os.listdir(BUILD)
              if re.fullmatch(re.escape(tag) + r"-[0-9a-f]{16}", x)]
    except OSError:
        return
    ds = sorted((x for x in ds if x != keep), key=lambda x: os.path.getmtime(x), reverse=True)
    for x in ds[max(1, int(os.environ.get("VERIF_KEEP_GENERATIONS", "6")) - 1):]:
        shutil.rmtree(x, ignore_errors=True)


def harness_hash(files):
    h = hashlib.sha256()
    for fn in sorted(os.listdir(HARNESS)):
        if fn.endswith(".h") or fn in files:
            h.update(fn.encode())
            h.update(open(os.path.join(HARNESS, fn), "rb").read())
    return h.hexdigest()[:12]


def build_monitor(name, sources, flavour, extra_defs=(), link_extra=(), cflags_extra=()):
    """compiles harness sources + libpixman.a of the flavour into <libdir>/<name>-<hash>; returns path"""
    d = build_lib(flavour, extra_defs)
    srcs = list(sources)
    hh = harness_hash(srcs) + hashlib.sha256(repr((link_extra, cflags_extra)).encode()).hexdigest()[:4]
    exe = os.path.join(d, "%s-%s" % (name, hh))
    if os.path.exists(exe):
        return exe
    for old in os.listdir(d):
        if old.startswith(name + "-"):
            try:
                os.unlink(os.path.join(d, old))
            except OSError:
                pass
    fl = [f for f in FLAVOURS[flavour]]
    opt = ["-O2" if flavour == "plain" else "-O1"]
    cmd = (["gcc", "-g", "-fno-strict-aliasing", "-pthread", "-no-pie", "-DHAVE_CONFIG_H", "-DPIXMAN_VERIF",
            "-DVF_FLAVOUR_%s=1" % flavour.upper(), "-Wall", "-Wno-unused-function", "-Wno-unused-variable",
            "-Wno-unused-but-set-variable"]
           + [f for f in fl if f.startswith("-fsanitize") or f.startswith("-fno-sanitize") or f == "-fno-omit-frame-pointer"] + opt
           + list(extra_defs) + list(cflags_extra)
           + ["-I" + os.path.join(d, "inc"), "-I" + os.path.join(REPO, "pixman"), "-I" + HARNESS]
           + [os.path.join(HARNESS, s) for s in srcs]
           + [os.path.join(d, "libpixman.a")] + list(link_extra) + ["-lm", "-ldl", "-o", exe + ".tmp%d" % os.getpid()])
    rc, out = _run(cmd)
    if rc:
        # distinguish: if the harness fails to compile it is a harness failure either way (exit 2)
        raise BuildError("monitor %s does not build (%s):\n%s" % (name, flavour, out[-4000:]))
    os.rename(exe + ".tmp%d" % os.getpid(), exe)
    return exe


if __name__ == "__main__":
    t = time.time()
    fl = sys.argv[1:] or list(FLAVOURS)
    with ThreadPoolExecutor(len(fl)) as ex:
        for d in ex.map(lambda f: build_lib(f, quiet=False), fl):
            print(d)
    print("%.1fs" % (time.time() - t))
