#!/bin/sh
# runs every registered check at one tier / seed and prints one line per property (development aid, not registered)
tier=${1:-quick}; seed=${2:-1}
cd /verif
for p in $(python3 -c "from props import PROPS; print(' '.join(sorted(PROPS)))"); do
  s=$(date +%s)
  VERIF_SEED=$seed ./check $p --tier $tier > /tmp/run_all_$p.log 2>&1; rc=$?
  e=$(date +%s)
  echo "$p rc=$rc $((e-s))s $(grep -E "^$p " /tmp/run_all_$p.log | tail -1 | cut -c1-160) $(grep -c '^VIOLATION' /tmp/run_all_$p.log) violation-lines $(grep -c '^KNOWN-FINDING' /tmp/run_all_$p.log) known"
done
